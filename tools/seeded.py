#!/usr/bin/env python3
"""Verify a seeded breaking change and run the property's check against it.

usage: tools/seeded.py import <ID> <worktree>     copy <worktree>/SEEDED into seeded/<ID>/
       tools/seeded.py verify <ID> [--tier quick] [--no-suite]
Scratch worktree of /repo HEAD is created under /tmp and removed afterwards.
"""
import json, os, shutil, subprocess, sys, time
ROOT = os.path.dirname(os.path.dirname(os.path.abspath(__file__)))
PY = "/venv/bin/python"

def sh(cmd, **kw):
    return subprocess.run(cmd, capture_output=True, text=True, **kw)

def demo(tree, path):
    src = open(path).read()
    env = dict(os.environ, PYTHONPATH=tree, PYTHONDONTWRITEBYTECODE="1")
    if "__main__" in src:
        r = sh([PY, path], env=env, cwd=tree)
    else:
        r = sh([PY, "-m", "pytest", "-q", "-p", "no:cacheprovider", "-o", "addopts=", path], env=env, cwd=tree)
    return r.returncode, (r.stdout + r.stderr)[-400:]

def main():
    cmd, sid = sys.argv[1], sys.argv[2]
    d = os.path.join(ROOT, "seeded", sid)
    if cmd == "import":
        wt = sys.argv[3]
        os.makedirs(d, exist_ok=True)
        for f in ("patch.diff", "demo_test.py", "meta.json"):
            shutil.copy(os.path.join(wt, "SEEDED", f), d)
        print("imported", d); return 0
    tier = sys.argv[sys.argv.index("--tier") + 1] if "--tier" in sys.argv else "quick"
    meta = json.load(open(os.path.join(d, "meta.json")))
    prop = meta["property"]
    wt = "/tmp/sv-%s-%d" % (sid, os.getpid())
    r = sh(["git", "-C", "/repo", "worktree", "add", "-q", "--detach", wt, "HEAD"])
    if r.returncode: print(r.stderr); return 2
    out = {}
    try:
        dpath = os.path.join(wt, "_demo_test.py"); shutil.copy(os.path.join(d, "demo_test.py"), dpath)
        rc0, o0 = demo(wt, dpath); out["demo_on_original"] = "pass" if rc0 == 0 else "FAIL: " + o0
        r = sh(["git", "-C", wt, "apply", "--whitespace=nowarn", os.path.join(d, "patch.diff")])
        if r.returncode:
            r = sh(["git", "-C", wt, "apply", "-3", "--whitespace=nowarn", os.path.join(d, "patch.diff")])
        if r.returncode:
            # a failed 3-way merge leaves conflict markers behind: start from a clean tree before the last resort
            sh(["git", "-C", wt, "checkout", "-q", "--", "pymemcache"])
            r = sh(["patch", "-p1", "--fuzz=3", "-i", os.path.join(d, "patch.diff")], cwd=wt)
        ok = r.returncode == 0
        if ok:
            rc = sh([PY, "-m", "compileall", "-q", os.path.join(wt, "pymemcache")])
            ok = rc.returncode == 0 and not sh(["grep", "-rlE", "^(<<<<<<<|>>>>>>>)", os.path.join(wt, "pymemcache")]).stdout.strip()
        out["patch_applies"] = ok
        if not ok:
            out["caught"] = None
            out["error"] = "the patch no longer applies to /repo HEAD: rebase it (keep the original as patch.orig-<commit>.diff)"
            print(json.dumps(out, indent=1))
            return 2
        if r.returncode: print(r.stdout, r.stderr)
        rc1, o1 = demo(wt, dpath); out["demo_with_change"] = "fails (as required)" if rc1 != 0 else "PASSES (not a valid seed)"
        if "--no-suite" not in sys.argv:
            r = sh([PY, "-m", "pytest", "-q", "-p", "no:cacheprovider", "pymemcache/test", "--deselect", "_demo_test.py"],
                   cwd=wt, env=dict(os.environ, PYTHONPATH=wt, PYTHONDONTWRITEBYTECODE="1"))
            tail = r.stdout.strip().splitlines()[-1] if r.stdout.strip() else r.stderr[-200:]
            out["suite_with_change"] = tail
        checks = meta.get("checks") or [prop]
        res = {}
        for c in checks:
            t = time.time()
            r = sh([PY, os.path.join(ROOT, "run.py"), c, "--tier", tier], env=dict(os.environ, VERIF_REPO=wt), cwd=ROOT)
            lines = r.stdout.splitlines()
            v = [i for i, l in enumerate(lines) if l.startswith("VIOLATION")]
            res[c] = {"exit": r.returncode, "wall_s": round(time.time() - t, 1),
                      "first": (lines[v[0] - 1].strip()[:300] if v and v[0] else (r.stdout + r.stderr)[-300:] if r.returncode == 2 else "")}
        out["checks_" + tier] = res
        out["caught"] = any(x["exit"] == 1 for x in res.values())
    finally:
        sh(["git", "-C", "/repo", "worktree", "remove", "--force", wt]); shutil.rmtree(wt, ignore_errors=True)
        sh(["git", "-C", "/repo", "worktree", "prune"])
    meta["verified"] = out
    json.dump(meta, open(os.path.join(d, "meta.json"), "w"), indent=1)
    print(json.dumps(out, indent=1))
    return 0
if __name__ == "__main__":
    sys.exit(main())

#!/usr/bin/env python3
"""Prints the prompt given to a fresh sub-agent for one property (only the property text + its worktree)."""
import json, sys, os
ROOT = os.path.dirname(os.path.dirname(os.path.abspath(__file__)))
pid = sys.argv[1]; wt = sys.argv[2]; variant = sys.argv[3] if len(sys.argv) > 3 else ""
p = next(json.loads(l) for l in open(os.path.join(ROOT, "properties.jsonl")) if json.loads(l)["id"] == pid)
print(f"""You are helping evaluate a verification effort by playing the role of a developer who introduces a subtle regression.

Your scratch copy of the open-source Python library pinterest/pymemcache (a pure-Python memcached client) is the git worktree at {wt} . Work ONLY inside that directory. Never read or touch /repo or /verif or any other worktree under /tmp. Use the interpreter /venv/bin/python (it has pytest). IMPORTANT: /venv has the package installed in editable mode pointing at another checkout, so always run things from inside {wt} with `cd {wt} && PYTHONPATH={wt} /venv/bin/python ...` and confirm with `python -c "import pymemcache; print(pymemcache.__file__)"` that your copy is the one imported.

Here is a semantic property that the library is supposed to satisfy:

  Title: {p['title']}
  Statement: {p['statement']}
  Quantified over: {p['quantifier']['text']}

Task: produce ONE realistic change to the library's source (under {wt}/pymemcache/, not the tests) that BREAKS this property, while
  (a) the package still imports/compiles, and
  (b) the existing unit-test suite still passes completely: `cd {wt} && PYTHONPATH={wt} /venv/bin/python -m pytest -q -p no:cacheprovider -x -q pymemcache/test` (it is about 488 tests; integration tests needing a live server are skipped/deselected automatically by the repo config), and
  (c) the breakage is NOT something ordinary use would expose at once. It must need something specific to manifest: a particular interleaving, a crash or fault at a particular point, a multi-step sequence of operations, an unusual input or boundary value, or two cooperating code sites that each look fine alone. Think of the kind of bug a plausible refactoring, optimisation or "cleanup" commit would introduce and that code review would miss. {variant}

Deliverables, all written into the directory {wt}/SEEDED/ (create it):
  1. patch.diff  - the output of `git -C {wt} diff -- pymemcache` for your source change only (do not include SEEDED/ or test files in it). Keep the change small (typically 1-15 lines).
  2. demo_test.py - a self-contained demonstration (a pytest file or plain script run as `PYTHONPATH=<tree> /venv/bin/python demo_test.py`, exit status non-zero on failure) that FAILS with your change applied and PASSES on the original code. It must not need a network or a real memcached; use mocks/fake sockets as the repo's own tests do (see pymemcache/test/utils.py and pymemcache/test/test_client.py for MockSocket style). It must import pymemcache from PYTHONPATH, not hard-code paths.
  3. meta.json - {{"property": "{pid}", "summary": "<one sentence: what the change does>", "needs": "<what specific input/sequence/fault/interleaving is needed for it to manifest>", "files": [...], "ran": ["<the commands you ran and their outcome>"]}}

Before finishing, verify all of this yourself: run the full existing suite with your change (must pass), run demo_test.py with your change (must fail), then reverse the patch with `git apply -R SEEDED/patch.diff` (do NOT use `git stash`: the stash is shared between worktrees and other people are working in sibling worktrees), run demo_test.py on the original code (must pass), and re-apply your change with `git apply SEEDED/patch.diff` so the worktree ends with the change applied. Report briefly what you did and the results of those three runs. Do not commit anything.""")

#!/usr/bin/env python3
"""Validate MANIFEST.json and evidence/*.json against the schemas (needs jsonschema: run with python3-vt)."""
import json, sys, glob, os
import jsonschema
ROOT = os.path.dirname(os.path.dirname(os.path.abspath(__file__)))
ok = True
def v(path, schema):
    global ok
    try:
        jsonschema.validate(json.load(open(path)), json.load(open(schema)))
        print("valid  ", os.path.relpath(path, ROOT))
    except Exception as e:
        ok = False
        print("INVALID", path, str(e)[:400])
v(os.path.join(ROOT, "MANIFEST.json"), "/root/.vp/MANIFEST.schema.json")
for p in sorted(glob.glob(os.path.join(ROOT, "evidence", "*.json"))):
    v(p, "/root/.vp/EVIDENCE.schema.json")
sys.exit(0 if ok else 1)

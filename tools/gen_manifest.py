#!/usr/bin/env python3
"""Regenerates MANIFEST.json from the table below and the checks that exist in props/."""
import json
import os

ROOT = os.path.dirname(os.path.dirname(os.path.abspath(__file__)))
PY = "/venv/bin/python"

# property -> (category, technique, level text, level note, design ref)
TABLE = {
    "C11": ("exploration",
            "Hypothesis-generated node sets, key corpora and add/remove/lookup histories; all insertion permutations enumerated (n<=6); differential against an independent statement of the rendezvous rule; metamorphic relations (permutation, history, removal/addition disruption); cross-process digest comparison",
            "Placement is compared key by key with an independent reference of the published rule over generated node sets, under every insertion order (all n! up to 6 nodes), after arbitrary add/remove histories with lookups interleaved, with tie-forcing hashes, from equivalent address spellings, and across interpreters with different PYTHONHASHSEED. Sampling, not proof; the tie and order logic is small enough that short generated cases reach all of it.",
            "Trusts vlib/refhash.py; keys or node names beyond Latin-1 are only checked for order/history independence.",
            "DESIGN.md 3/C11"),
    "C14": ("exploration",
            "bounded-exhaustive enumeration + Hypothesis random strings, differential against an independent reference MurmurHash3 (Python, and C via ctypes)",
            "Every string up to length 3-5 over representative alphabets x 4 boundary seeds is enumerated, every length 0..64 and random seeds are sampled; each result is compared with an independent MurmurHash3_x86_32 validated on 24 published vectors. Right level: the function is pure and tiny, the bug classes (masking, tail, rotation, sign) are all reachable by short inputs.",
            "Trusts vlib/refhash.py (validated against published vectors and the C original) and CPython integer arithmetic.",
            "DESIGN.md 3/C14"),
}

NOT_BUILT_REASON = "check not built yet in this session (work in progress; see DESIGN.md 7a for the order)"


def main():
    props = [json.loads(l) for l in open(os.path.join(ROOT, "properties.jsonl"))]
    checks, na = [], []
    for p in props:
        pid = p["id"]
        have = os.path.exists(os.path.join(ROOT, "props", pid.lower() + ".py"))
        if have and pid in TABLE:
            cat, tech, text, note, ref = TABLE[pid]
            checks.append({
                "property_id": pid,
                "quick_cmd": "%s run.py %s --tier quick" % (PY, pid),
                "thorough_cmd": "%s run.py %s --tier thorough" % (PY, pid),
                "evidence_file": "evidence/%s.json" % pid,
                "replay_cmd_template": "%s run.py %s --replay {path}" % (PY, pid),
                "engine": "pbt-runner",
                "level_claimed": {"category": cat, "text": text, "design_ref": ref},
                "level_note": note,
                "technique": tech,
            })
        else:
            na.append({"property_id": pid, "reason": NOT_BUILT_REASON})
    hooks_commits = []
    hp = os.path.join(ROOT, "hooks_commits.txt")
    if os.path.exists(hp):
        hooks_commits = [l.strip() for l in open(hp) if l.strip()]
    m = {
        "version": 1,
        "setup_cmd": "%s run.py --setup" % PY,
        "hooks": {
            "guard": "PYMEMCACHE_VERIF",
            "enable": "none needed: the checks use pymemcache's public seams (socket_module, client_class, lock_generator, hasher, tls_context, serde) and rebind module-level names (time, sleep) for the duration of a case; run.py exports PYMEMCACHE_VERIF=1 for form",
            "baseline_off_cmd": "cd /repo && /venv/bin/python -m pytest -ra -q -p no:cacheprovider --timeout=900 --continue-on-collection-errors",
            "source_commits": hooks_commits,
            "add_only": True,
        },
        "engines": [{
            "name": "pbt-runner", "path": "run.py",
            "serves_properties": [c["property_id"] for c in checks],
            "kind_free_text": "Hypothesis 6.168 + bounded-exhaustive enumerators + deterministic thread scheduler, over a fake socket layer and a memcached text-protocol model; imports pymemcache from /repo's working tree (VERIF_REPO overrides)",
        }],
        "checks": checks,
        "notes": "All checks: `run.py Cxx --tier quick|thorough`; VERIF_SEED selects the seed; exit 0 held / 1 VIOLATION / 2 harness error. See DESIGN.md.",
        "not_applicable": na,
    }
    with open(os.path.join(ROOT, "MANIFEST.json"), "w") as f:
        json.dump(m, f, indent=1)
    print("checks:", [c["property_id"] for c in checks])
    print("not_applicable:", [x["property_id"] for x in na])


if __name__ == "__main__":
    main()

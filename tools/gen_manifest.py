#!/venv/bin/python
"""Regenerates MANIFEST.json from the table below and the checks that exist in props/."""
import importlib
import json
import os
import sys

ROOT = os.path.dirname(os.path.dirname(os.path.abspath(__file__)))
PY = "/venv/bin/python"

NOT_BUILT_REASON = "check not built yet in this session (work in progress; see DESIGN.md 7a for the order)"


def main():
    sys.path.insert(0, os.environ.get("VERIF_REPO", "/repo"))
    sys.path.insert(0, ROOT)
    props = [json.loads(l) for l in open(os.path.join(ROOT, "properties.jsonl"))]
    checks, na = [], []
    for p in props:
        pid = p["id"]
        have = os.path.exists(os.path.join(ROOT, "props", pid.lower() + ".py"))
        info = getattr(importlib.import_module("props." + pid.lower()), "MANIFEST", None) if have else None
        if info:
            cat, tech, text, note, ref = info["category"], info["technique"], info["text"], info["note"], info["design_ref"]
            checks.append({
                "property_id": pid,
                "quick_cmd": "%s run.py %s --tier quick" % (PY, pid),
                "thorough_cmd": "%s run.py %s --tier thorough" % (PY, pid),
                "evidence_file": "evidence/%s.json" % pid,
                "replay_cmd_template": "%s run.py %s --replay {path}" % (PY, pid),
                "engine": "pbt-runner",
                "level_claimed": {"category": cat, "text": text, "design_ref": ref},
                "level_note": note,
                "technique": tech,
            })
        else:
            na.append({"property_id": pid, "reason": NOT_BUILT_REASON})
    hooks_commits = []
    hp = os.path.join(ROOT, "hooks_commits.txt")
    if os.path.exists(hp):
        hooks_commits = [l.strip() for l in open(hp) if l.strip()]
    m = {
        "version": 1,
        "setup_cmd": "%s run.py --setup" % PY,
        "hooks": {
            "guard": "PYMEMCACHE_VERIF",
            "enable": "none needed: the checks use pymemcache's public seams (socket_module, client_class, lock_generator, hasher, tls_context, serde) and rebind module-level names (time, sleep) for the duration of a case; run.py exports PYMEMCACHE_VERIF=1 for form",
            "baseline_off_cmd": "cd /repo && /venv/bin/python -m pytest -ra -q -p no:cacheprovider --timeout=900 --continue-on-collection-errors",
            "source_commits": hooks_commits,
            "add_only": True,
        },
        "engines": [{
            "name": "pbt-runner", "path": "run.py",
            "serves_properties": [c["property_id"] for c in checks],
            "kind_free_text": "Hypothesis 6.168 + bounded-exhaustive enumerators + deterministic thread scheduler, over a fake socket layer and a memcached text-protocol model; imports pymemcache from /repo's working tree (VERIF_REPO overrides)",
        }],
        "checks": checks,
        "notes": "All checks: `run.py Cxx --tier quick|thorough`; VERIF_SEED selects the seed; exit 0 held / 1 VIOLATION / 2 harness error. See DESIGN.md.",
        "not_applicable": na,
    }
    with open(os.path.join(ROOT, "MANIFEST.json"), "w") as f:
        json.dump(m, f, indent=1)
    print("checks:", [c["property_id"] for c in checks])
    print("not_applicable:", [x["property_id"] for x in na])


if __name__ == "__main__":
    main()

#!/venv/bin/python
"""Coverage-guided tier for C03 (atheris / libFuzzer).

The fuzz input is decoded (FuzzedDataProvider) into (scenario kind, key, value bytes, cut list, EINTR flag); the
semantic oracle is C03's own `check` (segmented result == unsplit result == stored value).  On a violation the
case is written to the file given in C03_FUZZ_OUT and the process exits with status 77.

usage: fuzz_c03.py <out.json> <stats.json> -runs=N -seed=S [corpus dir]
"""
import json
import os
import sys

ROOT = os.path.dirname(os.path.dirname(os.path.abspath(__file__)))
sys.path.insert(0, os.environ.get("VERIF_REPO", "/repo"))
sys.path.insert(0, ROOT)
sys.path.insert(1, os.path.join(ROOT, ".deps"))
sys.dont_write_bytecode = True

import atheris  # noqa: E402

with atheris.instrument_imports(include=["pymemcache"]):
    import pymemcache.client.base  # noqa: F401,E402

from props import c03  # noqa: E402
from vlib.runner import Violation, to_json  # noqa: E402

OUT, STATS = sys.argv[1], sys.argv[2]
N = {"runs": 0, "nontrivial": 0}
KINDS = ["get", "gets", "get_many", "raw-crlf-end", "raw-tail", "gats", "stats"]


def decode(data):
    fdp = atheris.FuzzedDataProvider(data)
    kind = KINDS[fdp.ConsumeIntInRange(0, len(KINDS) - 1)]
    nk = fdp.ConsumeIntInRange(1, 12)
    key = "".join(chr(0x21 + (b % 0x5E)) for b in fdp.ConsumeBytes(nk)) or "k"
    big = fdp.ConsumeIntInRange(0, 9) == 0
    vlen = fdp.ConsumeIntInRange(4080, 4110) if big else fdp.ConsumeIntInRange(0, 40)
    raw = fdp.ConsumeBytes(min(vlen, 48))
    value = (raw * (vlen // max(1, len(raw)) + 1))[:vlen] if raw else b"\r" * vlen
    ncuts = fdp.ConsumeIntInRange(0, 10)
    cuts = [fdp.ConsumeIntInRange(1, 4300 if big else 120) for _ in range(ncuts)]
    tail = [fdp.ConsumeIntInRange(1, 24) for _ in range(fdp.ConsumeIntInRange(0, 4))]
    eintr = fdp.ConsumeBool()
    store = [[key.encode(), value, 0]]
    if kind == "get":
        scn = c03.S({"op": "get", "key": key}, store, expect=value)
    elif kind == "gets":
        scn = c03.S({"op": "gets", "key": key}, store, expect=(value, b"1"))
    elif kind == "gats":
        scn = c03.S({"op": "gats", "key": key, "expire": 5}, store, expect=(value, b"1"))
    elif kind == "get_many":
        scn = c03.S({"op": "get_many", "keys": [key, key + "~"]}, store + [[(key + "~").encode(), value[::-1], 0]],
                    expect={key: value, key + "~": value[::-1]})
    elif kind == "stats":
        scn = c03.S({"op": "stats"}, [])
    elif kind == "raw-crlf-end":
        scn = c03.S({"op": "raw_command", "command": b"get " + key.encode(), "end": b"\r\nEND\r\n"}, store)
    else:
        scn = c03.S({"op": "raw_command", "command": b"get " + key.encode(), "end": (value[:3] or b"Z") + b"\r\nEND\r\n"}, store)
    return c03._resolve_tail({"scn": scn, "cuts": cuts, "tail": tail, "eintr": eintr})


def one(data):
    case = decode(data)
    N["runs"] += 1
    if N["runs"] % 500 == 0:
        _stats()          # libFuzzer leaves through _exit: no atexit, so keep the numbers current
    try:
        nontrivial, _ = c03.check(case)
        N["nontrivial"] += bool(nontrivial)
    except Violation as v:
        with open(OUT, "w") as f:
            json.dump({"case": to_json(case), "signature": v.signature, "message": v.message}, f)
        _stats()
        os._exit(77)


def _stats():
    with open(STATS, "w") as f:
        json.dump(N, f)


atheris.Setup([sys.argv[0]] + sys.argv[3:], one)
atheris.Fuzz()

#!/usr/bin/env python3
"""Append an entry to known_findings.json (never used at run time) and optionally save a regression case.
usage: tools/kf.py fixed|known <Dn> <Cxx> <commit|-> '<signature json>' '<what>' [replay-file-to-keep]"""
import json, os, shutil, sys
ROOT = os.path.dirname(os.path.dirname(os.path.abspath(__file__)))
status, did, prop, commit, sig, what = sys.argv[1:7]
p = os.path.join(ROOT, "known_findings.json")
L = json.load(open(p)) if os.path.exists(p) else []
e = {"id": did, "property": prop, "status": status, "signature": json.loads(sig), "what": what}
if status == "fixed":
    e["commit"] = commit
    e["line"] = "fixed: property=%s %s %s" % (prop, commit, what)
L = [x for x in L if not (x["id"] == did and x["property"] == prop)] + [e]
json.dump(L, open(p, "w"), indent=1)
if len(sys.argv) > 7:
    d = os.path.join(ROOT, "regress", prop); os.makedirs(d, exist_ok=True)
    shutil.copy(sys.argv[7], os.path.join(d, "%s-%s.json" % (status, did)))
print(e)

#!/usr/bin/env python3
"""Sensitivity corpus runner.

mutants/mutants.json: list of {id, property, file, old, new, what[, tests]}.
For each selected mutant: copy /repo/pymemcache to a scratch directory outside
/repo and /verif, apply the textual replacement (must match exactly once unless
"count" is given), optionally run the repo's unit tests against the copy (a mutant
the suite kills is uninformative), run the property's quick check with VERIF_REPO
pointing at the copy, expect exit 1 + VIOLATION line, remove the copy.

usage: tools/mutants.py [--prop Cxx] [--id ID] [--suite] [--tier quick]
"""
import argparse, json, os, shutil, subprocess, sys, tempfile, time
ROOT = os.path.dirname(os.path.dirname(os.path.abspath(__file__)))
PY = "/venv/bin/python"

def main():
    ap = argparse.ArgumentParser()
    ap.add_argument("--prop"); ap.add_argument("--id"); ap.add_argument("--suite", action="store_true")
    ap.add_argument("--tier", default="quick"); ap.add_argument("--repo", default=os.environ.get("VERIF_REPO", "/repo"))
    a = ap.parse_args()
    muts = json.load(open(os.path.join(ROOT, "mutants", "mutants.json")))
    rows = []
    for m in muts:
        if a.prop and m["property"] != a.prop: continue
        if a.id and m["id"] != a.id: continue
        d = tempfile.mkdtemp(prefix="mut-", dir="/tmp")
        try:
            shutil.copytree(os.path.join(a.repo, "pymemcache"), os.path.join(d, "pymemcache"),
                            ignore=shutil.ignore_patterns("__pycache__"))
            for f in ("setup.cfg", "setup.py", "pyproject.toml"):
                if os.path.exists(os.path.join(a.repo, f)): shutil.copy(os.path.join(a.repo, f), d)
            edits = m.get("edits") or [m]
            ok = True
            for e in edits:
                path = os.path.join(d, e["file"]); src = open(path).read()
                n = src.count(e["old"])
                if n != e.get("count", 1):
                    rows.append((m["id"], m["property"], "PATCH-MISMATCH(%d)" % n, 0)); ok = False; break
                open(path, "w").write(src.replace(e["old"], e["new"]))
            if not ok: continue
            suite = ""
            if a.suite:
                r = subprocess.run([PY, "-m", "pytest", "-q", "-x", "-p", "no:cacheprovider", "pymemcache/test"],
                                   cwd=d, env=dict(os.environ, PYTHONPATH=d), capture_output=True, text=True)
                suite = "suite-pass" if r.returncode == 0 else "SUITE-KILLS"
            t = time.time()
            r = subprocess.run([PY, os.path.join(ROOT, "run.py"), m["property"], "--tier", a.tier],
                               env=dict(os.environ, VERIF_REPO=d), capture_output=True, text=True, cwd=ROOT)
            viol = [l for l in r.stdout.splitlines() if l.startswith("VIOLATION")]
            status = "caught" if (r.returncode == 1 and viol) else ("HARNESS-ERROR" if r.returncode == 2 else "MISSED")
            first = ""
            if viol:
                i = r.stdout.splitlines().index(viol[0]); first = r.stdout.splitlines()[i-1].strip()[:150] if i else ""
            if status == "HARNESS-ERROR": first = (r.stdout + r.stderr)[-300:]
            rows.append((m["id"], m["property"], status + (" " + suite if suite else ""), round(time.time() - t, 1), first))
            print(*rows[-1], sep=" | ", flush=True)
        finally:
            shutil.rmtree(d, ignore_errors=True)
    bad = [r for r in rows if not r[2].startswith("caught")]
    print("%d mutants, %d not caught" % (len(rows), len(bad)))
    # leave the evidence of the unchanged tree untouched? no: evidence is rewritten by every run; re-run checks afterwards.
    return 1 if bad else 0
if __name__ == "__main__":
    sys.exit(main())

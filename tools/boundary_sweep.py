#!/usr/bin/env python3
"""Systematic boundary-operator sweep (round eighteen).

Every ordering comparison in the library (`>`, `>=`, `<`, `<=`; tests excluded) is flipped to its
neighbour (`>` <-> `>=`, `<` <-> `<=`), one at a time, in a scratch copy of the package; the pinned
suite and the quick tier of the checks that the file maps to are run against the copy.  The table
goes to mutants/BOUNDARY.md.  A flip that no listed property speaks about (option validation of
keepalive values, `max_size < 0`, ...) is expected to be MISSED and is marked `outside` in the table
by the hand-kept EXPECT dict below - the point of the sweep is that nothing *inside* a property's
statement is missed.

usage: tools/boundary_sweep.py [--only FILE:LINE] [--no-suite]
"""
import ast, glob, json, os, shutil, subprocess, sys, tempfile, time
ROOT = os.path.dirname(os.path.dirname(os.path.abspath(__file__)))
PY = "/venv/bin/python"
REPO = os.environ.get("VERIF_REPO", "/repo")
FLIP = {ast.Gt: ">=", ast.GtE: ">", ast.Lt: "<=", ast.LtE: "<"}
SYM = {ast.Gt: ">", ast.GtE: ">=", ast.Lt: "<", ast.LtE: "<="}
PROPS = {
    "pymemcache/client/base.py": ["C20", "C03", "C05", "C06"],
    "pymemcache/client/hash.py": ["C13", "C07"],
    "pymemcache/client/rendezvous.py": ["C11"],
    "pymemcache/client/retrying.py": ["C17"],
    "pymemcache/client/murmur3.py": ["C14"],
    "pymemcache/client/ext/aws_ec_client.py": ["C19"],
    "pymemcache/fallback.py": ["C18"],
    "pymemcache/pool.py": ["C09", "C08"],
    "pymemcache/serde.py": ["C15"],
}
# flips whose behaviour no listed property describes (reason given); everything else must be caught
OUTSIDE = {
    "idle < 1": "keepalive option validation (no property)",
    "intvl < 1": "keepalive option validation (no property)",
    "cnt < 1": "keepalive option validation (no property)",
    "max_size < 0": "pool option validation (no property)",
    "len(caches) > 0": "FallbackClient with one cache instead of none: construction-time assertion only",
    "len(key_value) > 2": "a STAT line without a value (no property says what stats returns for it; the pinned suite kills the flip)",
    "len(old_value) < len(value)": "compressed form exactly as long as the plain one: either may be stored (C15 forbids only a larger form)",
}
# per (expression, operator index): the first comparison of the chain in serde.py decides whether a value whose length is
# exactly min_compress_len is compressed - C15 quantifies over thresholds but gives the threshold no meaning at equality
OUTSIDE_AT = {("len(value) > self._min_compress_len > 0", 0): "a value exactly min_compress_len long: C15 does not say on which side of the threshold it falls"}

def sites():
    out = []
    for f in sorted(glob.glob(os.path.join(REPO, "pymemcache", "**", "*.py"), recursive=True)):
        rel = os.path.relpath(f, REPO)
        if "/test" in rel: continue
        src = open(f).read(); lines = src.splitlines(keepends=True)
        for node in ast.walk(ast.parse(src)):
            if not isinstance(node, ast.Compare): continue
            operands = [node.left] + node.comparators
            for i, op in enumerate(node.ops):
                if type(op) not in FLIP: continue
                l, r = operands[i], operands[i + 1]
                # the operator text lies between the end of l and the start of r
                assert l.end_lineno == r.lineno, (rel, node.lineno)
                line = lines[l.end_lineno - 1]
                # col offsets are in utf-8 bytes; the library's comparison lines are ascii
                between = line[l.end_col_offset:r.col_offset]
                assert between.strip() == SYM[type(op)], (rel, node.lineno, between)
                new_line = line[:l.end_col_offset] + between.replace(SYM[type(op)], FLIP[type(op)]) + line[r.col_offset:]
                out.append(dict(file=rel, line=l.end_lineno, expr=ast.get_source_segment(src, node).replace("\n", " "),
                                op=SYM[type(op)], to=FLIP[type(op)], idx=i, new_line=new_line))
    return out

def main():
    only = sys.argv[sys.argv.index("--only") + 1] if "--only" in sys.argv else None
    rows = []
    for s in sites():
        tag = "%s:%d" % (s["file"], s["line"])
        if only and only != tag: continue
        d = tempfile.mkdtemp(prefix="bnd-", dir="/tmp")
        try:
            shutil.copytree(os.path.join(REPO, "pymemcache"), os.path.join(d, "pymemcache"), ignore=shutil.ignore_patterns("__pycache__"))
            for f in ("setup.cfg", "setup.py", "pyproject.toml"):
                if os.path.exists(os.path.join(REPO, f)): shutil.copy(os.path.join(REPO, f), d)
            p = os.path.join(d, s["file"]); ls = open(p).read().splitlines(keepends=True)
            ls[s["line"] - 1] = s["new_line"]; open(p, "w").write("".join(ls))
            suite = "-"
            if "--no-suite" not in sys.argv:
                r = subprocess.run([PY, "-m", "pytest", "-q", "-x", "-p", "no:cacheprovider", "pymemcache/test"], cwd=d,
                                   env=dict(os.environ, PYTHONPATH=d), capture_output=True, text=True)
                suite = "passes" if r.returncode == 0 else "kills"
            caught, first, wall = [], "", 0.0
            for prop in PROPS.get(s["file"], []):
                t = time.time()
                r = subprocess.run([PY, os.path.join(ROOT, "run.py"), prop, "--tier", "quick"], env=dict(os.environ, VERIF_REPO=d),
                                   capture_output=True, text=True, cwd=ROOT)
                wall += time.time() - t
                out = r.stdout.splitlines(); v = [i for i, l in enumerate(out) if l.startswith("VIOLATION")]
                if r.returncode == 1 and v:
                    caught.append(prop)
                    if not first and v[0]: first = out[v[0] - 1].strip()[:160]
                    break
                if r.returncode == 2:
                    first = "HARNESS-ERROR " + (r.stdout + r.stderr)[-200:]; break
            key = next((k for k in OUTSIDE if k in s["expr"]), None)
            why = OUTSIDE_AT.get((s["expr"], s["idx"])) or (OUTSIDE[key] if key else None)
            status = "caught by " + ",".join(caught) if caught else ("outside: " + why if why else "MISSED")
            rows.append((tag, "`%s`  (%s -> %s, operator %d)" % (s["expr"][:80], s["op"], s["to"], s["idx"]), suite, status, first))
            print(" | ".join(map(str, rows[-1])), "| %.0fs" % wall, flush=True)
        finally:
            shutil.rmtree(d, ignore_errors=True)
    if not only:
        with open(os.path.join(ROOT, "mutants", "BOUNDARY.md"), "w") as f:
            f.write("# Boundary-operator sweep\n\nEvery ordering comparison of the library flipped to its neighbour, one at a time "
                    "(`tools/boundary_sweep.py`); quick tier of the checks the file maps to.\n\n"
                    "| site | comparison | pinned suite | quick tier | first violation |\n|---|---|---|---|---|\n")
            for r in rows: f.write("| " + " | ".join(str(x).replace("|", "\\|") for x in r) + " |\n")
            f.write("\n%d flips, %d caught, %d outside every property, %d missed\n" % (
                len(rows), sum(r[3].startswith("caught") for r in rows), sum(r[3].startswith("outside") for r in rows),
                sum(r[3] == "MISSED" for r in rows)))
    return 1 if any(r[3] == "MISSED" for r in rows) else 0

if __name__ == "__main__":
    sys.exit(main())

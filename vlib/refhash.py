"""Independent reference: MurmurHash3_x86_32 over bytes (written the C way) and
the published rendezvous rule.  Validated against published vectors at start-up;
optionally cross-checked against Appleby's C routine compiled through cc."""
import ctypes
import os
import struct
import subprocess

M = 0xFFFFFFFF


def _rotl(x, r):
    return ((x << r) | (x >> (32 - r))) & M


def murmur3(data: bytes, seed: int = 0) -> int:
    h = seed & M
    n = len(data)
    nblocks = n // 4
    for i in range(nblocks):
        (k,) = struct.unpack_from("<I", data, 4 * i)
        k = (k * 0xCC9E2D51) & M
        k = _rotl(k, 15)
        k = (k * 0x1B873593) & M
        h ^= k
        h = _rotl(h, 13)
        h = (h * 5 + 0xE6546B64) & M
    tail = data[4 * nblocks:]
    k = 0
    if len(tail) >= 3:
        k ^= tail[2] << 16
    if len(tail) >= 2:
        k ^= tail[1] << 8
    if len(tail) >= 1:
        k ^= tail[0]
        k = (k * 0xCC9E2D51) & M
        k = _rotl(k, 15)
        k = (k * 0x1B873593) & M
        h ^= k
    h ^= n
    h ^= h >> 16
    h = (h * 0x85EBCA6B) & M
    h ^= h >> 13
    h = (h * 0xC2B2AE35) & M
    h ^= h >> 16
    return h


def _inv_fmix(h):
    """inverse of the finalisation mix (each step is a bijection of 32-bit words)"""
    h ^= h >> 16
    h = (h * pow(0xC2B2AE35, -1, 1 << 32)) & M
    h ^= (h >> 13) ^ (h >> 26)
    h = (h * pow(0x85EBCA6B, -1, 1 << 32)) & M
    h ^= h >> 16
    return h


def _scramble(k):
    k = (k * 0xCC9E2D51) & M
    k = _rotl(k, 15)
    return (k * 0x1B873593) & M


def preimage_middle(prefix: bytes, suffix: bytes, target: int, seed: int = 0, tries=400000):
    """-> a printable byte string X (letters and digits) such that murmur3(prefix + X + suffix, seed) == target: the block in front
    of `suffix` is solved for after the rounds of the suffix have been undone from the target (every round is a bijection of the
    32-bit state for a given block)."""
    ok = set(range(0x30, 0x3A)) | set(range(0x41, 0x5B)) | set(range(0x61, 0x7B))
    inv5, invc1, invc2 = pow(5, -1, 1 << 32), pow(0xCC9E2D51, -1, 1 << 32), pow(0x1B873593, -1, 1 << 32)
    pad0 = b"a" * ((-len(prefix)) % 4)
    alphabet = b"abcdefghijklmnopqrstuvwxyz0123456789"
    nb = len(suffix) // 4
    tail = suffix[4 * nb:]
    kt = 0
    for i, b in enumerate(tail):
        kt |= b << (8 * i)
    kt = _scramble(kt) if tail else 0
    for t in range(tries):
        filler, x = b"", t
        for _ in range(4):
            filler += alphabet[x % 36:x % 36 + 1]
            x //= 36
        head = prefix + pad0 + filler
        n = len(head) + 4 + len(suffix)
        h = seed & M
        for i in range(len(head) // 4):
            (k,) = struct.unpack_from("<I", head, 4 * i)
            h ^= _scramble(k)
            h = _rotl(h, 13)
            h = (h * 5 + 0xE6546B64) & M
        w = _inv_fmix(target) ^ n
        w ^= kt
        for i in reversed(range(nb)):
            (k,) = struct.unpack_from("<I", suffix, 4 * i)
            w = _rotl(((w - 0xE6546B64) * inv5) & M, 32 - 13) ^ _scramble(k)
        x = _rotl(((w - 0xE6546B64) * inv5) & M, 32 - 13)
        k = x ^ h
        k = (k * invc2) & M
        k = _rotl(k, 32 - 15)
        k = (k * invc1) & M
        last = struct.pack("<I", k)
        if all(b in ok for b in last):
            out = pad0 + filler + last
            assert murmur3(prefix + out + suffix, seed) == target
            return out
    return None


def tie_node(node: str, key: str, stem: str = "tie", seed: int = 0) -> str:
    """-> another node name (stem + letters and digits) whose rendezvous score for `key` equals that of `node` exactly: a genuine
    32-bit collision of the built-in hash, computed separately for each node - the tie the published rule breaks by name"""
    target = murmur3(("%s-%s" % (node, key)).encode("latin-1"), seed)
    x = preimage_middle(stem.encode("latin-1"), ("-%s" % key).encode("latin-1"), target, seed)
    return stem + x.decode("latin-1")


def preimage_suffix(prefix: bytes, target: int, seed: int = 0, printable=True, tries=200000):
    """-> a byte string S (pad + 4 bytes, printable ASCII without blanks when asked) such that murmur3(prefix + S, seed) == target.
    The last full block of the input is solved for: every step of the hash is a bijection of the 32-bit state."""
    ok = set(range(0x30, 0x3A)) | set(range(0x41, 0x5B)) | set(range(0x61, 0x7B)) if printable else set(range(256)) - {0, 9, 10, 11, 12, 13, 32}
    inv5, invc1, invc2 = pow(5, -1, 1 << 32), pow(0xCC9E2D51, -1, 1 << 32), pow(0x1B873593, -1, 1 << 32)
    pad0 = b"a" * ((-len(prefix)) % 4)
    alphabet = b"abcdefghijklmnopqrstuvwxyz0123456789"
    for t in range(tries):
        filler, x = b"", t
        for _ in range(4):
            filler += alphabet[x % 36:x % 36 + 1]
            x //= 36
        head = prefix + pad0 + filler
        n = len(head) + 4
        # state after the blocks of head
        h = seed & M
        for i in range(len(head) // 4):
            (k,) = struct.unpack_from("<I", head, 4 * i)
            k = (k * 0xCC9E2D51) & M
            k = _rotl(k, 15)
            k = (k * 0x1B873593) & M
            h ^= k
            h = _rotl(h, 13)
            h = (h * 5 + 0xE6546B64) & M
        want_h = _inv_fmix(target) ^ n                       # state needed after the last block
        x = ((want_h - 0xE6546B64) * inv5) & M
        x = _rotl(x, 32 - 13)                                # undo the rotation
        k = x ^ h
        k = (k * invc2) & M
        k = _rotl(k, 32 - 15)
        k = (k * invc1) & M
        last = struct.pack("<I", k)
        if all(b in ok for b in last):
            out = pad0 + filler + last
            assert murmur3(prefix + out, seed) == target
            return out
    return None


VECTORS = [
    (b"", 0, 0x00000000),
    (b"", 1, 0x514E28B7),
    (b"", 0xFFFFFFFF, 0x81F16F39),
    (b"\xff\xff\xff\xff", 0, 0x76293B50),
    (b"\x21\x43\x65\x87", 0, 0xF55B516B),
    (b"\x21\x43\x65\x87", 0x5082EDEE, 0x2362F9DE),
    (b"\x21\x43\x65", 0, 0x7E4A8634),
    (b"\x21\x43", 0, 0xA0F7B07A),
    (b"\x21", 0, 0x72661CF4),
    (b"\x00\x00\x00\x00", 0, 0x2362F9DE),
    (b"\x00\x00\x00", 0, 0x85F0B427),
    (b"\x00\x00", 0, 0x30F4C306),
    (b"\x00", 0, 0x514E28B7),
    (b"aaaa", 0x9747B28C, 0x5A97808A),
    (b"aaa", 0x9747B28C, 0x283E0130),
    (b"aa", 0x9747B28C, 0x5D211726),
    (b"a", 0x9747B28C, 0x7FA09EA6),
    (b"abcd", 0x9747B28C, 0xF0478627),
    (b"abc", 0x9747B28C, 0xC84A62DD),
    (b"ab", 0x9747B28C, 0x74875592),
    (b"Hello, world!", 0x9747B28C, 0x24884CBA),
    (b"Hello, world!", 1234, 0xFAF6CDB3),
    (b"The quick brown fox jumps over the lazy dog", 0x9747B28C, 0x2FA826CD),
    (b"a" * 256, 0x9747B28C, 0x37405BDC),
]


def selftest():
    for data, seed, want in VECTORS:
        got = murmur3(data, seed)
        if got != want:
            raise AssertionError("reference murmur3 disagrees with published vector %r seed %#x: %#x != %#x"
                                 % (data, seed, got, want))


C_SRC = r"""
#include <stdint.h>
static inline uint32_t rotl32(uint32_t x, int8_t r){ return (x << r) | (x >> (32 - r)); }
static inline uint32_t fmix32(uint32_t h){ h ^= h >> 16; h *= 0x85ebca6b; h ^= h >> 13; h *= 0xc2b2ae35; h ^= h >> 16; return h; }
uint32_t MurmurHash3_x86_32(const void *key, int len, uint32_t seed){
  const uint8_t *data = (const uint8_t*)key; const int nblocks = len / 4;
  uint32_t h1 = seed; const uint32_t c1 = 0xcc9e2d51; const uint32_t c2 = 0x1b873593;
  const uint8_t *bl = data;
  for(int i = 0; i < nblocks; i++){
    uint32_t k1 = (uint32_t)bl[4*i] | ((uint32_t)bl[4*i+1] << 8) | ((uint32_t)bl[4*i+2] << 16) | ((uint32_t)bl[4*i+3] << 24);
    k1 *= c1; k1 = rotl32(k1,15); k1 *= c2; h1 ^= k1; h1 = rotl32(h1,13); h1 = h1*5+0xe6546b64; }
  const uint8_t *tail = (const uint8_t*)(data + nblocks*4); uint32_t k1 = 0;
  switch(len & 3){ case 3: k1 ^= tail[2] << 16; case 2: k1 ^= tail[1] << 8;
    case 1: k1 ^= tail[0]; k1 *= c1; k1 = rotl32(k1,15); k1 *= c2; h1 ^= k1; };
  h1 ^= len; return fmix32(h1);
}
"""

_clib = None


def c_reference():
    """Returns f(bytes, seed)->int backed by compiled C, or None when no compiler."""
    global _clib
    if _clib is not None:
        return _clib or None
    build = os.path.join(os.path.dirname(os.path.dirname(os.path.abspath(__file__))), ".build")
    so = os.path.join(build, "murmur3_ref.so")
    try:
        if not os.path.exists(so):
            os.makedirs(build, exist_ok=True)
            src = os.path.join(build, "murmur3_ref.%d.c" % os.getpid())
            tmp = so + ".%d" % os.getpid()
            with open(src, "w") as f:
                f.write(C_SRC)
            subprocess.run(["cc", "-O2", "-shared", "-fPIC", "-o", tmp, src], check=True,
                           stdout=subprocess.DEVNULL, stderr=subprocess.DEVNULL)
            os.replace(tmp, so)
            os.unlink(src)
        lib = ctypes.CDLL(so)
        lib.MurmurHash3_x86_32.restype = ctypes.c_uint32
        lib.MurmurHash3_x86_32.argtypes = [ctypes.c_char_p, ctypes.c_int, ctypes.c_uint32]

        def f(data, seed=0):
            return lib.MurmurHash3_x86_32(data, len(data), seed & M)
        for data, seed, want in VECTORS:
            if f(data, seed) != want:
                raise AssertionError("C reference disagrees with vector")
        _clib = f
    except Exception:
        _clib = False
    return _clib or None


def latin1(s: str):
    """bytes(map(ord, s)) when every code point is <= 255, else None."""
    try:
        return s.encode("latin-1")
    except UnicodeEncodeError:
        return None


def place(nodes, key, hash_bytes=murmur3, seed=0):
    """Published rendezvous rule: highest murmur3('<node>-<key>'), ties to the
    greatest node name.  Defined for strings within code points 0..255."""
    best = None
    for n in nodes:
        b = latin1("%s-%s" % (n, key))
        if b is None:
            return None
        sc = (hash_bytes(b, seed), str(n))
        if best is None or sc > best[0]:
            best = (sc, n)
    return None if best is None else best[1]

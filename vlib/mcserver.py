"""A memcached text-protocol server model and strict request parser.

Written from the memcached 1.6 protocol description and proto_text.c tokeniser
semantics, independently of pymemcache:

* a command line ends at the first LF (a directly preceding CR is dropped);
  tokens are separated by single spaces, empty tokens are skipped; a NUL ends
  the line (C string semantics) and is logged as a parse error;
* key <= 250 bytes; flags unsigned 32-bit decimal; exptime signed decimal; length
  non-negative decimal; cas/delta unsigned 64-bit decimals; `noreply` only as the
  literal last token;
* the data block is exactly <length> bytes followed by CR LF, else
  `CLIENT_ERROR bad data chunk` (the <length>+2 bytes are consumed all the same
  and parsing resumes right after them - this is how injected data would become
  a command);
* every parsed command is appended to `server.log` as a dict; every malformed
  line to `server.errors`.

Time is a virtual integer clock shared with the case (`Clock`).
"""
from __future__ import annotations

ITEM_MAX = 1024 * 1024
KEY_MAX = 250
U64 = 2 ** 64
REL_MAX = 60 * 60 * 24 * 30
STORE_VERBS = (b"set", b"add", b"replace", b"append", b"prepend", b"cas")


class Clock:
    def __init__(self, now=1_700_000_000):
        self.now = now

    def time(self):
        return float(self.now)

    def advance(self, d):
        self.now += d


class Item:
    __slots__ = ("value", "flags", "exp", "cas", "stored_at")

    def __init__(self, value, flags, exp, cas, stored_at):
        self.value, self.flags, self.exp, self.cas, self.stored_at = value, flags, exp, cas, stored_at


def _udec(tok, bits):
    """strict unsigned decimal (memcached's safe_strtoul/ull on a bare token)."""
    if not tok or not tok.isdigit() or len(tok) > 20:
        return None
    v = int(tok)
    return v if v < 2 ** bits else None


def _sdec(tok, bits=64):
    body = tok[1:] if tok[:1] in (b"-", b"+") else tok
    if not body or not body.isdigit() or len(body) > 20:
        return None
    v = int(tok)
    return v if -(2 ** (bits - 1)) <= v < 2 ** (bits - 1) else None


class McServer:
    # `down`: None, or how the server fails for the network (vlib/fakenet.py). A server process that is gone (refused, reset,
    # unreachable) has lost its connections: `epoch` counts such outages, and a connection made in an earlier epoch is dead
    # even when the server is back (what a restart does to the connections a client still holds)
    epoch = 0

    @property
    def down(self):
        return self.__dict__.get("_down")

    @down.setter
    def down(self, v):
        if v in ("refused", "reset", "oserror") and self.__dict__.get("_down") != v:
            self.epoch += 1
        self.__dict__["_down"] = v

    def __init__(self, clock=None, name="mc", version=b"1.6.21", shutdown_enabled=False):
        self.clock = clock or Clock()
        self.name = name
        self.version = version
        self.shutdown_enabled = shutdown_enabled
        # keys whose stores the server refuses although they are well-formed: key -> "too-large" (the server's own item
        # size limit is lower than the client thinks), "oom", "not-stored"
        self.refuse = {}
        self.dialect = set()        # names of reply dialects in force (see _get, _cmd_version, _cmd_stats)
        self.refuse_cas = True
        self.store = {}
        self.cas_counter = 0
        self.flush_at = None          # items stored before this instant die once it is reached
        self.log = []                 # parsed commands, in arrival order
        self.errors = []              # malformed request lines / data blocks
        self.conns = []
        self.cluster_config = None    # bytes payload for "config get cluster"
        self.cluster_error = None     # reply line instead (e.g. b"ERROR")
        self.stats_lines = [(b"pid", b"42"), (b"uptime", b"1000"), (b"version", version),
                             (b"rusage_user", b"0.50"), (b"curr_items", b"0"), (b"threads", b"4"),
                             (b"hash_is_expanding", b"0"), (b"evictions", b"0")]
        self.shutdown_requested = False

    # -- store ------------------------------------------------------------

    def _abs_exp(self, exptime):
        if exptime == 0:
            return 0
        if exptime < 0:
            return -1                       # immediately expired
        if exptime <= REL_MAX:
            return self.clock.now + exptime
        return exptime                      # absolute unix time

    def _live(self, key):
        it = self.store.get(key)
        if it is None:
            return None
        now = self.clock.now
        if it.exp == -1 or (it.exp > 0 and it.exp <= now):
            del self.store[key]
            return None
        if self.flush_at is not None and now >= self.flush_at and it.stored_at < self.flush_at:
            del self.store[key]
            return None
        return it

    def _next_cas(self):
        self.cas_counter += 1
        return self.cas_counter

    def live_items(self):
        return {k: self._live(k) for k in list(self.store) if self._live(k) is not None}

    def connect(self):
        c = McConn(self)
        self.conns.append(c)
        return c


class McConn:
    """One client connection: owns the parse buffer."""

    def __init__(self, server):
        self.s = server
        self.pending = b""
        self.swallow = 0
        self.closed = False        # closed by the server (quit / shutdown)

    # returns list of reply byte strings, one per command that answers
    def feed(self, data, max_commands=None):
        if self.closed:
            return []
        self.pending += data
        replies = []
        done = 0
        while self.pending and not self.closed:
            if max_commands is not None and done >= max_commands:
                break
            if self.swallow:
                n = min(self.swallow, len(self.pending))
                self.pending = self.pending[n:]
                self.swallow -= n
                continue
            r = self._one()
            if r is False:
                break
            done += 1
            if r is not None:
                replies.append(r)
                if r.startswith((b"ERROR", b"CLIENT_ERROR", b"SERVER_ERROR")) and "hangup-after-error" in (getattr(self.s, "dialect", None) or ()):
                    # dialect: the server (a proxy; memcached itself for some errors) hangs up after it has sent an error line
                    self.closed = True
        return replies

    def _err(self, what, line):
        self.s.errors.append({"error": what, "line": bytes(line[:300])})

    def _one(self):
        """Parse one command from pending. False = need more bytes; None = no reply; bytes = reply."""
        buf = self.pending
        i = buf.find(b"\n")
        if i < 0:
            if len(buf) > 8192:
                self._err("line too long", buf)
                self.pending = b""
                return b"CLIENT_ERROR line too long\r\n"
            return False
        line = buf[:i]
        rest = buf[i + 1:]
        if line.endswith(b"\r"):
            line = line[:-1]
        if b"\0" in line:
            self._err("NUL in command line", line)
            line = line.split(b"\0")[0]
        toks = [t for t in line.split(b" ") if t]
        if not toks:
            self.pending = rest
            self._err("empty command line", line)
            return b"ERROR\r\n"
        verb = toks[0]
        if verb in STORE_VERBS:
            return self._store(verb, toks, line, rest)
        self.pending = rest
        h = getattr(self, "_cmd_" + verb.decode("latin-1"), None) if verb.isalpha() or b"_" in verb else None
        if h is None:
            self._err("unknown command", line)
            return b"ERROR\r\n"
        return h(toks, line)

    @staticmethod
    def _noreply(args, n_fixed):
        """`noreply` counts only as the literal last token after the fixed arguments."""
        if len(args) == n_fixed + 1 and args[-1] == b"noreply":
            return args[:-1], True
        return args, False

    # -- storage commands -------------------------------------------------

    def _store(self, verb, toks, line, rest):
        s = self.s
        nfix = 5 if verb == b"cas" else 4
        args, noreply = self._noreply(toks[1:], nfix)
        bad = None
        if len(args) != nfix:
            bad = "wrong number of tokens"
        else:
            key = args[0]
            flags = _udec(args[1], 32)
            exptime = _sdec(args[2])
            length = _sdec(args[3], 32)
            casid = _udec(args[4], 64) if verb == b"cas" else None
            if len(key) > KEY_MAX:
                bad = "key too long"
            elif flags is None or exptime is None or length is None or (verb == b"cas" and casid is None):
                bad = "bad number"
            elif length < 0:
                bad = "negative length"
        if bad:
            self.pending = rest
            self._err("bad %s line: %s" % (verb.decode(), bad), line)
            if bad == "wrong number of tokens":
                return None if noreply else b"ERROR\r\n"
            return None if noreply else b"CLIENT_ERROR bad command line format\r\n"
        mode = s.refuse.get(key) if verb != b"cas" or s.refuse_cas else None
        if verb == b"cas" and mode == "not-stored":
            mode = None            # NOT_STORED is no answer to cas
        if length > ITEM_MAX - len(key) - 80 or mode == "too-large":
            # too large: the data block is swallowed
            self.pending = rest
            self.swallow = length + 2
            s.log.append({"verb": verb, "key": key, "flags": flags, "exptime": exptime, "length": length,
                          "data": None, "cas": casid, "noreply": noreply, "too_large": True})
            # the swallowed bytes may already be here
            n = min(self.swallow, len(self.pending))
            self.pending = self.pending[n:]
            self.swallow -= n
            return None if noreply else b"SERVER_ERROR object too large for cache\r\n"
        if len(rest) < length + 2:
            return False                    # wait for the data block (line stays in pending)
        data = rest[:length]
        term = rest[length:length + 2]
        self.pending = rest[length + 2:]
        if term != b"\r\n":
            self._err("bad data chunk", line)
            return None if noreply else b"CLIENT_ERROR bad data chunk\r\n"
        s.log.append({"verb": verb, "key": key, "flags": flags, "exptime": exptime, "length": length,
                      "data": data, "cas": casid, "noreply": noreply})
        if mode == "oom":
            # memory exhausted with evictions disabled (-M): the item is read and refused
            return None if noreply else b"SERVER_ERROR out of memory storing object\r\n"
        if mode == "not-stored":
            # what a proxy in front of the cache (mcrouter) answers when it could not complete a store
            return None if noreply else b"NOT_STORED\r\n"
        res = self._apply_store(verb, key, flags, exptime, data, casid)
        return None if noreply else res + b"\r\n"

    def _apply_store(self, verb, key, flags, exptime, data, casid):
        s = self.s
        it = s._live(key)
        now = s.clock.now
        if verb == b"set":
            pass
        elif verb == b"add":
            if it is not None:
                return b"NOT_STORED"
        elif verb == b"replace":
            if it is None:
                return b"NOT_STORED"
        elif verb in (b"append", b"prepend"):
            if it is None:
                return b"NOT_STORED"
            new = it.value + data if verb == b"append" else data + it.value
            if len(new) > ITEM_MAX - len(key) - 80:
                return b"SERVER_ERROR object too large for cache"
            it.value = new
            it.cas = s._next_cas()
            it.stored_at = now
            return b"STORED"
        elif verb == b"cas":
            if it is None:
                return b"NOT_FOUND"
            if it.cas != casid:
                return b"EXISTS"
        s.store[key] = Item(data, flags, s._abs_exp(exptime), s._next_cas(), now)
        return b"STORED"

    # -- retrieval ----------------------------------------------------------

    def _get(self, toks, line, with_cas, touch):
        s = self.s
        verb = toks[0]
        args = toks[1:]
        exptime = None
        if touch:
            if len(args) < 2:
                self._err("bad %s line" % verb.decode(), line)
                return b"ERROR\r\n"
            exptime = _sdec(args[0])
            if exptime is None:
                self._err("bad exptime", line)
                return b"CLIENT_ERROR invalid exptime argument\r\n"
            args = args[1:]
        if not args:
            self._err("%s without keys" % verb.decode(), line)
            return b"ERROR\r\n"
        if any(len(k) > KEY_MAX for k in args):
            self._err("key too long", line)
            return b"CLIENT_ERROR bad command line format\r\n"
        s.log.append({"verb": verb, "keys": list(args), "exptime": exptime})
        out = []
        # dialects: what another version of the server, or a proxy in front of it, may legally send (s.dialect is a set of names)
        dia = getattr(s, "dialect", None) or ()
        order = list(args)
        if "reverse" in dia:
            order = order[::-1]                          # items in another order than the keys were asked for
        if "dedupe" in dia:
            order = list(dict.fromkeys(order))           # a key asked for twice is answered once
        if "cas-always" in dia:
            with_cas = True                              # the cas field is sent although it was not asked for
        for k in order:
            it = s._live(k)
            if it is None:
                continue
            if touch:
                it.exp = s._abs_exp(exptime)
                if it.exp == -1:
                    # still returned by this command; dead afterwards
                    pass
            head = b"VALUE " + k + b" %d %d" % (it.flags, len(it.value))
            if with_cas:
                head += b" %d" % it.cas
            if "value-trailing-blank" in dia:
                head += b" "
            if "value-double-blank" in dia:
                head = head.replace(b" ", b"  ")          # (keys contain no blanks)
            if "value-tab" in dia:
                head = head.replace(b" ", b"\t", 2).replace(b"\t", b" ", 1)     # a tab between key and flags
            out.append(head + b"\r\n" + it.value + b"\r\n")
        if "repeat-first" in dia and out:
            out.append(out[0])                           # the first item once more
        if "unasked" in dia:
            out.append(b"VALUE unasked-key 0 2\r\nuu\r\n")   # an item nobody asked for
        out.append(b"END\r\n")
        return b"".join(out)

    def _cmd_get(self, toks, line):
        return self._get(toks, line, False, False)

    def _cmd_gets(self, toks, line):
        return self._get(toks, line, True, False)

    def _cmd_gat(self, toks, line):
        return self._get(toks, line, False, True)

    def _cmd_gats(self, toks, line):
        return self._get(toks, line, True, True)

    # -- other key commands -------------------------------------------------

    def _cmd_delete(self, toks, line):
        s = self.s
        args = toks[1:]
        noreply = False
        if args and args[-1] == b"noreply" and len(args) in (2, 3):
            noreply = True
            args = args[:-1]
        if len(args) == 2 and args[1] == b"0":
            args = args[:1]
        if len(args) != 1 or len(args[0]) > KEY_MAX:
            self._err("bad delete line", line)
            return None if noreply else b"CLIENT_ERROR bad command line format.  Usage: delete <key> [noreply]\r\n"
        key = args[0]
        s.log.append({"verb": b"delete", "key": key, "noreply": noreply})
        if s._live(key) is not None:
            del s.store[key]
            r = b"DELETED\r\n"
        else:
            r = b"NOT_FOUND\r\n"
        return None if noreply else r

    def _arith(self, toks, line, sign):
        s = self.s
        verb = toks[0]
        args, noreply = self._noreply(toks[1:], 2)
        if len(args) != 2 or len(args[0]) > KEY_MAX:
            self._err("bad %s line" % verb.decode(), line)
            return None if noreply else (b"ERROR\r\n" if len(args) < 2 else b"CLIENT_ERROR bad command line format\r\n")
        delta = _udec(args[1], 64)
        if delta is None:
            self._err("bad delta", line)
            return None if noreply else b"CLIENT_ERROR invalid numeric delta argument\r\n"
        key = args[0]
        s.log.append({"verb": verb, "key": key, "delta": delta, "noreply": noreply})
        it = s._live(key)
        if it is None:
            return None if noreply else b"NOT_FOUND\r\n"
        txt = it.value.rstrip(b" ")
        if not txt or not txt.isdigit() or len(txt) > 20 or int(txt) >= U64 or len(it.value) == 0:
            return None if noreply else b"CLIENT_ERROR cannot increment or decrement non-numeric value\r\n"
        cur = int(txt)
        if sign > 0:
            new = (cur + delta) % U64
        else:
            new = cur - delta if delta < cur else 0
        rendered = b"%d" % new
        if len(rendered) < len(it.value):
            rendered_stored = rendered + b" " * (len(it.value) - len(rendered))   # in-place, space padded
        else:
            rendered_stored = rendered
        it.value = rendered_stored
        it.cas = s._next_cas()
        return None if noreply else rendered + b"\r\n"

    def _cmd_incr(self, toks, line):
        return self._arith(toks, line, +1)

    def _cmd_decr(self, toks, line):
        return self._arith(toks, line, -1)

    def _cmd_touch(self, toks, line):
        s = self.s
        args, noreply = self._noreply(toks[1:], 2)
        if len(args) != 2 or len(args[0]) > KEY_MAX:
            self._err("bad touch line", line)
            return None if noreply else (b"ERROR\r\n" if len(args) < 2 else b"CLIENT_ERROR bad command line format\r\n")
        exptime = _sdec(args[1])
        if exptime is None:
            self._err("bad exptime", line)
            return None if noreply else b"CLIENT_ERROR invalid exptime argument\r\n"
        key = args[0]
        s.log.append({"verb": b"touch", "key": key, "exptime": exptime, "noreply": noreply})
        it = s._live(key)
        if it is None:
            return None if noreply else b"NOT_FOUND\r\n"
        it.exp = s._abs_exp(exptime)
        return None if noreply else b"TOUCHED\r\n"

    # -- administrative -----------------------------------------------------

    def _cmd_flush_all(self, toks, line):
        s = self.s
        args = toks[1:]
        noreply = False
        if args and args[-1] == b"noreply":
            noreply = True
            args = args[:-1]
        delay = 0
        if len(args) > 1:
            self._err("bad flush_all line", line)
            return None if noreply else b"ERROR\r\n"
        if args:
            delay = _sdec(args[0])
            if delay is None:
                self._err("bad flush_all delay", line)
                return None if noreply else b"CLIENT_ERROR bad command line format\r\n"
        s.log.append({"verb": b"flush_all", "delay": delay, "noreply": noreply})
        if delay <= 0:
            s.store.clear()
            s.flush_at = None
        else:
            s.flush_at = s.clock.now + delay
        return None if noreply else b"OK\r\n"

    def _cmd_version(self, toks, line):
        if len(toks) != 1:
            self._err("bad version line", line)
            return b"ERROR\r\n"
        self.s.log.append({"verb": b"version"})
        dia = getattr(self.s, "dialect", None) or ()
        if "version-empty" in dia:
            return b"VERSION \r\n"
        if "version-long" in dia:
            return b"VERSION 1.6.21 (proxy 0.9; build " + b"x" * 5000 + b")\r\n"
        return b"VERSION " + self.s.version + b"\r\n"

    def _cmd_verbosity(self, toks, line):
        args, noreply = self._noreply(toks[1:], 1)
        self.s.log.append({"verb": b"verbosity", "args": args, "noreply": noreply})
        return None if noreply else b"OK\r\n"

    def _cmd_cache_memlimit(self, toks, line):
        args, noreply = self._noreply(toks[1:], 1)
        if len(args) != 1 or _udec(args[0], 32) is None:
            self._err("bad cache_memlimit line", line)
            return None if noreply else b"ERROR\r\n"
        self.s.log.append({"verb": b"cache_memlimit", "limit": int(args[0]), "noreply": noreply})
        return None if noreply else b"OK\r\n"

    def _cmd_stats(self, toks, line):
        s = self.s
        args = toks[1:]
        s.log.append({"verb": b"stats", "args": list(args)})
        if not args:
            lines = list(s.stats_lines)
            if "stats-odd" in (getattr(s, "dialect", None) or ()):
                lines += [(b"rusage_user", b"-0.5"), (b"evictions", b"18446744073709551616"), (b"version", b""), (b"libevent", b"2.1.12 stable build"),
                          (b"threads", b"04"), (b"accepting_conns", b"yes"), (b"slab_reassign_rescues", b"1e3"), (b"pid", b" 77")]
            return b"".join(b"STAT " + k + b" " + v + b"\r\n" for k, v in lines) + b"END\r\n"
        if args[0] == b"settings":
            return (b"STAT maxbytes 67108864\r\nSTAT inter NULL\r\nSTAT growth_factor 1.25\r\n"
                    b"STAT stat_key_prefix :\r\nSTAT umask 700\r\nSTAT auth_enabled_sasl no\r\n"
                    b"STAT cas_enabled yes\r\nSTAT ext_path \r\nEND\r\n")
        if args[0] == b"cachedump":
            out = []
            for k in sorted(s.store)[:5]:
                it = s._live(k)
                if it is not None:
                    out.append(b"ITEM " + k + b" [%d b; %d s]\r\n" % (len(it.value), it.exp))
            return b"".join(out) + b"END\r\n"
        if args[0] in (b"items", b"slabs", b"sizes", b"conns"):
            return b"STAT items:1:number 1\r\nSTAT items:1:age 10\r\nEND\r\n"
        if args[0] == b"reset":
            return b"RESET\r\n"
        self._err("unknown stats argument", line)
        return b"ERROR\r\n"

    def _cmd_quit(self, toks, line):
        self.s.log.append({"verb": b"quit"})
        self.closed = True
        return None

    def _cmd_shutdown(self, toks, line):
        s = self.s
        args = toks[1:]
        s.log.append({"verb": b"shutdown", "args": list(args)})
        if not s.shutdown_enabled:
            return b"ERROR: shutdown not enabled\r\n"
        if args and args != [b"graceful"]:
            return b"CLIENT_ERROR invalid shutdown mode\r\n"
        s.shutdown_requested = True
        self.closed = True
        return None

    def _cmd_config(self, toks, line):
        s = self.s
        s.log.append({"verb": b"config", "args": list(toks[1:])})
        if s.cluster_error is not None:
            return s.cluster_error + b"\r\n"
        if toks[1:] == [b"get", b"cluster"] and s.cluster_config is not None:
            body = s.cluster_config
            return b"CONFIG cluster 0 %d\r\n" % len(body) + body + b"\r\nEND\r\n"
        self._err("unknown config request", line)
        return b"ERROR\r\n"


# ---------------------------------------------------------------------------
# fidelity self-test: the outcomes pymemcache/test/test_integration.py asserts
# against a real memcached, replayed at the model's API


def selftest():
    clk = Clock()
    srv = McServer(clk)
    c = srv.connect()

    def x(data):
        return b"".join(c.feed(data))

    def eq(got, want):
        if got != want:
            raise AssertionError("server model fidelity: got %r, want %r" % (got, want))

    eq(x(b"get key\r\n"), b"END\r\n")
    eq(x(b"set key 0 0 5\r\nvalue\r\n"), b"STORED\r\n")
    eq(x(b"get key\r\n"), b"VALUE key 0 5\r\nvalue\r\nEND\r\n")
    eq(x(b"set key2 0 0 6 noreply\r\nvalue2\r\n"), b"")
    eq(x(b"get key key2\r\n"), b"VALUE key 0 5\r\nvalue\r\nVALUE key2 0 6\r\nvalue2\r\nEND\r\n")
    eq(x(b"add key 0 0 1\r\nx\r\n"), b"NOT_STORED\r\n")
    eq(x(b"add key3 0 0 1\r\nx\r\n"), b"STORED\r\n")
    eq(x(b"replace nokey 0 0 1\r\nx\r\n"), b"NOT_STORED\r\n")
    eq(x(b"replace key 0 0 1\r\ny\r\n"), b"STORED\r\n")
    eq(x(b"append nokey 0 0 1\r\nx\r\n"), b"NOT_STORED\r\n")
    eq(x(b"append key 0 0 5\r\nafter\r\n"), b"STORED\r\n")
    eq(x(b"prepend key 0 0 6\r\nbefore\r\n"), b"STORED\r\n")
    eq(x(b"get key\r\n"), b"VALUE key 0 12\r\nbeforeyafter\r\nEND\r\n")
    # cas dance
    eq(x(b"cas nokey 0 0 1 1\r\nx\r\n"), b"NOT_FOUND\r\n")
    r = x(b"gets key\r\n")
    casid = r.split(b"\r\n")[0].split()[-1]
    eq(x(b"cas key 0 0 1 " + casid + b"\r\nz\r\n"), b"STORED\r\n")
    eq(x(b"cas key 0 0 1 " + casid + b"\r\nq\r\n"), b"EXISTS\r\n")
    # incr / decr
    eq(x(b"incr nokey 1\r\n"), b"NOT_FOUND\r\n")
    eq(x(b"set n 0 0 1\r\n0\r\n"), b"STORED\r\n")
    eq(x(b"incr n 1\r\n"), b"1\r\n")
    eq(x(b"incr n 9\r\n"), b"10\r\n")
    eq(x(b"decr n 1\r\n"), b"9\r\n")
    eq(x(b"get n\r\n"), b"VALUE n 0 2\r\n9 \r\nEND\r\n")
    eq(x(b"decr n 100\r\n"), b"0\r\n")
    eq(x(b"incr n 18446744073709551615\r\n"), b"18446744073709551615\r\n")
    eq(x(b"incr n 1\r\n"), b"0\r\n")
    eq(x(b"incr key 1\r\n"), b"CLIENT_ERROR cannot increment or decrement non-numeric value\r\n")
    eq(x(b"incr n x\r\n"), b"CLIENT_ERROR invalid numeric delta argument\r\n")
    # touch / expiry
    eq(x(b"touch nokey 1\r\n"), b"NOT_FOUND\r\n")
    eq(x(b"touch key 2\r\n"), b"TOUCHED\r\n")
    clk.advance(1)
    eq(x(b"get key\r\n"), b"VALUE key 0 1\r\nz\r\nEND\r\n")
    clk.advance(1)
    eq(x(b"get key\r\n"), b"END\r\n")
    eq(x(b"set e 0 -1 1\r\nx\r\n"), b"STORED\r\n")
    eq(x(b"get e\r\n"), b"END\r\n")
    eq(x(b"set e 5 %d 1\r\nx\r\n" % (clk.now + 10)), b"STORED\r\n")
    eq(x(b"gat 0 e\r\n"), b"VALUE e 5 1\r\nx\r\nEND\r\n")
    clk.advance(100)
    eq(x(b"gats 0 e\r\n").split(b"\r\n")[1], b"x")
    # delete / flush
    eq(x(b"delete e\r\n"), b"DELETED\r\n")
    eq(x(b"delete e\r\n"), b"NOT_FOUND\r\n")
    eq(x(b"delete e noreply\r\n"), b"")
    eq(x(b"flush_all\r\n"), b"OK\r\n")
    eq(x(b"get n key3\r\n"), b"END\r\n")
    # too large
    big = b"x" * (ITEM_MAX + 1)
    eq(x(b"set big 0 0 %d\r\n" % len(big) + big + b"\r\n"), b"SERVER_ERROR object too large for cache\r\n")
    eq(x(b"get big\r\n"), b"END\r\n")
    # strictness
    eq(x(b"set k 0 0 3\r\nabcde\r\n"), b"CLIENT_ERROR bad data chunk\r\nERROR\r\n")
    eq(x(b"set  0 0 1\r\nx\r\n"), b"ERROR\r\nERROR\r\n")
    eq(x(b"version\r\n"), b"VERSION 1.6.21\r\n")
    eq(x(b"bogus\r\n"), b"ERROR\r\n")
    eq(x(b"get\r\n"), b"ERROR\r\n")
    eq(x(b"get " + b"k" * 251 + b"\r\n"), b"CLIENT_ERROR bad command line format\r\n")
    eq(x(b"set k 0 0 1"), b"")
    eq(x(b"\r\nx\r\n"), b"STORED\r\n")
    if not srv.errors:
        raise AssertionError("strict parser logged no errors for malformed input")

"""Shared runner: parts (enumerations / Hypothesis searches), sharding,
evidence, replay files, known findings.

A property module exposes

    PROPERTY = "Cxx"; LEVEL = "exploration" | "fault_enumeration"
    RULE = "<how cases are generated and what makes one non-trivial>"
    ASSUMPTIONS = [...]
    PARTS = [Part(...), ...]
    def selftest(): ...            # optional, harness self-check (exit 2 on failure)

A *case* is a plain Python value built from dict/list/tuple/int/str/bytes/
bool/None/float.  `check(case)` executes it against the real code and returns
`(nontrivial: bool, labels: iterable[str])`, or raises `Violation`.
The same `check` is used for generation, shrinking and `--replay`.
"""
from __future__ import annotations

import collections
import hashlib
import itertools
import json
import multiprocessing
import os
import sys
import time
import traceback

ROOT = os.path.dirname(os.path.dirname(os.path.abspath(__file__)))


class Violation(Exception):
    """The property was observed not to hold on the real code."""

    def __init__(self, signature, message, detail=None):
        super().__init__(message)
        self.signature = [str(x) for x in signature]
        self.message = message
        self.detail = detail


class HarnessError(Exception):
    """The machinery itself is broken or inconclusive (exit 2, never VIOLATION)."""


# --------------------------------------------------------------------------
# case (de)serialisation


def to_json(v):
    if isinstance(v, bool) or v is None or isinstance(v, (int, str)):
        return v
    if isinstance(v, float):
        return {"__float__": repr(v)}
    if isinstance(v, (bytes, bytearray)):
        return {"__bytes__": bytes(v).hex()}
    if isinstance(v, tuple):
        return {"__tuple__": [to_json(x) for x in v]}
    if isinstance(v, list):
        return [to_json(x) for x in v]
    if isinstance(v, (set, frozenset)):
        return {"__set__": [to_json(x) for x in sorted(v, key=repr)]}
    if isinstance(v, dict):
        if all(isinstance(k, str) and not k.startswith("__") for k in v):
            return {k: to_json(x) for k, x in v.items()}
        return {"__dict__": [[to_json(k), to_json(x)] for k, x in v.items()]}
    raise TypeError("case value not serialisable: %r" % (type(v),))


def from_json(v):
    if isinstance(v, list):
        return [from_json(x) for x in v]
    if isinstance(v, dict):
        if "__bytes__" in v:
            return bytes.fromhex(v["__bytes__"])
        if "__tuple__" in v:
            return tuple(from_json(x) for x in v["__tuple__"])
        if "__set__" in v:
            return set(from_json(x) for x in v["__set__"])
        if "__float__" in v:
            return float(v["__float__"])
        if "__dict__" in v:
            return {_hashable(from_json(k)): from_json(x) for k, x in v["__dict__"]}
        return {k: from_json(x) for k, x in v.items()}
    return v


def _hashable(k):
    return tuple(k) if isinstance(k, list) else k


def digest(case) -> int:
    return int.from_bytes(hashlib.sha1(repr(case).encode("utf-8", "backslashreplace")).digest()[:8], "big")


def _shorten(v, limit=96):
    """A literal but bounded rendering of a case for evidence samples."""
    if isinstance(v, (bytes, bytearray)) and len(v) > limit:
        return {"__bytes_prefix__": bytes(v[:32]).hex(), "len": len(v)}
    if isinstance(v, str) and len(v) > limit:
        return {"__str_prefix__": v[:48], "len": len(v)}
    if isinstance(v, tuple):
        return tuple(_shorten(x, limit) for x in v)
    if isinstance(v, list):
        if len(v) > 40:
            return [_shorten(x, limit) for x in v[:40]] + ["... (%d items)" % len(v)]
        return [_shorten(x, limit) for x in v]
    if isinstance(v, dict):
        return {k: _shorten(x, limit) for k, x in v.items()}
    if isinstance(v, int) and not isinstance(v, bool) and abs(v) > 10**40:
        return {"__int_digits__": len(str(abs(v))), "sign": -1 if v < 0 else 1}
    return v


def sample_json(case):
    try:
        return to_json(_shorten(case))
    except TypeError:
        return repr(case)[:400]


# --------------------------------------------------------------------------
# parts


class Part:
    """One generator + oracle pairing of a property check.

    kind="enum": `cases(tier, seed)` yields cases; every case is run.
    kind="hyp":  `strategy(tier)` is a Hypothesis strategy; `examples[tier]`
                 cases per shard, `shards[tier]` shards.
    """

    def __init__(self, name, kind, check, cases=None, strategy=None,
                 examples=None, shards=None, exhaustive=False, tiers=("quick", "thorough"),
                 minimise=None, distinct_by_construction=False, stateful_steps=None):
        self.name = name
        self.kind = kind
        self.check = check
        self.cases = cases
        self.strategy = strategy
        self.examples = examples or {"quick": 200, "thorough": 2000}
        self.shards = shards or ({"quick": 1, "thorough": 16} if kind == "hyp"
                                 else {"quick": 8, "thorough": 16})
        self.exhaustive = exhaustive
        self.tiers = tiers
        self.minimise = minimise
        self.distinct_by_construction = distinct_by_construction


class PartResult:
    def __init__(self, part):
        self.part = part
        self.evaluations = 0
        self.nontrivial = set()
        self.nontrivial_count = 0
        self.labels = collections.Counter()
        self.samples = []
        self.trivial_sample = None
        self.violation = None      # (case, signature, message)
        self.known_hits = collections.Counter()
        self.error = None
        self.wall = 0.0


_KNOWN = None


def load_known():
    global _KNOWN
    if _KNOWN is None:
        p = os.path.join(ROOT, "known_findings.json")
        _KNOWN = json.load(open(p)) if os.path.exists(p) else []
    return _KNOWN


def known_entry(prop, signature):
    for e in load_known():
        if e.get("property") == prop and e.get("status") == "known" and e.get("signature") == list(signature):
            return e
    return None


def _record(res, part, case, info):
    res.evaluations += 1
    nontrivial, labels = info if info is not None else (False, ())
    for lab in labels:
        res.labels[lab] += 1
    if nontrivial:
        if part.distinct_by_construction:
            res.nontrivial_count += 1
        else:
            res.nontrivial.add(digest(case))
        if len(res.samples) < 3:
            res.samples.append(sample_json(case))
    elif res.trivial_sample is None:
        res.trivial_sample = sample_json(case)


class CaseTimeout(BaseException):
    """one case ran longer than VERIF_CASE_LIMIT seconds (default 1800): the shard stops and the run ends as a harness error
    (exit 2, inconclusive) instead of hanging - a time limit is never reported as a violation"""


def _on_alarm(signum, frame):
    raise CaseTimeout("a case exceeded %s s" % os.environ.get("VERIF_CASE_LIMIT", "1800"))


def _run_checked(prop, part, res, case):
    """Run one case; returns True if a (non-known) violation was recorded."""
    import signal
    import threading
    armed = threading.current_thread() is threading.main_thread()
    if armed:
        signal.signal(signal.SIGALRM, _on_alarm)
        signal.alarm(int(os.environ.get("VERIF_CASE_LIMIT", "1800")))
    try:
        return _run_checked_(prop, part, res, case)
    finally:
        if armed:
            signal.alarm(0)


def _run_checked_(prop, part, res, case):
    try:
        info = part.check(case)
    except Violation as v:
        e = known_entry(prop, v.signature)
        if e is not None:
            res.known_hits[json.dumps(v.signature)] += 1
            res.evaluations += 1
            return False
        res.violation = (getattr(v, "case", None) or case, v.signature, v.message)
        return True
    _record(res, part, case, info)
    return False


def _run_enum(prop, part, tier, seed, shard, nshards, res):
    for i, case in enumerate(part.cases(tier, seed)):
        if i % nshards != shard:
            continue
        if _run_checked(prop, part, res, case):
            if part.minimise is not None:
                case, sig, msg = res.violation

                def still_fails(c, sig=sig):
                    try:
                        part.check(c)
                    except Violation as v:
                        return v.signature == sig
                    except Exception:
                        return False
                    return False
                try:
                    small = part.minimise(case, still_fails)
                    try:
                        part.check(small)
                    except Violation as v:
                        res.violation = (small, v.signature, v.message)
                except Exception:
                    pass
            return


def _run_hyp(prop, part, tier, seed, shard, nshards, res):
    import warnings

    import hypothesis
    from hypothesis import HealthCheck, Phase, given, settings
    from hypothesis.errors import HypothesisWarning
    warnings.simplefilter("ignore", HypothesisWarning)

    n = part.examples[tier]
    try:  # Hypothesis' shrinker has a hard 5-minute cap; bound it lower so a failing check reports promptly
        from hypothesis.internal.conjecture import engine as _engine
        _engine.MAX_SHRINKING_SECONDS = 20 if tier == "quick" else 90
    except Exception:  # noqa: BLE001
        pass
    state = {"last": None}
    strat = part.strategy(tier)

    def body(case):
        try:
            info = part.check(case)
        except Violation as v:
            if known_entry(prop, v.signature) is not None:
                res.known_hits[json.dumps(v.signature)] += 1
                res.evaluations += 1
                return
            state["last"] = (case, v.signature, v.message)
            raise
        _record(res, part, case, info)

    test = given(strat)(body)
    test = settings(
        max_examples=n, database=None, deadline=None, derandomize=False,
        report_multiple_bugs=False, suppress_health_check=list(HealthCheck),
        phases=[Phase.explicit, Phase.generate, Phase.target, Phase.shrink],
        print_blob=False,
    )(test)
    test = hypothesis.seed(seed * 1000 + shard)(test)
    try:
        test()
    except Violation:
        res.violation = state["last"]
    except BaseException as e:  # Flaky, Unsatisfiable, harness bugs
        if state["last"] is not None and type(e).__name__ in ("Flaky", "FlakyFailure", "FlakyReplay"):
            case, sig, msg = state["last"]
            for _ in range(3):
                try:
                    part.check(case)
                except Violation as v:
                    res.violation = (case, v.signature, v.message)
                    return
                except Exception:
                    break
        raise


def run_shard(args):
    modname, part_name, tier, seed, shard, nshards = args
    t0 = time.time()
    mod = __import__(modname, fromlist=["PARTS"])
    part = next(p for p in mod.PARTS if p.name == part_name)
    res = PartResult(part)
    try:
        if part.kind == "enum":
            _run_enum(mod.PROPERTY, part, tier, seed, shard, nshards, res)
        else:
            _run_hyp(mod.PROPERTY, part, tier, seed, shard, nshards, res)
    except BaseException:
        res.error = traceback.format_exc()
    res.wall = time.time() - t0
    res.part = None  # not picklable in general
    return part_name, res


# --------------------------------------------------------------------------
# top level


# ---- interpreter modes: the same parts once more in a child interpreter started differently -----------------------------
# "O": python -O (asserts stripped, __debug__ False); "W": every warning issued while library code runs is an error
# (python -W error); a check names the parts worth repeating there in MODE_PARTS = {"OW": [part names]}.
# (W also switches the library's logging to DEBUG with a handler that formats every record.)
MODES = {"O": {"PYTHONOPTIMIZE": "1"}, "W": {"VERIF_WARN_ERROR": "1"}, "OW": {"PYTHONOPTIMIZE": "1", "VERIF_WARN_ERROR": "1"}}


def mode_env(mode):
    return dict(os.environ, PYTHONHASHSEED="0", VERIF_MODE=mode, **MODES[mode])


def apply_mode():
    """called once at start-up of a mode child"""
    if os.environ.get("VERIF_WARN_ERROR"):
        import warnings
        warnings.simplefilter("error")
        # the harness's own dependencies may warn about themselves: not the library's business
        for m in ("hypothesis", "_pytest", "pytest", "multiprocessing"):
            warnings.filterwarnings("default", module=m + r"(\.|$)")
        # ... and with diagnostics switched on: every log record of the library is formatted (at DEBUG level), so whatever a
        # logging call evaluates or gets wrong happens inside the call that logs
        import logging

        class _Format(logging.Handler):
            def emit(self, record):
                record.getMessage()
        lg = logging.getLogger("pymemcache")
        lg.setLevel(logging.DEBUG)
        lg.addHandler(_Format())
        lg.propagate = False


def write_replay(prop, part_name, case, signature, message):
    d = os.path.join(ROOT, "replays", prop)
    os.makedirs(d, exist_ok=True)
    body = {"property": prop, "part": part_name, "signature": signature,
            "message": message, "case": to_json(case)}
    if os.environ.get("VERIF_MODE"):
        body["mode"] = os.environ["VERIF_MODE"]
    name = hashlib.sha1(json.dumps(body["case"], sort_keys=True).encode()).hexdigest()[:12] + ("-" + body["mode"] if body.get("mode") else "") + ".json"
    path = os.path.join(d, name)
    with open(path, "w") as f:
        json.dump(body, f, indent=1)
    return os.path.relpath(path, ROOT)


def replay(mod, path):
    body = json.load(open(path))
    if body.get("mode") and os.environ.get("VERIF_MODE") != body["mode"]:
        # found in a child interpreter started in another mode: replay it there
        import subprocess
        return subprocess.call([sys.executable, os.path.join(ROOT, "run.py"), mod.PROPERTY, "--replay", path], env=mode_env(body["mode"]))
    part = next(p for p in mod.PARTS if p.name == body["part"])
    case = from_json(body["case"])
    try:
        part.check(case)
    except Violation as v:
        print("replay: %s" % v.message)
        print("VIOLATION property=%s replay=%s" % (mod.PROPERTY, path))
        return 1
    print("replay: property held on this case")
    return 0


def regress_cases(mod):
    d = os.path.join(ROOT, "regress", mod.PROPERTY)
    if not os.path.isdir(d):
        return []
    return [os.path.join(d, f) for f in sorted(os.listdir(d)) if f.endswith(".json")]


def run_property(mod, tier, seed, jobs=None):
    t0 = time.time()
    prop = mod.PROPERTY
    if hasattr(mod, "selftest"):
        try:
            mod.selftest()
        except Exception:
            traceback.print_exc()
            print("HARNESS-ERROR property=%s self-test failed" % prop)
            return 2

    violations = []
    regress_run = 0
    # 1. regression cases of repaired defects and demonstrations of known ones
    for path in regress_cases(mod):
        body = json.load(open(path))
        part = next((p for p in mod.PARTS if p.name == body["part"]), None)
        if part is None:
            continue
        case = from_json(body["case"])
        regress_run += 1
        try:
            part.check(case)
        except Violation as v:
            if known_entry(prop, v.signature) is None:
                violations.append((os.path.relpath(path, ROOT), v.message))
        except Exception:
            traceback.print_exc()
            print("HARNESS-ERROR property=%s regression case %s crashed" % (prop, path))
            return 2

    # 2. the parts
    mode = os.environ.get("VERIF_MODE")
    mode_parts = set((getattr(mod, "MODE_PARTS", None) or {}).get(mode, ())) if mode else None
    tasks = []
    for part in mod.PARTS:
        if tier not in part.tiers:
            continue
        if mode_parts is not None and part.name not in mode_parts:
            continue
        n = part.shards[tier]
        for s in range(n):
            tasks.append((mod.__name__, part.name, tier, seed, s, n))
    nproc = min(jobs_for(tier, jobs), max(1, len(tasks)))
    results = collections.defaultdict(list)
    if nproc == 1:
        outs = map(run_shard, tasks)
    else:
        pool = multiprocessing.get_context("fork").Pool(nproc)
        outs = pool.imap_unordered(run_shard, tasks, chunksize=1)
    errors = []
    for part_name, res in outs:
        results[part_name].append(res)
        if res.error:
            errors.append((part_name, res.error))
    if nproc != 1:
        pool.close()
        pool.join()

    if errors and not any(r.violation for rs in results.values() for r in rs):
        for part_name, err in errors[:3]:
            sys.stderr.write("--- part %s ---\n%s\n" % (part_name, err))
        print("HARNESS-ERROR property=%s %d shard(s) crashed" % (prop, len(errors)))
        return 2

    # 3. merge
    evaluations = regress_run
    nontrivial = set()
    nontrivial_count = 0
    labels = collections.Counter()
    samples = []
    trivial = None
    parts_info = {}
    known_hits = collections.Counter()
    for part in mod.PARTS:
        rs = results.get(part.name)
        if not rs:
            continue
        pe = sum(r.evaluations for r in rs)
        pn = set().union(*[r.nontrivial for r in rs]) if rs else set()
        pc = sum(r.nontrivial_count for r in rs)
        evaluations += pe
        nontrivial |= pn
        nontrivial_count += pc
        for r in rs:
            labels.update(r.labels)
            known_hits.update(r.known_hits)
            for s in r.samples:
                if len([x for x in samples if x.get("part") == part.name]) < 2:
                    samples.append({"part": part.name, "case": s})
            if trivial is None and r.trivial_sample is not None:
                trivial = {"part": part.name, "case": r.trivial_sample, "trivial": True}
            if r.violation and not any(v[2] == part.name for v in violations if len(v) > 2):
                case, sig, msg = r.violation
                path = write_replay(prop, part.name, case, sig, msg)
                violations.append((path, msg, part.name))
        parts_info[part.name] = {
            "kind": part.kind, "evaluations": pe,
            "distinct_nontrivial": len(pn) + pc,
            "exhaustive": bool(part.exhaustive),
            "shards": len(rs),
            "wall_s": round(max(r.wall for r in rs), 2),
        }
    if not samples and trivial is not None:
        samples.append(trivial)

    wall = time.time() - t0
    coverage = {
        "evaluations": evaluations,
        "distinct_nontrivial": len(nontrivial) + nontrivial_count,
        "rule": mod.RULE,
        "samples": samples,
        "labels": dict(sorted(labels.items())),
        "parts": parts_info,
        "regression_cases_run": regress_run,
        "known_finding_cases_excluded": sum(known_hits.values()),
    }
    if all(p.exhaustive for p in mod.PARTS if tier in p.tiers):
        coverage["exhaustive"] = True
    # 4. the parts named in MODE_PARTS once more, in child interpreters started in another mode
    mode_harness_error = False
    if not mode and not violations:
        import subprocess
        for m, names in sorted((getattr(mod, "MODE_PARTS", None) or {}).items()):
            r = subprocess.run([sys.executable, os.path.join(ROOT, "run.py"), prop, "--tier", tier] + (["--jobs", str(jobs)] if jobs else []),
                               env=mode_env(m), capture_output=True, text=True)
            sub = None
            try:
                sub = json.load(open(os.path.join(ROOT, ".build", "evidence-mode", "%s-%s.json" % (prop, m))))
            except Exception:  # noqa: BLE001
                pass
            if r.returncode == 1:
                lines = r.stdout.splitlines()
                for i, ln in enumerate(lines):
                    if ln.startswith("VIOLATION property="):
                        msg = lines[i - 1].strip() if i and not lines[i - 1].startswith("VIOLATION") else ""
                        violations.append((ln.split("replay=", 1)[1], "[interpreter mode %s] %s" % (m, msg), "mode-" + m))
            elif r.returncode != 0 or sub is None:
                sys.stderr.write(r.stdout[-3000:] + r.stderr[-3000:])
                mode_harness_error = True
                continue
            coverage.setdefault("interpreter_modes", {})[m] = {
                "what": {"O": "python -O", "W": "warnings are errors", "OW": "python -O, warnings are errors"}[m], "parts": sorted(names),
                "evaluations": sub["coverage"]["evaluations"], "distinct_nontrivial": sub["coverage"]["distinct_nontrivial"]}
            evaluations += sub["coverage"]["evaluations"]
            coverage["evaluations"] = evaluations
            coverage["distinct_nontrivial"] += sub["coverage"]["distinct_nontrivial"]
        wall = time.time() - t0
    extra = getattr(mod, "extra_coverage", None)
    if extra is not None:
        coverage.update(extra(tier))
    evidence = {
        "property_id": prop, "tier": tier, "seed": seed, "level": mod.LEVEL,
        "coverage": coverage,
        "assumptions": list(getattr(mod, "ASSUMPTIONS", [])),
        "wall_s": round(wall, 2),
        "violations": len(violations),
        "repo": os.environ.get("VERIF_REPO", "/repo"),
    }
    # evidence/ only ever describes runs against /repo itself; runs against a scratch copy (mutants, seeded
    # changes: VERIF_REPO set) leave their evidence under .build/
    evdir = os.path.join(ROOT, "evidence")
    if os.path.realpath(os.environ.get("VERIF_REPO", "/repo")) != os.path.realpath("/repo"):
        evdir = os.path.join(ROOT, ".build", "evidence-scratch")
    if mode:
        evdir = os.path.join(ROOT, ".build", "evidence-mode")
    os.makedirs(evdir, exist_ok=True)
    with open(os.path.join(evdir, prop + ("-" + mode if mode else "") + ".json"), "w") as f:
        json.dump(evidence, f, indent=1, sort_keys=True)

    for e in load_known():
        if e.get("property") == prop and e.get("status") == "known":
            hits = known_hits.get(json.dumps(e["signature"]), 0)
            print("KNOWN-FINDING: property=%s %s (cases excluded this run: %d)" % (prop, e["what"], hits))
    print("%s tier=%s seed=%d evaluations=%d distinct_nontrivial=%d wall=%.1fs" % (
        prop, tier, seed, evaluations, coverage["distinct_nontrivial"], wall))
    if violations:
        for v in violations:
            print("  %s" % v[1])
            print("VIOLATION property=%s replay=%s" % (prop, v[0]))
        return 1
    if mode_harness_error:
        print("HARNESS-ERROR property=%s a child interpreter in another mode crashed" % prop)
        return 2
    return 0


def jobs_for(tier, jobs=None):
    if jobs:
        return jobs
    env = os.environ.get("VERIF_JOBS")
    if env:
        return int(env)
    n = os.cpu_count() or 4
    return min(n, 16)


# --------------------------------------------------------------------------
# generic delta debugging for list-shaped cases


def ddmin_list(items, still_fails):
    """Classic ddmin on a list; `still_fails(list) -> bool`."""
    items = list(items)
    n = 2
    while len(items) >= 2:
        chunk = max(1, len(items) // n)
        reduced = False
        for i in range(0, len(items), chunk):
            cand = items[:i] + items[i + chunk:]
            if cand and still_fails(cand):
                items = cand
                n = max(n - 1, 2)
                reduced = True
                break
        if not reduced:
            if chunk == 1:
                break
            n = min(len(items), n * 2)
    return items

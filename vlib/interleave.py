"""Several users of one object: real threads, one running at a time, switching only at the socket calls of the fake network
(what greenlets / asyncio-style tasks do, and the coarsest interleaving threads can show).  Built on vlib/sched.py without
bytecode tracing; locks of the library are real ones (no switch happens while one is held: none is held across a socket
call).  `choices[i]` decides the i-th socket call: 0 go on, k > 0 hand over to the k-th other runnable thread."""
from vlib import sched as S


def run(net, funcs, choices=None, first=0, kinds=("connect", "sendall", "recv")):
    """-> [("ok", value) | ("exc", exception)] per function, in order"""
    out = [None] * len(funcs)
    sc = S.Scheduler(S.list_chooser(list(choices) if choices is not None else [1] * 100000), lambda code: False)

    def hook(kind, sock):
        if kind in kinds:
            sc.yield_point()
    saved_hook, saved_sched = net.hook, S.SLock.sched
    net.hook = hook
    S.SLock.sched = sc

    def wrap(i, f):
        def body():
            try:
                out[i] = ("ok", f())
            except S.Abort:
                raise
            except BaseException as e:  # noqa: BLE001
                out[i] = ("exc", e)
        return body
    try:
        sc.run([wrap(i, f) for i, f in enumerate(funcs)], first=first)
    finally:
        net.hook = saved_hook
        S.SLock.sched = saved_sched
    if sc.deadlock or sc.overrun:
        raise RuntimeError("interleave: the schedule did not complete (deadlock=%r overrun=%r)" % (sc.deadlock, sc.overrun))
    return out, sc

"""Subclasses of the library's classes as an application would write them, used by the checks as building blocks: the
properties are stated for Client / PooledClient / HashClient 'on their own or inside a pool or hash client', and the
documented ways of composing them are `client_class`, overriding a method, and wrapping one client in another.

Every subclass here is written against the unchanged library only through its public or documented-overridable surface
(`_extract_value` is documented as an extension point in its docstring; `_connect`/`close`/`check_key` are overridden by the
repository's own tests and documentation examples)."""
from pymemcache.client.base import Client, PooledClient
from pymemcache.client.hash import HashClient


class TaggedValue(tuple):
    """what FlagsClient hands out instead of the bare value: (value, flags)"""


class FlagsClient(Client):
    """overrides the documented extension point: every fetched value comes back with the flags it was stored with"""

    def _extract_value(self, expect_cas, line, buf, remapped_keys, prefixed_keys):
        key, value, buf = super()._extract_value(expect_cas, line, buf, remapped_keys, prefixed_keys)
        flags = int(line.split()[2])
        if expect_cas:
            v, cas = value
            return key, (TaggedValue((v, flags)), cas), buf
        return key, TaggedValue((value, flags)), buf


class TunnelClient(Client):
    """holds a second connection (a tunnel / side channel) next to the memcached one: opened in _connect, closed in close()"""
    tunnel_addr = ("tunnel.example.com", 4000)

    def _connect(self):
        super()._connect()
        t = self.socket_module.socket(self.socket_module.AF_INET, self.socket_module.SOCK_STREAM)
        try:
            t.connect(self.tunnel_addr)
        except Exception:
            t.close()
            super().close()
            raise
        self.tunnel = t

    def close(self):
        t = getattr(self, "tunnel", None)
        if t is not None:
            self.tunnel = None
            try:
                t.close()
            except Exception:  # noqa: BLE001
                pass
        super().close()

    disconnect_all = close          # (the base class spells the alias as a class attribute: an override has to repeat it)


class FoldingClient(Client):
    """folds str keys to lower case in every public command that takes keys (an application-level key convention)"""

    @staticmethod
    def _f(k):
        return k.lower() if isinstance(k, str) else k

    def get(self, key, *a, **k):
        return super().get(self._f(key), *a, **k)

    def gets(self, key, *a, **k):
        return super().gets(self._f(key), *a, **k)

    def gat(self, key, *a, **k):
        return super().gat(self._f(key), *a, **k)

    def gats(self, key, *a, **k):
        return super().gats(self._f(key), *a, **k)

    def get_many(self, keys):
        keys = list(keys)
        r = super().get_many([self._f(x) for x in keys])
        back = {self._f(x): x for x in keys}
        return {back.get(kk, kk): v for kk, v in r.items()}

    get_multi = get_many

    def set(self, key, *a, **k):
        return super().set(self._f(key), *a, **k)

    def add(self, key, *a, **k):
        return super().add(self._f(key), *a, **k)

    def replace(self, key, *a, **k):
        return super().replace(self._f(key), *a, **k)

    def delete(self, key, *a, **k):
        return super().delete(self._f(key), *a, **k)

    def incr(self, key, *a, **k):
        return super().incr(self._f(key), *a, **k)

    def touch(self, key, *a, **k):
        return super().touch(self._f(key), *a, **k)


CLIENT_CLASSES = {"flags": FlagsClient, "tunnel": TunnelClient, "folding": FoldingClient}


def build(kind, spec, client_class, how="assign", **kw):
    """the stack `kind` (client / pooled / hash / hash-pooled) built around the Client subclass `client_class`:
    directly, as PooledClient.client_class (assigned on the instance after construction, as the repository's tests do, or
    declared on a subclass), or as HashClient.client_class on a subclass (the documented way)"""
    if kind == "client":
        return client_class(spec, **kw)
    if kind == "pooled":
        if how == "assign":
            c = PooledClient(spec, **kw)
            c.client_class = client_class
            return c
        return type("Pooled" + client_class.__name__, (PooledClient,), {"client_class": client_class})(spec, **kw)
    servers = kw.pop("servers", None)
    H = type("Hash" + client_class.__name__, (HashClient,), {"client_class": client_class})
    return H([spec] if servers is None else servers, use_pooling=(kind == "hash-pooled"), **kw)


class EagerClient(Client):
    """connects when it is constructed instead of at the first command (fail fast at start-up)"""

    def __init__(self, *a, **k):
        super().__init__(*a, **k)
        try:
            self._connect()
        except BaseException:
            self.close()
            raise


CLIENT_CLASSES["eager"] = EagerClient


def _ns(k):
    if isinstance(k, tuple):            # HashClient's (server_key, key) pairs: both parts belong to the namespace
        return tuple(_ns(x) for x in k)
    return "ns." + k if isinstance(k, str) else b"ns." + k if isinstance(k, bytes) else k


class _NamespaceMixin:
    """puts every key into a namespace ('ns.' in front - NOT idempotent: applied twice it is another key) in each public
    command that takes keys, and hands results back under the caller's keys.  On the unchanged library no public command
    is implemented through another public command (except the dict-style dunders, and HashClient.gets_many through
    get_many), so overriding each of them once is what an application has to do - and all it has to do."""
    _ns_skip = ()

    def get(self, key, *a, **k):
        return super().get(_ns(key), *a, **k)

    def gets(self, key, *a, **k):
        return super().gets(_ns(key), *a, **k)

    def gat(self, key, *a, **k):
        return super().gat(_ns(key), *a, **k)

    def gats(self, key, *a, **k):
        return super().gats(_ns(key), *a, **k)

    def get_many(self, keys, *a, **k):
        keys = list(keys)
        r = super().get_many([_ns(x) for x in keys], *a, **k)
        back = {_ns(x)[1] if isinstance(x, tuple) else _ns(x): (x[1] if isinstance(x, tuple) else x) for x in keys}
        return {back.get(kk, kk): v for kk, v in r.items()}

    def set(self, key, *a, **k):
        return super().set(_ns(key), *a, **k)

    def add(self, key, *a, **k):
        return super().add(_ns(key), *a, **k)

    def replace(self, key, *a, **k):
        return super().replace(_ns(key), *a, **k)

    def append(self, key, *a, **k):
        return super().append(_ns(key), *a, **k)

    def prepend(self, key, *a, **k):
        return super().prepend(_ns(key), *a, **k)

    def cas(self, key, *a, **k):
        return super().cas(_ns(key), *a, **k)

    def delete(self, key, *a, **k):
        return super().delete(_ns(key), *a, **k)

    def delete_many(self, keys, *a, **k):
        return super().delete_many([_ns(x) for x in keys], *a, **k)

    def incr(self, key, *a, **k):
        return super().incr(_ns(key), *a, **k)

    def decr(self, key, *a, **k):
        return super().decr(_ns(key), *a, **k)

    def touch(self, key, *a, **k):
        return super().touch(_ns(key), *a, **k)

    def set_many(self, values, *a, **k):
        values = dict(values)
        back = {_ns(x)[1] if isinstance(x, tuple) else _ns(x): (x[1] if isinstance(x, tuple) else x) for x in values}
        failed = super().set_many({_ns(x): v for x, v in values.items()}, *a, **k)
        return [back.get(x, x) for x in failed]


class NamespaceClient(_NamespaceMixin, Client):
    def gets_many(self, keys, *a, **k):
        keys = list(keys)
        r = super().gets_many([_ns(x) for x in keys], *a, **k)
        back = {_ns(x): x for x in keys}
        return {back.get(kk, kk): v for kk, v in r.items()}

    get_multi = _NamespaceMixin.get_many
    set_multi = _NamespaceMixin.set_many
    delete_multi = _NamespaceMixin.delete_many


class NamespaceHashClient(_NamespaceMixin, HashClient):
    """the same on a HashClient (gets_many is left alone: the library implements it through get_many)"""
    get_multi = _NamespaceMixin.get_many
    set_multi = _NamespaceMixin.set_many
    delete_multi = _NamespaceMixin.delete_many


CLIENT_CLASSES["namespace"] = NamespaceClient


class LateNoreplyClient(Client):
    """decides about default_noreply after the base constructor has run (a subclass that reads its options from elsewhere):
    the public attribute is what counts"""

    def __init__(self, *a, **k):
        super().__init__(*a, **k)
        self.default_noreply = not self.default_noreply


CLIENT_CLASSES["late-noreply"] = LateNoreplyClient


def _seal(v):
    return b"SEALED:" + bytes(v)[::-1] if isinstance(v, (bytes, bytearray)) else v


def _unseal(v):
    if isinstance(v, bytes):
        if not v.startswith(b"SEALED:"):
            return v                     # (an item somebody else stored)
        return v[7:][::-1]
    return v


class SealingClient(Client):
    """seals (here: marks and reverses) bytes values in every storing command and unseals them in every fetching command -
    what an application does to encrypt or sign what it caches"""

    def set(self, key, value, *a, **k):
        return super().set(key, _seal(value), *a, **k)

    def add(self, key, value, *a, **k):
        return super().add(key, _seal(value), *a, **k)

    def replace(self, key, value, *a, **k):
        return super().replace(key, _seal(value), *a, **k)

    def cas(self, key, value, *a, **k):
        return super().cas(key, _seal(value), *a, **k)

    def set_many(self, values, *a, **k):
        return super().set_many({kk: _seal(v) for kk, v in dict(values).items()}, *a, **k)

    set_multi = set_many

    def get(self, key, *a, **k):
        return _unseal(super().get(key, *a, **k))

    def gat(self, key, *a, **k):
        return _unseal(super().gat(key, *a, **k))

    def gets(self, key, *a, **k):
        v, c = super().gets(key, *a, **k)
        return _unseal(v), c

    def gats(self, key, *a, **k):
        v, c = super().gats(key, *a, **k)
        return _unseal(v), c

    def get_many(self, keys):
        return {kk: _unseal(v) for kk, v in super().get_many(keys).items()}

    get_multi = get_many

    def gets_many(self, keys):
        return {kk: (_unseal(v), c) for kk, (v, c) in super().gets_many(keys).items()}


CLIENT_CLASSES["sealing"] = SealingClient


class FalsyClient(Client):
    """a container-like client: len(client) is the number of commands it has queued up for a later flush - none in these
    checks, so the object is falsy all the time (`if not client` is not a test for None)"""

    def __len__(self):
        return 0


CLIENT_CLASSES["falsy"] = FalsyClient

"""Fake socket module, sockets and TLS context under the checker's control.

A `FakeNet` is passed as `socket_module=`.  Every socket-level event is appended to
one ordered log together with the id of the public call in progress (the
interpreter brackets each public call with begin_call / end_call).  Replies
produced by the server model are queued on the socket tagged with the id of the
call whose sendall caused them; `recv` checks the tags (cross-call read), detects
reads that can never be satisfied (blocks for ever) and `end_call` detects replies
left unread on a connection that stays open.

Faults (all pre-drawn, JSON-able dicts):
  socket level  {"call": i, "kind": K, "nth": k, "what": W [, "delivered": "none|first|all"]}
      K in getaddrinfo socket setsockopt settimeout wrap connect sendall recv close
      fires on the k-th event of kind K inside public call i.
      W: gaierror | oserror | refused | timeout | reset | pipe | eof |
         kbd | sysexit | baseexc          (the last three: interruptions, C10)
  reply level   {"call": i, "reply": j, "tamper": T [, "at": p, "then": "eof|silence"]}
      applied when the server model produces the j-th reply of call i:
      T: error | client_error | server_error | garbage | trunc
Whether a fault fired is recorded in `net.fired` (taken from here by oracles,
never from the plan).
"""
from __future__ import annotations

import collections
import errno
import socket as _real
import ssl as _ssl


class Interruption(BaseException):
    """A gevent-Timeout-like asynchronous exception (not an Exception)."""


_INTERRUPT = {"kbd": KeyboardInterrupt, "sysexit": SystemExit, "baseexc": Interruption}


class FakeNet:
    AF_UNIX = _real.AF_UNIX
    AF_UNSPEC = _real.AF_UNSPEC
    AF_INET = _real.AF_INET
    AF_INET6 = _real.AF_INET6
    SOCK_STREAM = _real.SOCK_STREAM
    IPPROTO_TCP = _real.IPPROTO_TCP
    TCP_NODELAY = _real.TCP_NODELAY
    SOL_SOCKET = _real.SOL_SOCKET
    SO_KEEPALIVE = _real.SO_KEEPALIVE
    timeout = _real.timeout
    error = _real.error
    gaierror = _real.gaierror

    def __init__(self, pieces=None, eintr=None):
        self.servers = {}            # addr -> McServer ; addr = (host, port) or unix path
        self.resolve = {}            # host -> [(family, (ip, port) or (ip, port, 0, 0))]
        self.sockets = []
        self.log = []                # (seq, call, sock_id, kind, info)
        self.flags = []              # (name, call, detail)  - hazards detected by the fake itself
        self.fired = []              # faults that actually took effect
        self.call = None
        self._kind_count = collections.Counter()
        self._reply_count = 0
        self.sock_faults = {}        # (call, kind, nth) -> fault dict
        self.reply_faults = {}       # (call, j) -> fault dict
        self.tampered_calls = set()
        pieces = list(pieces) if pieces else [1 << 30]
        eintr = list(eintr) if eintr else [False]
        # delivery schedule: piece sizes, with "EINTR" entries where a recv is interrupted first; cycled
        self.schedule = []
        for i, p in enumerate(pieces):
            if eintr[i % len(eintr)]:
                self.schedule.append("EINTR")
            self.schedule.append(p)
        self._pi = 0
        self._sock_seq = 0
        self.latency = 0             # seconds the virtual clock advances per recv (needs .clock)
        self.clock = None
        self.track_open = True
        self.max_open = 0
        self.max_open_at = None
        self.coalesce = True         # False: one recv never returns bytes of two separately queued replies
        self.hook = None             # optional callable(kind, sock) invoked at every socket event (scheduler yield point)

    # ---- configuration ----------------------------------------------------

    def add_server(self, addr, server, resolves=None):
        if isinstance(addr, tuple):
            addr = (addr[0], int(addr[1]))
        self.servers[addr] = server
        if resolves is not None:
            self.resolve[addr[0]] = resolves
        return server

    def plan(self, faults):
        for f in faults or ():
            if "tamper" in f:
                self.reply_faults[(f["call"], f["reply"])] = f
            else:
                self.sock_faults[(f["call"], f["kind"], f["nth"])] = f

    # ---- call bracketing ----------------------------------------------------

    def begin_call(self, i):
        self.call = i
        self._kind_count = collections.Counter()
        self._reply_count = 0

    def end_call(self, i):
        for s in self.sockets:
            if not s.closed and s.rx and not s.dead:
                self.flags.append(("unread-reply-on-open-connection", i,
                                   {"sock": s.id, "bytes": bytes(b"".join(x for x, _ in s.rx))[:40],
                                    "from_call": s.rx[0][1]}))
        self.call = None

    # ---- events -----------------------------------------------------------

    def _event(self, kind, sock, info=None):
        """Log the event, run the scheduler hook, return the fault planned for it (or None)."""
        nth = self._kind_count[kind]
        self._kind_count[kind] += 1
        self.log.append((len(self.log), self.call, sock.id if sock is not None else None, kind, info))
        if self.track_open:
            # sockets open at this instant, per server address ("at most one per client" is observed per server)
            n_open = len([s for s in self.sockets if not s.closed])
            if n_open > self.max_open:
                self.max_open = n_open
                self.max_open_at = (len(self.log) - 1, kind)
        if self.hook is not None:
            self.hook(kind, sock)
        f = self.sock_faults.get((self.call, kind, nth))
        return f

    def _fire(self, f, sock, note=None):
        self.fired.append({"fault": f, "sock": sock.id if sock is not None else None, "note": note})
        if sock is not None:
            sock.faulted_in.add(self.call)

    def _raise(self, f, sock):
        w = f["what"]
        if w in _INTERRUPT:
            self._fire(f, sock)
            raise _INTERRUPT[w]("injected interruption")
        self._fire(f, sock)
        if w == "gaierror":
            raise _real.gaierror(-2, "Name or service not known")
        if w == "refused":
            raise ConnectionRefusedError(errno.ECONNREFUSED, "Connection refused")
        if w == "timeout":
            raise _real.timeout("timed out")
        if w == "reset":
            raise ConnectionResetError(errno.ECONNRESET, "Connection reset by peer")
        if w == "pipe":
            raise BrokenPipeError(errno.EPIPE, "Broken pipe")
        if w == "eintr":
            # a send interrupted by a signal (a socket layer that does not resume it): how much went out is unknown to the caller
            raise InterruptedError(errno.EINTR, "Interrupted system call")
        if w == "sslerror":
            raise _ssl.SSLError("handshake failure")
        if w == "valueerror":
            raise ValueError("check_hostname requires server_hostname")
        raise OSError(errno.EIO, "injected I/O error")

    # ---- socket module API ---------------------------------------------------

    def getaddrinfo(self, host, port, family=0, type=0, proto=0, flags=0):
        f = self._event("getaddrinfo", None, (host, port))
        if f is not None:
            self._raise(f, None)
        # a caching resolver (functools.lru_cache around getaddrinfo is a common idiom): the same list object is handed out for
        # the same question every time - it is the resolver's, not the caller's to change
        cache = self.__dict__.setdefault("_resolved", {})
        ck = (host, port, tuple(map(tuple, self.resolve[host])) if host in self.resolve else None)
        if ck in cache:
            lst, snap = cache[ck]
            if lst != snap:
                self.flags.append(("resolver-result-changed", self.call, {"host": host, "handed out": snap, "now": list(lst)}))
            return lst
        if host in self.resolve:
            lst = [(fam, self.SOCK_STREAM, self.IPPROTO_TCP, "", addr) for fam, addr in self.resolve[host]]
        else:
            fam = self.AF_INET6 if ":" in str(host) else self.AF_INET
            lst = [(fam, self.SOCK_STREAM, self.IPPROTO_TCP, "", (host, port))]
        cache[ck] = (lst, list(lst))
        return lst

    def socket(self, family=-1, type=-1, proto=-1):
        s = FakeSocket(self, family)
        f = self._event("socket", s, family)
        if f is not None:
            s.closed = True
            s.never_existed = True
            self._raise(f, None)
        self.sockets.append(s)
        return s

    def server_for(self, sockaddr):
        if isinstance(sockaddr, tuple):
            key = (sockaddr[0], int(sockaddr[1]))
        else:
            key = sockaddr
        return self.servers.get(key)

    def next_piece(self):
        """-> (piece size, interrupted?)"""
        i = self._pi
        self._pi += 1
        item = self.schedule[i % len(self.schedule)]
        if item == "EINTR":
            return 0, True
        return item, False

    def open_sockets(self):
        return [s for s in self.sockets if not s.closed]


class WrapperSocketError(OSError):
    """the error class of a socket wrapper module (subclasses of OSError are not re-mapped to InterruptedError & co.)"""


class FakeSocket:
    def __init__(self, net, family):
        self.net = net
        self.id = net._sock_seq
        net._sock_seq += 1
        self.family = family
        self.closed = False
        self.close_calls = 0
        self.never_existed = False
        self.connected = False
        self.dead = False            # reset / broken: no more I/O possible
        self.eof = False             # peer closed: recv returns b"" once the queue is empty
        self.timeout_now = "unset"
        self.options = []
        self.peer = None
        self.addr = None
        self.rx = collections.deque()   # [bytes, tag]
        self.wrapped_by = None
        self.is_tls = False
        self.faulted_in = set()      # ids of calls in which a fault fired on this socket
        self.used_in = set()         # ids of calls that did I/O on it
        self.io_timeouts = []        # (kind, timeout in force)
        self.connect_timeout_seen = None

    # -- helpers
    def _check_usable(self, kind):
        if self.wrapped_by is not None:
            self.net.flags.append(("raw-io-after-tls-wrap", self.net.call, {"sock": self.id, "op": kind}))
        if self.closed:
            self.net.flags.append(("io-on-closed-socket", self.net.call, {"sock": self.id, "op": kind}))
            raise OSError(errno.EBADF, "Bad file descriptor")

    def _check_epoch(self):
        srv = getattr(self, "server", None)
        if getattr(self.net, "restarts_kill_connections", False) and srv is not None and not self.dead and getattr(srv, "epoch", 0) != getattr(self, "epoch", 0):
            # the server process this connection was made to is gone (it may have been restarted since): the connection is dead
            # (only in worlds that ask for it - net.restarts_kill_connections -: most histories let an outage end as a network
            # partition ends, with the old connections usable again)
            self.dead = True
            self.rx.clear()
            self.net.fired.append({"fault": {"what": "reset", "kind": "stale-connection", "server_down": True}, "sock": self.id})
            self.faulted_in.add(self.net.call)

    def fileno(self):
        return 1000 + self.id

    def settimeout(self, t):
        f = self.net._event("settimeout", self, t)
        if self.closed:
            raise OSError(errno.EBADF, "Bad file descriptor")
        if f is not None:
            self.net._raise(f, self)
        self.timeout_now = t

    def gettimeout(self):
        return None if self.timeout_now == "unset" else self.timeout_now

    def setsockopt(self, level, opt, value):
        f = self.net._event("setsockopt", self, (level, opt, value))
        if self.closed:
            raise OSError(errno.EBADF, "Bad file descriptor")
        if f is not None:
            self.net._raise(f, self)
        self.options.append((level, opt, value))

    def connect(self, addr):
        f = self.net._event("connect", self, addr)
        self._check_usable("connect")
        self.connect_timeout_seen = self.timeout_now
        self.addr = addr
        if f is not None:
            self.net._raise(f, self)
        srv = self.net.server_for(addr)
        if srv is None or (getattr(srv, "down", None) and srv.down not in ("reset-recv",) + SOFT_DOWN):
            kind = getattr(srv, "down", None) or "refused"
            self.net.fired.append({"fault": {"what": kind, "kind": "connect", "server_down": True}, "sock": self.id})
            self.faulted_in.add(self.net.call)
            if kind == "timeout":
                raise _real.timeout("timed out")
            if kind == "reset":
                raise ConnectionResetError(errno.ECONNRESET, "Connection reset by peer")
            if kind == "oserror":
                raise OSError(errno.EHOSTUNREACH, "No route to host")
            raise ConnectionRefusedError(errno.ECONNREFUSED, "Connection refused")
        self.peer = srv.connect()
        self.server = srv
        self.epoch = getattr(srv, "epoch", 0)
        self.connected = True

    def sendall(self, data):
        net = self.net
        f = net._event("sendall", self, len(data))
        self._check_usable("sendall")
        self.used_in.add(net.call)
        self.io_timeouts.append(("sendall", self.timeout_now))
        self._check_epoch()
        if not self.connected or self.dead:
            raise BrokenPipeError(errno.EPIPE, "Broken pipe")
        srv = getattr(self, "server", None)
        if srv is not None and getattr(srv, "down", None) == "reset-recv":
            # a proxy with a dead back-end: accepts the connection and the request, resets when the reply is awaited
            net.fired.append({"fault": {"what": "reset", "kind": "recv", "server_down": True}, "sock": self.id})
            self.faulted_in.add(net.call)
            self.dead = True
            self.rx.clear()
            return
        if srv is not None and getattr(srv, "down", None) in SOFT_DOWN:
            # something answers on the server's address that is not (yet) a working memcached: a load balancer that accepts and
            # hangs up, a proxy that answers everything with a line of its own, a server that is busy starting
            net.fired.append({"fault": {"what": srv.down, "kind": "sendall", "server_down": True}, "sock": self.id})
            self.faulted_in.add(net.call)
            if srv.down == "hangup":
                self.rx.clear()
                self.eof = True
            else:
                self.rx.append([b"\x00GARBAGE \xff reply\r\n" if srv.down == "garbage" else b"SERVER_ERROR busy\r\n", net.call])
            return None
        if srv is not None and getattr(srv, "down", None):
            # the server died under an established connection
            self.dead = True
            self.rx.clear()
            net.fired.append({"fault": {"what": "reset", "kind": "sendall", "server_down": True}, "sock": self.id})
            self.faulted_in.add(net.call)
            raise ConnectionResetError(errno.ECONNRESET, "Connection reset by peer")
        if f is not None:
            delivered = f.get("delivered", "none" if f["what"] not in _INTERRUPT else "all")
            if delivered == "all":
                self._deliver(data, None)
            elif delivered == "first":
                self._deliver(data, 1)
            if f["what"] in ("reset", "pipe", "oserror"):
                self.dead = True
                self.rx.clear()
            net._raise(f, self)
        if self.eof:
            # peer already closed: the kernel accepts the first write, the reply never comes
            return None
        self._deliver(data, None)
        return None

    def send(self, data):
        self.sendall(data)
        return len(data)

    def sendmsg(self, buffers, ancdata=(), flags=0, address=None):
        """a gathered write: like send(), it may take only part of what it is given and says how much (here: at most
        net.sendmsg_limit bytes, 64 unless set) - a caller has to go on with the rest"""
        data = b"".join(bytes(b) for b in buffers)
        part = data[:getattr(self.net, "sendmsg_limit", 64)]
        self.sendall(part)
        return len(part)

    def _deliver(self, data, max_commands):
        net = self.net
        replies = self.peer.feed(data, max_commands)
        if max_commands is not None:
            self.peer.pending = b""
        for r in replies:
            j = net._reply_count
            net._reply_count += 1
            rf = net.reply_faults.get((net.call, j))
            then = None
            if rf is not None:
                net.fired.append({"fault": rf, "sock": self.id, "original": bytes(r[:60])})
                self.faulted_in.add(net.call)
                net.tampered_calls.add(net.call)
                t = rf["tamper"]
                if t == "error":
                    r = b"ERROR\r\n"
                elif t == "client_error":
                    r = b"CLIENT_ERROR injected client error\r\n"
                elif t == "server_error":
                    r = b"SERVER_ERROR injected server error\r\n"
                elif t == "garbage":
                    r = b"\x00GARBAGE \xff reply\r\n"
                elif t == "trunc":
                    p = rf.get("at", 0) % max(1, len(r))
                    r = r[:p]
                    then = rf.get("then", "silence")
            if r:
                self.rx.append([r, net.call])
            if then == "eof":
                self.eof = True
                break
            if then == "silence":
                self.silenced = True
                break
        if self.peer.closed:
            self.eof = True

    def recv(self, n):
        net = self.net
        f = net._event("recv", self, n)
        self._check_usable("recv")
        self.used_in.add(net.call)
        self.io_timeouts.append(("recv", self.timeout_now))
        self._check_epoch()
        if self.dead:
            raise ConnectionResetError(errno.ECONNRESET, "Connection reset by peer")
        if f is not None:
            w = f["what"]
            if w == "eof":
                net._fire(f, self)
                self.rx.clear()
                self.eof = True
                return b""
            if w in ("reset", "oserror"):
                self.dead = True
                self.rx.clear()
            # timeout / interruptions: whatever is queued stays queued - it arrives "later"
            net._raise(f, self)
        if n <= 0:
            return b""                  # like a real socket: a zero-length read returns nothing
        if net.latency and net.clock is not None:
            net.clock.advance(net.latency)      # the call spends time waiting for the network
        size, intr = net.next_piece()
        if intr:
            # an interrupted system call is reported as an OSError with errno EINTR; which class carries it depends on the
            # socket layer (the builtin InterruptedError, a wrapper module's own error class, ssl.SSLError): rotate
            net._eintr_n = getattr(net, "_eintr_n", 0) + 1
            flavour = net._eintr_n % 3
            if flavour == 1:
                raise InterruptedError(errno.EINTR, "Interrupted system call")
            if flavour == 2:
                raise WrapperSocketError(errno.EINTR, "Interrupted system call")
            import ssl
            raise ssl.SSLError(errno.EINTR, "Interrupted system call")
        if not self.rx:
            if self.eof:
                # end-of-stream is reported again on every further read, as a real socket does; a reader that does not take
                # it for an answer would spin for ever (and hang the check), so the twentieth such read in a row is flagged
                # and ended with a timeout
                self.eof_reads = getattr(self, "eof_reads", 0) + 1
                if self.eof_reads >= 20:
                    net.flags.append(("keeps-reading-after-end-of-stream", net.call, {"sock": self.id, "reads": self.eof_reads}))
                    raise _real.timeout("timed out (the peer closed the connection %d reads ago)" % self.eof_reads)
                return b""
            if net.call in net.tampered_calls or getattr(self, "silenced", False):
                # the harness itself cut this call's reply short: waiting is correct, the I/O timeout ends it
                raise _real.timeout("timed out")
            net.flags.append(("blocks-forever", net.call, {"sock": self.id}))
            raise _real.timeout("timed out (nothing will ever arrive)")
        size = max(1, min(size, n))
        out = []
        got = 0
        while self.rx and got < size:
            chunk, tag = self.rx[0]
            if tag != net.call:
                net.flags.append(("cross-call-read", net.call, {"sock": self.id, "from_call": tag, "bytes": bytes(chunk[:40])}))
            take = min(size - got, len(chunk))
            out.append(chunk[:take])
            got += take
            if take == len(chunk):
                self.rx.popleft()
                if not net.coalesce:
                    break
            else:
                self.rx[0][0] = chunk[take:]
        return b"".join(out)

    def close(self):
        f = self.net._event("close", self, None)
        self.close_calls += 1
        self.closed = True
        if self.wrapped_by is not None:
            self.wrapped_by.closed = True
        if f is not None:
            self.net._raise(f, self)

    def shutdown(self, how):
        pass


SOFT_DOWN = ("hangup", "garbage", "busy")      # values of server.down under which connections are still accepted


class FakeTLSSocket(FakeSocket):
    """What tls_context.wrap_socket returns: shares the raw socket's connection state."""

    def __init__(self, raw, hostname):
        self.__dict__.update(raw.__dict__)
        self.raw = raw
        self.is_tls = True
        self.server_hostname = hostname
        self.wrapped_by = None
        self.rx = raw.rx
        self.faulted_in = raw.faulted_in
        self.used_in = raw.used_in
        self.io_timeouts = raw.io_timeouts
        self.options = raw.options

    def close(self):
        FakeSocket.close(self)
        self.raw.closed = True
        self.raw.close_calls += 1

    def unwrap(self):
        """ssl.SSLSocket.unwrap(): the TLS closing handshake. On a connection that is reset, half-closed by the peer, timed out or
        otherwise broke in mid-conversation it raises (as the real one does); on a healthy one it hands back the raw socket."""
        if self.closed:
            raise OSError(errno.EBADF, "Bad file descriptor")
        if self.dead or self.eof or self.faulted_in:
            raise _ssl.SSLError("TLS shutdown on a broken connection")
        return self.raw


class FakeTLSContext:
    # what ssl.create_default_context() gives: the peer's certificate is checked against the host name connected to
    check_hostname = True
    verify_mode = 2      # ssl.CERT_REQUIRED

    def __init__(self, net):
        self.net = net
        self.wrapped = []

    def wrap_socket(self, sock, server_hostname=None, **kw):
        f = self.net._event("wrap", sock, server_hostname)
        if f is not None:
            self.net._raise(f, sock)
        w = FakeTLSSocket(sock, server_hostname)
        sock.wrapped_by = w
        self.wrapped.append((sock.id, server_hostname))
        # the wrapper takes the raw socket's place in the table of sockets
        self.net.sockets[self.net.sockets.index(sock)] = w
        return w

    def __bool__(self):
        return True

"""Glue used by the checks that drive real clients over the fake network."""
from __future__ import annotations

import contextlib

from vlib.fakenet import FakeNet, FakeTLSContext
from vlib.mcserver import Clock, McServer

import pymemcache.client.hash as _hash
import pymemcache.pool as _pool
from pymemcache.client.base import Client, PooledClient
from pymemcache.client.hash import HashClient

ADDR = ("mc1", 11211)


class _Time:
    """Stands in for the `time` module inside pymemcache.pool / pymemcache.client.hash."""

    def __init__(self, clock):
        self._clock = clock
        self._origin = float(clock.now) - 4321.5

    def time(self):
        return float(self._clock.now)

    # the other clocks of the time module tick with the same virtual clock but have their own, unrelated origin (as the real
    # ones do): code may use any of them, but not mix readings of two
    def monotonic(self):
        return float(self._clock.now) - self._origin

    perf_counter = monotonic

    def monotonic_ns(self):
        return int(self.monotonic() * 1e9)

    def time_ns(self):
        return int(self.time() * 1e9)

    def sleep(self, d):
        self._clock.now += d


@contextlib.contextmanager
def virtual_time(clock):
    mods = [_pool, _hash]
    try:
        import pymemcache.client.ext.aws_ec_client as _aws
        mods.append(_aws)
    except Exception:  # noqa: BLE001
        pass
    saved = [m.time for m in mods]
    t = _Time(clock)
    for m in mods:
        m.time = t
    try:
        yield
    finally:
        for m, s in zip(mods, saved):
            m.time = s


from vlib.runner import Violation  # noqa: E402

class Env:
    def __init__(self, nservers=1, pieces=None, eintr=None, addrs=None, now=1_700_000_000, cas_start=0, spec=None):
        self.clock = Clock(now)
        self.spec = spec          # how the (first) server is spelled in the client's configuration, if not as its address
        self.net = FakeNet(pieces, eintr)
        self.addrs = list(addrs) if addrs else [("mc%d" % (i + 1), 11211) for i in range(nservers)]
        self.servers = []
        for a in self.addrs:
            srv = McServer(self.clock, name=str(a))
            srv.cas_counter = cas_start
            self.net.add_server(a, srv)
            self.servers.append(srv)
        self.ncalls = 0

    @property
    def server(self):
        return self.servers[0]

    def client(self, kind="client", **kw):
        kw.setdefault("socket_module", self.net)
        spec = self.addrs[0] if self.spec is None else self.spec
        if kw.get("client_class") is not None:
            # the stack built around a Client subclass (vlib/subclasses.py)
            from vlib import subclasses
            cc = kw.pop("client_class")
            how = kw.pop("client_class_how", "assign")
            if cc is subclasses.TunnelClient and subclasses.TunnelClient.tunnel_addr not in self.net.servers:
                from vlib.mcserver import McServer
                self.net.add_server(subclasses.TunnelClient.tunnel_addr, McServer(self.clock, name="tunnel"))
            return subclasses.build(kind, spec, cc, how, **kw)
        kw.pop("client_class", None)
        kw.pop("client_class_how", None)
        if kind in ("aws", "aws-pooled"):
            # the ElastiCache subclass (which re-implements __init__): its nodes are this Env's servers, learnt from a
            # configuration endpoint that advertises them
            from pymemcache.client.ext.aws_ec_client import AWSElastiCacheHashClient
            from vlib.mcserver import McServer
            cfg_addr = ("cfg.example.com", 11211)
            if cfg_addr not in self.net.servers:
                cfgsrv = McServer(self.clock, name="cfg")
                nodes = [a for a in (kw.pop("servers", None) or self.addrs) if isinstance(a, tuple)]
                cfgsrv.cluster_config = b"1\n" + " ".join("%s|%s|%d" % (h, h, int(p)) for h, p in nodes).encode() + b"\n"
                self.net.add_server(cfg_addr, cfgsrv)
            kw.pop("servers", None)
            return AWSElastiCacheHashClient("cfg.example.com:11211", use_pooling=(kind == "aws-pooled"), use_vpc=True, **kw)
        if kind == "client":
            return Client(spec, **kw)
        if kind == "pooled":
            return PooledClient(spec, **kw)
        if kind == "hash":
            return HashClient([spec] if "servers" not in kw else kw.pop("servers"), **kw)
        if kind == "hash-pooled":
            return HashClient([spec] if "servers" not in kw else kw.pop("servers"), use_pooling=True, **kw)
        raise ValueError(kind)

    def tls(self):
        return FakeTLSContext(self.net)

    def call(self, fn, *a, **k):
        """Run one public call bracketed for the reply-ownership log.
        Returns ("ok", value) or ("exc", exception) - BaseExceptions included."""
        i = self.ncalls
        self.ncalls += 1
        self.net.begin_call(i)
        try:
            r = ("ok", fn(*a, **k))
        except Violation:
            raise                      # (found by the harness inside the call, e.g. vlib.ops.invoke: not an outcome of the call)
        except Exception as e:  # noqa: BLE001
            r = ("exc", _untraced(e))
        except BaseException as e:  # noqa: BLE001  (injected interruptions)
            r = ("exc", _untraced(e))
        finally:
            self.net.end_call(i)
        return r


def _untraced(e):
    """the exception without its tracebacks: an application that has handled an error does not keep the frames (and, through them,
    the library's objects - a discarded connection, a pooled client) alive; what the library does when those are freed, or when
    their memory is used again, is part of what the checks see"""
    seen = set()
    x = e
    while x is not None and id(x) not in seen:
        seen.add(id(x))
        x.__traceback__ = None
        x = x.__context__ or x.__cause__
    return e

"""Deterministic thread scheduler: real threads, but only one holds the baton.

Every bytecode instruction executed in frames selected by `trace_filter(code)` is a
yield point (sys.settrace with f_trace_opcodes), and so is every call of
`yield_point` made by cooperating fakes (socket events) and every contended
acquire of an `SLock`.  At a yield point the running thread asks `chooser(step,
current, runnable)` which thread runs next.  The same chooser replays the same
execution exactly.
"""
from __future__ import annotations

import sys
import threading


class Abort(BaseException):
    """Raised inside parked threads to unwind them when a run is abandoned (deadlock / step limit)."""


class Scheduler:
    def __init__(self, chooser, trace_filter, on_yield=None, max_steps=60000):
        self.chooser = chooser
        self.trace_filter = trace_filter
        self.on_yield = on_yield
        self.max_steps = max_steps
        self.threads = []
        self.sem = {}
        self.state = {}            # tid -> ready | blocked | done
        self.waiting = {}          # tid -> lock
        self.current = None
        self.steps = 0
        self.deadlock = False
        self.overrun = False
        self.aborting = False
        self.switches = 0
        self.trace = []            # (step, from, to) for every pre-emptive switch
        self.main = threading.Semaphore(0)
        self.errors = {}
        self.in_traced = {}        # tid -> qualname of the innermost traced frame at the last yield

    # ---- called from worker threads ------------------------------------------------------

    def yield_point(self, tid=None, where=None):
        tid = self.current if tid is None else tid
        if self.aborting:
            raise Abort()
        self.steps += 1
        if self.steps > self.max_steps:
            self.overrun = True
            self._abandon(tid)
            raise Abort()
        if where is not None:
            self.in_traced[tid] = where
        if self.on_yield is not None:
            self.on_yield(self, tid)
        self._switch(tid, voluntary=True)

    def block_on(self, tid, lock):
        self.state[tid] = "blocked"
        self.waiting[tid] = lock
        self.steps += 1
        self._switch(tid, voluntary=False)
        if self.aborting:
            raise Abort()

    def unblock(self, lock):
        for t, l in list(self.waiting.items()):
            if l is lock:
                self.state[t] = "ready"
                del self.waiting[t]

    def _abandon(self, tid):
        self.aborting = True
        for t in self.threads:
            if t != tid and self.state[t] != "done":
                self.sem[t].release()

    def _switch(self, tid, voluntary):
        runnable = [t for t in self.threads if self.state[t] == "ready"]
        if not runnable:
            if all(self.state[t] == "done" for t in self.threads):
                self.main.release()
                return
            # nobody can run and not everybody is done
            self.deadlock = True
            self._abandon(tid)
            if self.state.get(tid) != "done":
                raise Abort()
            return
        nxt = self.chooser(self.steps, tid if self.state.get(tid) == "ready" else None, runnable)
        if nxt not in runnable:
            nxt = runnable[0]
        if nxt != tid:
            if self.state.get(tid) == "ready":
                self.switches += 1
                self.trace.append((self.steps, tid, nxt, self.in_traced.get(tid)))
            self.current = nxt
            self.sem[nxt].release()
            if self.state.get(tid) != "done":
                self.sem[tid].acquire()
                if self.aborting:
                    raise Abort()
        else:
            self.current = tid

    # ---- tracing -------------------------------------------------------------------------

    def _tracer_for(self, tid):
        filt = self.trace_filter

        def local(frame, event, arg):
            if event == "opcode":
                self.yield_point(tid, frame.f_code.co_qualname)
            return local

        def tracer(frame, event, arg):
            if event == "call" and filt(frame.f_code):
                frame.f_trace_opcodes = True
                frame.f_trace_lines = False
                return local
            return None
        return tracer

    # ---- driver --------------------------------------------------------------------------

    def run(self, funcs, first=0):
        n = len(funcs)
        for i in range(n):
            self.threads.append(i)
            self.sem[i] = threading.Semaphore(0)
            self.state[i] = "ready"

        fin = threading.Lock()

        def finish(i):
            with fin:
                self.state[i] = "done"
                last = all(self.state[t] == "done" for t in self.threads)
            if self.aborting:
                if last:
                    self.main.release()
                return
            try:
                self._switch(i, voluntary=False)
            except Abort:
                with fin:
                    if all(self.state[t] == "done" for t in self.threads):
                        self.main.release()

        def body(i, f):
            self.sem[i].acquire()
            if self.aborting:
                finish(i)
                return
            sys.settrace(self._tracer_for(i))
            try:
                f()
            except Abort:
                pass
            except BaseException as e:  # noqa: BLE001
                self.errors[i] = e
            finally:
                sys.settrace(None)
                finish(i)
        ths = [threading.Thread(target=body, args=(i, f), daemon=True) for i, f in enumerate(funcs)]
        for t in ths:
            t.start()
        self.current = first % n
        self.sem[self.current].release()
        self.main.acquire()
        for t in ths:
            t.join(timeout=5)
        alive = [t for t in ths if t.is_alive()]
        if alive:
            raise RuntimeError("scheduler: %d worker thread(s) did not finish" % len(alive))
        return self


class SLock:
    """Lock handed to the code under test through lock_generator; contention is a scheduling event."""
    sched = None

    def __init__(self):
        self.owner = None
        self.acquisitions = 0

    def acquire(self, blocking=True, timeout=-1):
        s = SLock.sched
        if s is None:
            # outside a schedule (sequential epilogue of a case): an ordinary, uncontended lock
            if self.owner is not None:
                raise RuntimeError("SLock still held by thread %r after the schedule ended" % (self.owner,))
            self.owner = "epilogue"
            self.acquisitions += 1
            return True
        tid = s.current
        if not blocking and self.owner is not None:
            return False          # a try-lock does not wait
        if self.owner == tid:
            # re-acquiring a non-reentrant lock one already holds: a self-deadlock
            s.block_on(tid, self)
        while self.owner is not None:
            s.block_on(tid, self)
        self.owner = tid
        self.acquisitions += 1
        return True

    def release(self):
        self.owner = None
        if SLock.sched is not None:
            SLock.sched.unblock(self)

    def locked(self):
        return self.owner is not None

    def __enter__(self):
        self.acquire()
        return self

    def __exit__(self, *a):
        self.release()


def preemption_chooser(preempt_at, rotate=1):
    """no pre-emption except at the listed global step numbers, where the baton goes to the next other runnable thread"""
    pts = set(preempt_at)

    def choose(step, current, runnable):
        if current is None:
            return runnable[0]
        if step in pts:
            others = [t for t in runnable if t != current]
            if others:
                # the next thread after `current` in cyclic order
                later = [t for t in others if t > current]
                return (later or others)[0]
        return current
    return choose


def list_chooser(choices):
    """choices[i] decides the i-th yield point: 0 keep running, k>0 pre-empt to the k-th other runnable thread"""
    state = {"i": 0}

    def choose(step, current, runnable):
        i = state["i"]
        state["i"] += 1
        c = choices[i] if i < len(choices) else 0
        if current is None:
            return runnable[c % len(runnable)]
        if c == 0:
            return current
        others = [t for t in runnable if t != current]
        return others[(c - 1) % len(others)] if others else current
    return choose

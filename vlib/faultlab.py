"""Shared machinery for the fault-injection checks (C01, C06, C07, C09, C10):
an operation library, a history interpreter over the fake network, enumeration of
the socket events a fault-free history performs (so that faults can be placed at
*every* one of them), and the fault catalogue.
"""
from __future__ import annotations

from vlib import ops
from vlib.harness import Env, virtual_time
from vlib.mcserver import Item

# ---- operation library -------------------------------------------------------------

NUM, TXT, MISSING = "n", "t", "nokey"


def op_library():
    """Every public data operation, single- and multi-key, noreply unset/True/False."""
    out = []
    for op in ("set", "add", "replace", "append", "prepend"):
        for nr in (None, True, False):
            r = {"op": op, "key": TXT if op != "add" else "fresh", "value": b"val"}
            if nr is not None:
                r["noreply"] = nr
            out.append(r)
    for nr in (None, True, False):
        r = {"op": "cas", "key": TXT, "value": b"c", "cas": b"2"}
        if nr is not None:
            r["noreply"] = nr
        out.append(r)
    out += [{"op": "get", "key": TXT}, {"op": "get", "key": MISSING}, {"op": "gets", "key": TXT}, {"op": "gets", "key": MISSING},
            {"op": "gat", "key": TXT, "expire": 30}, {"op": "gats", "key": TXT, "expire": 30},
            {"op": "get_many", "keys": [TXT]}, {"op": "get_many", "keys": [TXT, MISSING, NUM]},
            {"op": "gets_many", "keys": [NUM, TXT, "x4", MISSING]}, {"op": "get_many", "keys": [MISSING]}]
    for nr in (None, True, False):
        for r in ({"op": "set_many", "values": {TXT: b"1", "b": b"2", "c": b"3"}}, {"op": "delete", "key": TXT},
                  {"op": "delete_many", "keys": [TXT, MISSING, NUM]}, {"op": "incr", "key": NUM, "delta": 2},
                  {"op": "decr", "key": NUM, "delta": 3}, {"op": "touch", "key": TXT, "expire": 9}, {"op": "flush_all"}):
            r = dict(r)
            if nr is not None:
                r["noreply"] = nr
            out.append(r)
    # the same operations with their optional arguments away from the defaults (a code path may depend on them)
    for nr in (None, True, False):
        for r in ({"op": "flush_all", "delay": 3}, {"op": "set", "key": TXT, "value": b"val", "expire": 60, "flags": 5},
                  {"op": "touch", "key": TXT, "expire": 0}, {"op": "cas", "key": TXT, "value": b"c", "cas": "2", "expire": 30, "flags": 1},
                  {"op": "set_many", "values": {TXT: b"1"}, "expire": 9, "flags": 2}, {"op": "append", "key": TXT, "value": b"", "expire": -1}):
            r = dict(r)
            if nr is not None:
                r["noreply"] = nr
            out.append(r)
    out += [{"op": "gat", "key": TXT, "expire": 0}, {"op": "gats", "key": MISSING, "expire": -1}, {"op": "stats", "args": ["settings"]}]
    out += [{"op": "incr", "key": TXT, "delta": 1}, {"op": "incr", "key": MISSING, "delta": 1},
            {"op": "version"}, {"op": "stats"}, {"op": "cache_memlimit", "memlimit": 64}, {"op": "quit"}, {"op": "shutdown"}]
    # mixed outcomes inside one call: the server refuses one item of a batch and stores the others
    for nr in (None, False):
        for vals in ({TXT: b"1", "toolarge": b"22", "c": b"3"}, {"a": b"1", "nostore": b"2", "c": b"3"}, {"oom": b"1", "b": b"2"}, {"a": b"1", "b": b"2", "toolarge": b"3"},
                     {"toolarge": b"1", "oom": b"2", "nostore": b"3", "d": b"4"}):
            r = {"op": "set_many", "values": vals}
            if nr is not None:
                r["noreply"] = nr
            out.append(r)
    out += [{"op": "set", "key": "toolarge", "value": b"v", "noreply": False}, {"op": "add", "key": "nostore", "value": b"v", "noreply": False},
            {"op": "set", "key": "oom", "value": b"v", "noreply": False}, {"op": "set", "key": "toolarge", "value": b"v", "noreply": True}]
    # the noreply flag given as a truthy / falsy value that is not a bool (1, "yes", 2 / 0, ""): same behaviour as True / False
    out += [{"op": "set", "key": TXT, "value": b"val", "noreply": 1}, {"op": "set_many", "values": {TXT: b"1", "b": b"2"}, "noreply": "yes"},
            {"op": "delete", "key": TXT, "noreply": 1}, {"op": "touch", "key": TXT, "expire": 9, "noreply": "yes"}, {"op": "incr", "key": NUM, "delta": 2, "noreply": 2},
            {"op": "delete_many", "keys": [TXT, NUM], "noreply": 1}, {"op": "flush_all", "noreply": "no"}, {"op": "cas", "key": TXT, "value": b"c", "cas": b"2", "noreply": 1},
            {"op": "add", "key": "fresh", "value": b"val", "noreply": 0}, {"op": "replace", "key": TXT, "value": b"val", "noreply": ""}, {"op": "append", "key": TXT, "value": b"x", "noreply": 1.0}]
    # noreply=None given explicitly (a wrapper that forwards its own optional argument): the operation's documented default -
    # the client-wide default for stores, delete, touch and flush_all; "wait for the reply" for incr, decr and cas
    out += [{"op": "incr", "key": NUM, "delta": 2, "noreply": None}, {"op": "decr", "key": NUM, "delta": 1, "noreply": None},
            {"op": "cas", "key": TXT, "value": b"c", "cas": b"2", "noreply": None}, {"op": "set", "key": TXT, "value": b"val", "noreply": None},
            {"op": "delete", "key": TXT, "noreply": None}, {"op": "touch", "key": TXT, "expire": 9, "noreply": None},
            {"op": "delete_many", "keys": [TXT, NUM], "noreply": None}, {"op": "flush_all", "noreply": None},
            {"op": "set_many", "values": {TXT: b"1", "b": b"2"}, "noreply": None}]
    # raw_command: arbitrary commands, storage commands with their data block included (the block may end in CR LF itself)
    out += [{"op": "raw_command", "command": b"version"}, {"op": "raw_command", "command": "delete t"},
            {"op": "raw_command", "command": b"get t n", "end": b"END\r\n"}, {"op": "raw_command", "command": b"set rk 0 0 3\r\nabc"},
            {"op": "raw_command", "command": b"set rk 0 0 3\r\na\r\n"}, {"op": "raw_command", "command": b"append t 0 0 2\r\n\r\n"},
            {"op": "raw_command", "command": b"bogus", "end": b"END\r\n"},
            # commands in which the word noreply is a key or an argument the server does not take as the option: a reply comes
            {"op": "raw_command", "command": b"get noreply", "end": b"END\r\n"}, {"op": "raw_command", "command": b"gets t noreply", "end": b"END\r\n"},
            {"op": "raw_command", "command": b"verbosity noreply"}, {"op": "raw_command", "command": "gat 0 noreply", "end": b"END\r\n"},
            {"op": "raw_command", "command": b"bogus noreply"}]
    return out


READ_OPS = ("get", "gets", "gat", "gats", "get_many", "gets_many")
HASH_UNSUPPORTED = ("version", "cache_memlimit", "shutdown", "raw_command", "getitem", "setitem", "delitem")


def preload(srv, prefix=b""):
    """NUM -> b'10' (cas 1), TXT -> b'text' (cas 2), x4 -> 5000 bytes (cas 3)"""
    now = srv.clock.now
    srv.store[prefix + b"n"] = Item(b"10", 0, 0, srv._next_cas(), now)
    srv.store[prefix + b"t"] = Item(b"text", 0, 0, srv._next_cas(), now)
    srv.store[prefix + b"x4"] = Item((b"yEND\r\nVALUE t 0 1\r\n" + b"y" * 5000)[:5000], 0, 0, srv._next_cas(), now)      # (protocol text inside, more than one receive buffer)
    # stores of these keys are refused by the server (its item limit is lower than the client's idea of it / memory is
    # exhausted / a proxy could not complete the store)
    srv.refuse.update({prefix + b"toolarge": "too-large", prefix + b"oom": "oom", prefix + b"nostore": "not-stored"})


# ---- fault catalogue ----------------------------------------------------------------

SOCK_FAULTS = {
    "getaddrinfo": ["gaierror"],
    "socket": ["oserror"],
    "setsockopt": ["oserror"],
    "settimeout": ["oserror"],
    "wrap": ["sslerror", "oserror", "valueerror"],      # (ssl raises ValueError for e.g. a missing server_hostname: not an OSError)
    "connect": ["refused", "timeout", "oserror"],
    "sendall": ["reset", "timeout", "pipe", "eintr"],
    "recv": ["timeout", "reset", "eof", "oserror"],
    "close": ["oserror"],
}
SEND_DELIVERY = ["none", "first", "all"]
TAMPERS = ["error", "client_error", "server_error", "garbage"]
INTERRUPTS = ["kbd", "sysexit", "baseexc"]


def faults_for_event(kind, nth, interrupts=False):
    """All single socket-level faults applicable to the nth event of this kind."""
    out = []
    whats = INTERRUPTS if interrupts else SOCK_FAULTS.get(kind, [])
    for w in whats:
        if kind == "sendall":
            for d in (SEND_DELIVERY if not interrupts else ["none", "all"]):
                out.append({"kind": kind, "nth": nth, "what": w, "delivered": d})
        else:
            out.append({"kind": kind, "nth": nth, "what": w})
    return out


def tampers_for_reply(j, reply_len, every_byte=False):
    out = [{"reply": j, "tamper": t} for t in TAMPERS]
    if every_byte and reply_len <= 80:
        positions = range(0, reply_len)           # end-of-stream / silence at EVERY byte of a short reply
    else:
        positions = sorted(set([0, 1, 2, max(0, reply_len // 2), max(0, reply_len - 2), max(0, reply_len - 1)]))
    for at in positions:
        for then in ("eof", "silence"):
            out.append({"reply": j, "tamper": "trunc", "at": at, "then": then})
    return out


# ---- interpreter ----------------------------------------------------------------------


class Run:
    """Result of interpreting a history."""

    def __init__(self):
        self.outcomes = []       # per call: ("ok", value) | ("exc", exception)
        self.env = None
        self.client = None
        self.events_by_call = {}  # call -> [(kind, nth)]
        self.replies_by_call = {}  # call -> [len(reply)]


class FailingSerde:
    """serializes verbatim; deserialize raises the configured exception for keys listed (all keys when none listed)"""
    import zlib as _zlib
    EXC = {"ValueError": ValueError, "TypeError": TypeError, "KeyError": KeyError, "RuntimeError": RuntimeError, "IndexError": IndexError,
           "UnicodeDecodeError": lambda m: UnicodeDecodeError("utf-8", b"x", 0, 1, m), "zlib.error": _zlib.error, "AttributeError": AttributeError,
           "Exception": Exception, "EOFError": EOFError}

    def __init__(self, exc, keys=None):
        self.exc = exc
        self.keys = keys

    def serialize(self, key, value):
        return value, 0

    def deserialize(self, key, value, flags):
        k = key if isinstance(key, bytes) else str(key).encode()
        if self.keys is None or any(k.endswith(x.encode() if isinstance(x, str) else x) for x in self.keys):
            raise self.EXC[self.exc]("cannot deserialize")
        return value


def make_client(env, kind, cfg):
    kw = {}
    if cfg.get("failing_serde"):
        fs = cfg["failing_serde"]
        kw["serde"] = FailingSerde(fs["exc"], fs.get("keys"))
    for k in ("default_noreply", "ignore_exc", "key_prefix", "no_delay", "connect_timeout", "timeout", "serde"):
        if k in cfg:
            kw[k] = cfg[k]
    if cfg.get("tls"):
        kw["tls_context"] = env.tls()
    if cfg.get("keepalive"):
        from pymemcache.client.base import KeepaliveOpts
        kw["socket_keepalive"] = KeepaliveOpts(*cfg["keepalive"])
    if cfg.get("client_class"):
        from vlib import subclasses
        kw["client_class"] = subclasses.CLIENT_CLASSES[cfg["client_class"]]
        kw["client_class_how"] = cfg.get("client_class_how", "assign")
    if kind in ("pooled", "hash-pooled", "aws-pooled"):
        if "max_pool_size" in cfg:
            kw["max_pool_size"] = cfg["max_pool_size"]
        if "pool_idle_timeout" in cfg:
            kw["pool_idle_timeout"] = cfg["pool_idle_timeout"]
    if kind.startswith(("hash", "aws")):
        for k in ("retry_attempts", "retry_timeout", "dead_timeout"):
            if k in cfg:
                kw[k] = cfg[k]
        kw["servers"] = list(env.addrs)
        if cfg.get("add_at_runtime") is not None:
            # the servers are put into rotation after construction, through the public add_server, in one of its spellings
            kw["servers"] = []
            c = env.client(kind, **kw)
            for j, a in enumerate(env.addrs):
                add_server_spelled(c, a, cfg["add_at_runtime"] + j)
            return c
    return env.client(kind, **kw)


def add_server_spelled(c, spec, sp):
    """(host, port) / (host, 'port') / 'host:port' / legacy add_server(host, port) / add_server(host, 'port')"""
    if not isinstance(spec, tuple) or sp % 5 == 0:
        c.add_server(spec)
    elif sp % 5 == 1:
        c.add_server((spec[0], str(spec[1])))
    elif sp % 5 == 2:
        c.add_server("%s:%d" % spec)
    elif sp % 5 == 3:
        c.add_server(spec[0], spec[1])
    else:
        c.add_server(spec[0], str(spec[1]))


def interpret(case, observer=None):
    """case: {"kind", "cfg", "nservers", "pieces", "eintr", "calls": [{"op": rec, "faults": [...], "advance": s}]}
    Runs the history; returns a Run.  `observer(run, i, call, outcome)` is invoked after every call
    and may raise Violation."""
    cfg = case.get("cfg", {})
    addrs = None
    if case.get("unix"):
        addrs = [case["unix"]]
    env = Env(nservers=case.get("nservers", 1), pieces=case.get("pieces"), eintr=case.get("eintr"), addrs=addrs)
    if case.get("unix", "").startswith("unix:"):
        env.net.add_server(case["unix"][5:], env.servers[0])        # "unix:<path>" is a spelling of <path>
    if case.get("resolves"):
        # the host name resolves to several addresses (mixed families); all of them reach the same server
        host, port = env.addrs[0]
        res = []
        for fam, ip in case["resolves"]:
            fam = {"inet": env.net.AF_INET, "inet6": env.net.AF_INET6}[fam]
            sockaddr = (ip, port) if fam == env.net.AF_INET else (ip, port, 0, 0)
            res.append((fam, sockaddr))
            env.net.add_server((ip, port), env.servers[0])
        env.net.resolve[host] = res
    if case.get("coalesce") is False:
        env.net.coalesce = False
    if case.get("latency"):
        env.net.latency = case["latency"]
        env.net.clock = env.clock
    for srv in env.servers:
        pfx = cfg.get("key_prefix", b"") if isinstance(cfg.get("key_prefix", b""), bytes) else cfg["key_prefix"].encode()
        preload(srv, pfx)
        if cfg.get("client_class") == "namespace":
            preload(srv, pfx + b"ns.")          # the items as that subclass spells their keys
    run = Run()
    run.env = env
    plan = []
    for i, call in enumerate(case["calls"]):
        for f in call.get("faults", ()):
            plan.append(dict(f, call=i))
    env.net.plan(plan)
    with virtual_time(env.clock):
        c = make_client(env, case["kind"], cfg)
        run.client = c
        for i, call in enumerate(case["calls"]):
            if call.get("advance"):
                env.clock.advance(call["advance"])
            n0 = len(env.net.log)
            if case["kind"].startswith(("hash", "aws")) and call["op"]["op"] in HASH_UNSUPPORTED:
                out = ("skipped", None)       # HashClient does not offer this operation
                env.ncalls += 1
            elif call.get("ambient"):
                # the application makes this call while it is handling an exception of its own (inside an except block, a
                # finally block, an __exit__): sys.exc_info() is not empty although nothing has gone wrong in the library
                try:
                    raise LookupError("the caller's own exception, being handled while the call is made")
                except LookupError:
                    out = env.call(ops.invoke, c, call["op"])
            else:
                out = env.call(ops.invoke, c, call["op"])
            run.outcomes.append(out)
            counts = {}
            evs = []
            for e in env.net.log[n0:]:
                k = e[3]
                evs.append((k, counts.get(k, 0)))
                counts[k] = counts.get(k, 0) + 1
            run.events_by_call[i] = evs
            if observer is not None:
                observer(run, i, call, out)
    return run


def reply_lengths(case, target):
    """lengths of the replies the server produces in call `target` of the fault-free history"""
    lens = []
    from vlib.fakenet import FakeSocket
    real = FakeSocket._deliver

    def tapped(self, data, max_commands):
        before = len(self.rx)
        real(self, data, max_commands)
        if self.net.call == target:
            for chunk, tag in list(self.rx)[before:]:
                lens.append(len(chunk))
    FakeSocket._deliver = tapped
    try:
        interpret(dict(case, calls=[dict(c, faults=[]) for c in case["calls"]]))
    finally:
        FakeSocket._deliver = real
    return lens

"""Operation records: how to invoke them on a client and which commands they are *meant* to put on the wire.

An operation record is a dict: {"op": name, ...arguments...}.  `intended` is written
from the memcached protocol and the Client docstrings, not from the client code.
"""
from __future__ import annotations


class CannotEncode(Exception):
    """The arguments cannot be turned into a command at all: the call must be rejected."""


STORE_OPS = ("set", "add", "replace", "append", "prepend")
NOREPLY_DEFAULT_FALSE = ("cas", "incr", "decr")


def _keys_as(keys, how):
    """the key collection in the shape the caller chose: any iterable is documented to do, one-shot ones included"""
    if how in (None, "list"):
        return keys
    if how == "tuple":
        return tuple(keys)
    if how == "iter":
        return iter(list(keys))
    if how == "generator":
        return (k for k in list(keys))
    if how == "map":
        return map(lambda k: k, list(keys))
    if how == "dictview":
        return {k: None for k in keys}.keys()
    if how == "wrapper":
        return OneShot(keys)
    raise ValueError(how)


class OneShot:
    """an Iterable that can be gone through once but is not its own iterator: every iter() of it gives the same inner iterator
    (a cursor over a work list, a wrapper around a stream)"""

    def __init__(self, keys):
        self._it = iter(list(keys))

    def __iter__(self):
        return self._it


_STORE_OPT = [("expire", 0), ("noreply", None), ("flags", None)]
POSITIONAL = {
    "set": (["key", "value"], _STORE_OPT), "add": (["key", "value"], _STORE_OPT), "replace": (["key", "value"], _STORE_OPT),
    "append": (["key", "value"], _STORE_OPT), "prepend": (["key", "value"], _STORE_OPT),
    "cas": (["key", "value", "cas"], [("expire", 0), ("noreply", False), ("flags", None)]),
    "set_many": (["values"], _STORE_OPT),
    "get": (["key"], [("default", None)]), "gets": (["key"], [("default", None), ("cas_default", None)]),
    "gat": (["key"], [("expire", 0), ("default", None)]), "gats": (["key"], [("expire", 0), ("default", None), ("cas_default", None)]),
    "delete": (["key"], [("noreply", None)]), "delete_many": (["keys"], [("noreply", None)]),
    "incr": (["key", "delta"], [("noreply", False)]), "decr": (["key", "delta"], [("noreply", False)]),
    "touch": (["key"], [("expire", 0), ("noreply", None)]),
}


import weakref

_HANDED_OUT = weakref.WeakKeyDictionary()      # client object -> [(container it returned, repr at that time)], the last few


def _mutable_args(r):
    out = []
    for name in ("values", "keys", "value", "default", "cas_default"):
        v = r.get(name)
        if isinstance(v, (dict, list, bytearray, set)):
            out.append((name, v))
    return out


def invoke(c, r):
    """the call, and two things every call owes its caller whatever else it does: the argument objects are left as they were
    (the dict handed to set_many, the list of keys, a bytearray value), and a container it returns is the caller's own - not
    one handed out before, and not changed behind the caller's back later"""
    import copy
    from vlib.runner import Violation
    args = _mutable_args(r)
    before = [(name, v, copy.deepcopy(v)) for name, v in args]
    try:
        earlier = _HANDED_OUT.setdefault(c, [])
    except TypeError:
        earlier = None
    try:
        res = _invoke(c, r)
    finally:
        for name, v, snap in before:
            if v != snap or type(v) is not type(snap):
                raise Violation(["argument-mutated", r["op"], name], "%s(...) changed the caller's %s object: %r before the call, %r after" % (r["op"], name, snap, v))
    if earlier is not None:
        for obj, snap in earlier:
            if repr(obj) != snap:
                raise Violation(["result-changed-later", r["op"]], "a container returned by an earlier call on this object (%s then) reads %r after %s(...)" % (snap, obj, r["op"]))
        if isinstance(res, (dict, list)) and not any(res is v for _n, v in args):
            if any(res is obj for obj, _s in earlier):
                raise Violation(["result-handed-out-twice", r["op"]], "%s(...) returned the very container object an earlier call on this object had returned: %r" % (r["op"], res))
            earlier.append((res, repr(res)))
            del earlier[:-6]
    return res


def _invoke(c, r):
    op = r["op"]
    if "keys_as" in r and "keys" in r:
        r = dict(r, keys=_keys_as(r["keys"], r["keys_as"]))
    kw = {}
    for name in ("expire", "noreply", "flags", "default", "cas_default"):
        if name in r:
            kw[name] = r[name]
    if r.get("positional") and op in POSITIONAL:
        # the optional arguments passed by position, in the order the Client class documents them; arguments left out
        # in between take Client's documented defaults
        lead, opt = POSITIONAL[op]
        args = [r[name] for name in lead]
        last = max([i for i, (name, _d) in enumerate(opt) if name in kw], default=-1)
        for name, dflt in opt[:last + 1]:
            args.append(kw.get(name, dflt))
        return getattr(c, op)(*args)
    if op == "copy_drop":
        # the application made a shallow copy of the configured object (a view with other options, say), used it or not, and
        # let it go: that is none of the original's business
        import copy
        import gc
        d = copy.copy(c)
        for name, value in (r.get("set") or {}).items():
            setattr(d, name, value)
        if r.get("use"):
            d.get(r["use"])
        del d
        gc.collect()
        return None
    if op == "reconfigure":
        # the application assigns public attributes (timeout, connect_timeout, ...) on the object - and on the per-server
        # clients of a hash client - at run time
        for obj in [c] + list(getattr(c, "clients", {}).values()):
            for name, value in r["set"].items():
                if hasattr(obj, name):
                    setattr(obj, name, value)
        return None
    if op in STORE_OPS:
        return getattr(c, op)(r["key"], r["value"], **kw)
    if op == "cas":
        return c.cas(r["key"], r["value"], r["cas"], **kw)
    if op == "set_many":
        return c.set_many(r["values"], **kw)
    if op in ("get", "gets"):
        return getattr(c, op)(r["key"], **kw)
    if op in ("gat", "gats"):
        return getattr(c, op)(r["key"], **kw)
    if op in ("get_many", "gets_many"):
        return getattr(c, op)(r["keys"])
    if op == "delete":
        return c.delete(r["key"], **kw)
    if op == "delete_many":
        return c.delete_many(r["keys"], **kw)
    if op in ("incr", "decr"):
        return getattr(c, op)(r["key"], r["delta"], **kw)
    if op == "touch":
        return c.touch(r["key"], **kw)
    if op == "flush_all":
        if "delay" in r:
            kw["delay"] = r["delay"]
        return c.flush_all(**kw)
    if op == "cache_memlimit":
        return c.cache_memlimit(r["memlimit"])
    if op == "version":
        return c.version()
    if op == "stats":
        return c.stats(*r.get("args", ()))
    if op == "raw_command":
        return c.raw_command(r["command"], *([r["end"]] if "end" in r else []))
    if op in ("close", "disconnect_all"):
        return getattr(c, op)()
    if op == "quit":
        return c.quit()
    if op == "shutdown":
        return c.shutdown(*r.get("args", ()))
    if op == "setitem":
        c[r["key"]] = r["value"]
        return None
    if op == "getitem":
        return c[r["key"]]
    if op == "delitem":
        del c[r["key"]]
        return None
    raise ValueError(op)


def wire_key(key, cfg):
    prefix = cfg.get("key_prefix", b"")
    if isinstance(prefix, str):
        prefix = prefix.encode("ascii")
    if isinstance(key, str):
        try:
            key = key.encode("utf-8" if cfg.get("allow_unicode_keys") else "ascii")
        except UnicodeEncodeError:
            raise CannotEncode("key")
    elif not isinstance(key, bytes):
        raise CannotEncode("key type")
    return prefix + key


def wire_value(value, cfg):
    """-> (data bytes, flags from the serializer).  Without a serde: bytes as they are,
    anything else as its text in the configured encoding, flags 0."""
    serde = cfg.get("serde_obj")
    flags = 0
    if serde is not None:
        value, flags = serde.serialize(None, value)
    if not isinstance(value, bytes):
        try:
            value = str(value).encode(cfg.get("encoding", "ascii"))
        except UnicodeEncodeError:
            raise CannotEncode("value")
    return value, flags


def _int(v, what):
    if isinstance(v, bool) or not isinstance(v, int):
        raise CannotEncode(what)
    return v


def _noreply(r, cfg, default_false=False):
    nr = r.get("noreply")
    if nr is None:
        nr = False if default_false else cfg.get("default_noreply", True)
    return bool(nr)


def _cas(v):
    if isinstance(v, bool):
        raise CannotEncode("cas")
    if isinstance(v, int):
        if v < 0:
            raise CannotEncode("cas")
        return v
    if isinstance(v, str):
        if not (v.isascii() and v.isdigit()):
            raise CannotEncode("cas")
        return int(v)
    if isinstance(v, bytes):
        if not v.isdigit():
            raise CannotEncode("cas")
        return int(v)
    raise CannotEncode("cas")


def intended(r, cfg):
    """List of commands (same shape as McServer.log entries) this call is meant to send."""
    op = r["op"]
    if op in STORE_OPS or op == "cas" or op == "setitem":
        verb = b"set" if op == "setitem" else op.encode()
        data, sflags = wire_value(r["value"], cfg)
        flags = r.get("flags")
        if flags is None:
            flags = sflags
        nr = True if op == "setitem" else _noreply(r, cfg, default_false=(op == "cas"))
        return [{"verb": verb, "key": wire_key(r["key"], cfg), "flags": _int(flags, "flags"),
                 "exptime": _int(r.get("expire", 0), "expire"), "length": len(data), "data": data,
                 "cas": _cas(r["cas"]) if op == "cas" else None, "noreply": nr}]
    if op == "set_many":
        out = []
        nr = _noreply(r, cfg)
        exp = _int(r.get("expire", 0), "expire")
        for k, v in r["values"].items():
            data, sflags = wire_value(v, cfg)
            flags = r.get("flags")
            if flags is None:
                flags = sflags
            out.append({"verb": b"set", "key": wire_key(k, cfg), "flags": _int(flags, "flags"), "exptime": exp,
                        "length": len(data), "data": data, "cas": None, "noreply": nr})
        return out
    if op in ("get", "gets", "getitem"):
        return [{"verb": b"get" if op == "getitem" else op.encode(), "keys": [wire_key(r["key"], cfg)], "exptime": None}]
    if op in ("gat", "gats"):
        return [{"verb": op.encode(), "keys": [wire_key(r["key"], cfg)], "exptime": _int(r.get("expire", 0), "expire")}]
    if op in ("get_many", "gets_many"):
        keys = [wire_key(k, cfg) for k in r["keys"]]
        if not keys:
            return []
        return [{"verb": b"get" if op == "get_many" else b"gets", "keys": keys, "exptime": None}]
    if op in ("delete", "delitem"):
        nr = True if op == "delitem" else _noreply(r, cfg)
        return [{"verb": b"delete", "key": wire_key(r["key"], cfg), "noreply": nr}]
    if op == "delete_many":
        nr = _noreply(r, cfg)
        return [{"verb": b"delete", "key": wire_key(k, cfg), "noreply": nr} for k in r["keys"]]
    if op in ("incr", "decr"):
        d = _int(r["delta"], "delta")
        return [{"verb": op.encode(), "key": wire_key(r["key"], cfg), "delta": d, "noreply": _noreply(r, cfg, True)}]
    if op == "touch":
        return [{"verb": b"touch", "key": wire_key(r["key"], cfg), "exptime": _int(r.get("expire", 0), "expire"),
                 "noreply": _noreply(r, cfg)}]
    if op == "flush_all":
        return [{"verb": b"flush_all", "delay": _int(r.get("delay", 0), "delay"), "noreply": _noreply(r, cfg)}]
    if op == "cache_memlimit":
        return [{"verb": b"cache_memlimit", "limit": _int(r["memlimit"], "memlimit"), "noreply": False}]
    if op == "version":
        return [{"verb": b"version"}]
    if op == "stats":
        # arguments go through key validation with an EMPTY prefix
        return [{"verb": b"stats", "args": [wire_key(a, dict(cfg, key_prefix=b"")) for a in r.get("args", ())]}]
    if op == "raw_command":
        # the command as given, followed by ONE CR LF: what a strict server reads from exactly those bytes
        from vlib.mcserver import Clock, McServer
        cmd = r["command"]
        cmd = cmd.encode(cfg.get("encoding", "ascii")) if isinstance(cmd, str) else cmd
        srv = McServer(Clock(1_700_000_000), name="intended")
        conn = srv.connect()
        conn.feed(cmd + b"\r\n")
        if srv.errors or conn.pending:
            raise CannotEncode("raw command does not parse")
        return srv.log
    if op == "quit":
        return [{"verb": b"quit"}]
    raise ValueError(op)

#!/venv/bin/python
"""Single entry point of the verification machinery.

    run.py Cxx --tier quick|thorough [--jobs N]
    run.py Cxx --replay FILE
    run.py --setup
    run.py --list

Exit codes: 0 property held on everything explored, 1 violation (with a
`VIOLATION property=<id> replay=<path>` line), 2 harness error / inconclusive.
"""
import argparse
import importlib
import os
import subprocess
import sys

ROOT = os.path.dirname(os.path.abspath(__file__))
WHEELS = "/opt/veriftools/wheels"
DEPS = os.path.join(ROOT, ".deps")


def _bootstrap():
    # always the repository's interpreter (/venv): wheels installed into .deps are interpreter-specific
    venv_py = "/venv/bin/python"
    if os.path.exists(venv_py) and os.path.realpath(sys.prefix) != "/venv" and not os.environ.get("VERIF_ANY_PYTHON"):
        os.execve(venv_py, [venv_py] + sys.argv, dict(os.environ, PYTHONHASHSEED="0"))
    # determinism: never depend on str-hash order
    if os.environ.get("PYTHONHASHSEED") != "0":
        env = dict(os.environ, PYTHONHASHSEED="0")
        os.execve(sys.executable, [sys.executable] + sys.argv, env)
    repo = os.environ.get("VERIF_REPO", "/repo")
    sys.path.insert(0, repo)
    sys.path.insert(0, ROOT)
    if os.path.isdir(DEPS):
        sys.path.insert(1, DEPS)
    sys.dont_write_bytecode = True
    os.environ.setdefault("PYMEMCACHE_VERIF", "1")


def ensure_deps():
    try:
        import hypothesis  # noqa: F401
        return True
    except ImportError:
        pass
    os.makedirs(DEPS, exist_ok=True)
    r = subprocess.run([sys.executable, "-m", "pip", "install", "--quiet", "--no-index",
                        "--find-links", WHEELS, "--target", DEPS, "hypothesis"])
    if r.returncode != 0:
        return False
    if DEPS not in sys.path:
        sys.path.insert(1, DEPS)
    importlib.invalidate_caches()
    try:
        import hypothesis  # noqa: F401
        return True
    except ImportError:
        return False


def all_props():
    d = os.path.join(ROOT, "props")
    return sorted(f[:-3].upper() for f in os.listdir(d) if f.startswith("c") and f.endswith(".py"))


def main():
    _bootstrap()
    ap = argparse.ArgumentParser()
    ap.add_argument("prop", nargs="?")
    ap.add_argument("--tier", default=os.environ.get("VERIF_TIER", "quick"), choices=["quick", "thorough"])
    ap.add_argument("--replay")
    ap.add_argument("--setup", action="store_true")
    ap.add_argument("--list", action="store_true")
    ap.add_argument("--jobs", type=int, default=None)
    a = ap.parse_args()

    if not ensure_deps():
        print("HARNESS-ERROR hypothesis is not importable and could not be installed from %s" % WHEELS)
        return 2

    if a.list:
        print("\n".join(all_props()))
        return 0

    if a.setup:
        import pymemcache
        from vlib import refhash
        refhash.selftest()
        print("pymemcache from", os.path.dirname(pymemcache.__file__))
        # optional: atheris for C03's coverage-guided tier (thorough only); absence is recorded, not fatal
        try:
            import atheris  # noqa: F401
        except ImportError:
            os.makedirs(DEPS, exist_ok=True)
            subprocess.run([sys.executable, "-m", "pip", "install", "--quiet", "--no-index", "--find-links", WHEELS, "--target", DEPS, "atheris"])
        print("C murmur3 reference:", "compiled" if refhash.c_reference() else "unavailable (pure-Python reference only)")
        bad = 0
        for p in all_props():
            mod = importlib.import_module("props." + p.lower())
            if hasattr(mod, "selftest"):
                try:
                    mod.selftest()
                except Exception as e:  # noqa: BLE001
                    bad += 1
                    print("self-test of %s failed: %r" % (p, e))
        print("setup ok" if not bad else "setup: %d self-test(s) failed" % bad)
        return 0 if not bad else 2

    if not a.prop:
        ap.error("property id required")
    try:
        seed = int(os.environ.get("VERIF_SEED", "1"))
    except ValueError:
        seed = 1
    from vlib import runner
    if os.environ.get("VERIF_MODE"):
        runner.apply_mode()
    try:
        mod = importlib.import_module("props." + a.prop.lower())
    except ImportError as e:
        print("HARNESS-ERROR cannot import check for %s: %r" % (a.prop, e))
        return 2
    if a.replay:
        try:
            return runner.replay(mod, a.replay)
        except runner.Violation:
            raise
        except Exception:  # noqa: BLE001
            import traceback
            traceback.print_exc()
            print("HARNESS-ERROR replay crashed")
            return 2
    try:
        return runner.run_property(mod, a.tier, seed, a.jobs)
    except runner.HarnessError as e:
        print("HARNESS-ERROR %s" % e)
        return 2
    except Exception:  # noqa: BLE001
        import traceback
        traceback.print_exc()
        print("HARNESS-ERROR runner crashed")
        return 2


if __name__ == "__main__":
    sys.exit(main())

"""C10 - asynchronous interruption cannot desynchronise a client or leak a pool slot."""
from props import c01
from vlib import faultlab, mcserver
from vlib.faultlab import interpret
from vlib.fakenet import Interruption
from vlib.runner import Part, Violation

PROPERTY = "C10"
LEVEL = "fault_enumeration"
# parts repeated in a child interpreter started with -O and with warnings turned into errors (vlib/runner.py, MODES)
MODE_PARTS = {"OW": ['input-error-then-interruption', 'idle-expiry-interruptions', 'reconfigured-at-run-time', 're-entrant-interruptions']}
RULE = ("C01's systematic sweep and random histories with the fault replaced by an interruption raised from the chosen "
        "socket call: KeyboardInterrupt, SystemExit, or a private BaseException subclass (gevent-Timeout-like). Every "
        "operation x every socket event of a fault-free dry run of it (for sendall: raised before anything was sent "
        "and after everything was sent) x Client / PooledClient (max 1, max 2) / HashClient (plain, pooled) x "
        "ignore_exc off/on x cold/warm connection, followed by a store and a fetch on the same object; the same on pooled stacks with pool_idle_timeout set, where a connection has idled past the timeout and the call that evicts it is interrupted (also inside the close() of the stale socket). Oracle: the "
        "interruption reaches the caller as itself (never swallowed, not even under ignore_exc); right after it no "
        "pooled connection is checked out; C01's reply-ownership rules hold for all later calls (no cross-call read, "
        "no unread reply on an open connection, no read that can never be satisfied); a pool of size 1 serves the next "
        "call; the follow-up store/fetch give the right answers. The sweep is repeated with the server given as a UNIX socket path (plain and with the unix: prefix), and on objects that were closed (close / disconnect_all / quit) and are in use again. Re-entrant interruptions: a pooled call nested inside another on the same PooledClient (a serializer consulting the cache), the interruption raised from every socket event of the two exchanges - afterwards no connection is checked out, no connected socket lives outside the pool, and the object serves further calls. Non-trivial: the interruption hit after sendall and "
        "before the reply was fully read (taken from the log), and a later call used the same object. Run-time reconfiguration: timeout / connect_timeout reassigned on the object (and on a hash client's per-server clients) while a connection sits in the pool, the next call interrupted at every socket event it performs. Stacks around a Client subclass that connects in its constructor and the ElastiCache subclass run through the same sweeps. Interrupted clean-up: a call that fails half-way (timeout, reset, garbage, silence after a truncated reply) and whose close() is then cut short by an interruption; the same object is used again."
        + ' Interrupted clean-up with idle connections: a PooledClient (max_pool_size 2, 3, unbounded) whose pool holds two idle connections (two requests in flight together earlier: a get whose deserializer runs a get); a get / set / get_many / incr fails with an ordinary fault (reset, end-of-stream, timeout, EPIPE, garbage, truncated reply) and an interruption strikes in close() number 0, 1 or 2 made during that call, whichever connection is being closed; it reaches the caller, no slot stays checked out, and two requests in flight together afterwards both get a connection and their own answers.')
MANIFEST = {
    "category": "fault_enumeration",
    "technique": "systematic enumeration of interruption points (every socket call of every operation, from a fault-free dry run) x three BaseException kinds x client stacks + Hypothesis histories; reply-ownership oracle and pool-accounting invariant",
    "text": "An asynchronous exception is raised from every socket call of every operation on every client stack; afterwards the reply-ownership oracle of C01 is applied to two further calls and the pool's checked-out count must be zero. Exhaustive over single interruption points per operation shape, sampled for multi-interruption histories.",
    "note": "The interruption is raised from inside a socket call (where blocking happens), not between arbitrary bytecodes of the client.",
    "design_ref": "DESIGN.md 3/C10",
}
ASSUMPTIONS = [
    "asynchronous exceptions surface inside socket calls (KeyboardInterrupt during a blocking recv, gevent Timeout in a socket wait)",
    "after an interrupted recv the reply is still in flight and arrives later",
]

EXC = {"kbd": KeyboardInterrupt, "sysexit": SystemExit, "baseexc": Interruption}


def _pools(client):
    """all ObjectPools reachable from the client object"""
    out = []
    if hasattr(client, "client_pool"):
        out.append(client.client_pool)
    for c in getattr(client, "clients", {}).values():
        if hasattr(c, "client_pool"):
            out.append(c.client_pool)
    return out


def check(case):
    state = {"seen": 0}
    base_obs = c01.observer_factory(case, state)
    mid = {"hit": False}

    def obs(run, i, call, out):
        planned = [f for f in call.get("faults", ()) if f.get("what") in EXC]
        fired = [f for f in run.env.net.fired if f["fault"].get("call") == i and f["fault"].get("what") in EXC]
        if fired:
            want = EXC[fired[0]["fault"]["what"]]
            if not (out[0] == "exc" and type(out[1]) is want):
                raise Violation(["interruption-swallowed", case["kind"], call["op"]["op"]],
                                "%s raised inside %s of call %d %r did not reach the caller (outcome %r); %s cfg %r"
                                % (want.__name__, fired[0]["fault"]["kind"], i, call["op"], c01._short(out), case["kind"], case.get("cfg")))
            f = fired[0]["fault"]
            if f["kind"] == "recv" or (f["kind"] == "sendall" and f.get("delivered", "all") != "none"):
                mid["hit"] = True
        for p in _pools(run.client):
            if len(p.used):
                raise Violation(["pool-slot-leaked", case["kind"], call["op"]["op"]],
                                "after call %d %r (outcome %r) %d pooled connection(s) are still checked out; history %r on %s cfg %r"
                                % (i, call["op"], c01._short(out), len(p.used), c01._hist(case), case["kind"], case.get("cfg")))
        base_obs(run, i, call, out)
    run = interpret(case, obs)
    if case.get("follow"):
        a, b = run.outcomes[-2], run.outcomes[-1]
        if a != ("ok", True) or b != ("ok", b"fv"):
            raise Violation(["follow-up", case["kind"]], "after the interrupted call the follow-up set/get returned %r / %r; history %r on %s cfg %r"
                            % (c01._short(a), c01._short(b), c01._hist(case), case["kind"], case.get("cfg")))
    n = len(case["calls"])
    fired_calls = [f["fault"].get("call", -1) for f in run.env.net.fired]
    labels = [case["kind"]] + ["fired:%s-%s" % (f["fault"].get("kind"), f["fault"].get("what")) for f in run.env.net.fired]
    if mid["hit"]:
        labels.append("mid-exchange")
    return mid["hit"] and any(fc < n - 1 for fc in fired_calls), labels


def sweep_cases(tier, seed):
    return c01.sweep_cases(tier, seed, interrupts=True)


def unix_sweep_cases(tier, seed):
    """the same sweep with the server given as a UNIX socket path (a str, not a (host, port) pair)"""
    lib = [r for r in faultlab.op_library() if r["op"] in ("get", "set", "get_many", "incr", "delete_many", "set_many", "touch", "gats", "version", "raw_command")][::3]
    for path in ("/var/run/memcached/mc.sock", "unix:/tmp/mc.sock"):
        for case in c01.sweep_cases(tier, seed, interrupts=True, lib=lib):
            if case["cfg"].get("ignore_exc") and path.startswith("unix:"):
                continue
            if case["kind"].startswith("aws"):
                continue           # (a cluster configuration advertises host|ip|port, never a socket path)
            yield dict(case, unix=path)


def after_close_sweep_cases(tier, seed):
    """the object has been closed (close / disconnect_all / quit) and is in use again when the interruption strikes"""
    lib = [r for r in faultlab.op_library() if r["op"] in ("get", "set", "get_many", "incr", "delete_many", "set_many", "gats", "version")][::3]
    for how in ("close", "disconnect_all", "quit"):
        for case in c01.sweep_cases(tier, seed, interrupts=True, lib=lib):
            if case["kind"].startswith(("hash", "aws")) and how == "quit":
                continue
            pre = [{"op": {"op": "get", "key": "warmup"}}, {"op": {"op": how}}]
            if case["calls"][0]["op"].get("key") == "warmup":
                pre = pre + [{"op": {"op": "get", "key": "warmup"}}]
                rest = case["calls"][1:]
            else:
                rest = case["calls"]
            yield dict(case, calls=pre + rest)


def idle_sweep_cases(tier, seed):
    """pooled stacks with an idle timeout: a connection idles past it, and the call that would evict it is interrupted at
    every socket event it performs (including the close() of the stale socket)"""
    lib = [r for r in faultlab.op_library() if r["op"] in ("get", "set", "get_many", "incr", "delete", "quit", "version", "set_many")][::2]
    for kind, extra in (("pooled", {"max_pool_size": 1}), ("pooled", {"max_pool_size": 2}), ("hash-pooled", {"max_pool_size": 1})):
        for idle in (5,):
            for r in lib:
                cfg = dict(extra, pool_idle_timeout=idle, ignore_exc=False)
                base = {"kind": kind, "cfg": cfg, "follow": True,
                        "calls": [{"op": {"op": "get", "key": "warmup"}}, {"op": r, "advance": idle + 1}] + c01.FOLLOW}
                dry = interpret(base)
                for ev_kind, nth in dry.events_by_call[1]:
                    for f in faultlab.faults_for_event(ev_kind, nth, True):
                        calls = [dict(c) for c in base["calls"]]
                        calls[1] = dict(calls[1], faults=[f])
                        yield dict(base, calls=calls)
                # two idle expiries in a row, each interrupted
                for ev_kind, nth in dry.events_by_call[1][:3]:
                    f = faultlab.faults_for_event(ev_kind, nth, True)[0]
                    calls = [dict(c) for c in base["calls"]]
                    calls[1] = dict(calls[1], faults=[f])
                    calls.insert(2, dict(calls[1], advance=idle + 1))
                    yield dict(base, calls=calls)


def reconfigured_sweep_cases(tier, seed):
    """the application assigns other timeouts to the (pooled) object at run time while a connection sits in the pool; the next call
    is interrupted at every socket event it performs"""
    lib = [r for r in faultlab.op_library() if r["op"] in ("get", "set", "get_many", "incr", "delete", "version", "set_many", "gats")][::2]
    for kind, extra in (("pooled", {"max_pool_size": 1}), ("pooled", {"max_pool_size": 2}), ("hash-pooled", {"max_pool_size": 1}), ("client", {}), ("hash", {})):
        for new in ({"timeout": 5}, {"timeout": None, "connect_timeout": 7}, {"timeout": 1.0}):
            for r in lib:
                cfg = dict(extra, timeout=1, connect_timeout=1, ignore_exc=False)
                base = {"kind": kind, "cfg": cfg, "follow": True,
                        "calls": [{"op": {"op": "get", "key": "warmup"}}, {"op": {"op": "reconfigure", "set": new}}, {"op": r}] + c01.FOLLOW}
                dry = interpret(base)
                for ev_kind, nth in dry.events_by_call[2]:
                    for f in faultlab.faults_for_event(ev_kind, nth, True):
                        calls = [dict(c) for c in base["calls"]]
                        calls[2] = dict(calls[2], faults=[f])
                        yield dict(base, calls=calls)


def interrupted_cleanup_cases(tier, seed):
    """a call fails half-way (its request out, its reply owed, or the request only partly written) and the clean-up that follows -
    the close() of the connection - is itself cut short by an interruption; the application survives and goes on with the
    same object"""
    lib = [r for r in faultlab.op_library() if r["op"] in ("get", "set", "get_many", "incr", "delete", "set_many", "gats", "version", "touch")][::2]
    firsts = [{"kind": "recv", "nth": 0, "what": "timeout"}, {"kind": "recv", "nth": 0, "what": "reset"}, {"kind": "sendall", "nth": 0, "what": "timeout", "delivered": "first"},
              {"reply": 0, "tamper": "garbage"}, {"reply": 0, "tamper": "trunc", "at": 3, "then": "silence"}]
    for kind, extra in (("client", {}), ("pooled", {"max_pool_size": 1}), ("hash", {}), ("hash-pooled", {"max_pool_size": 1}), ("aws", {})):
        for r in lib:
            if kind.startswith(("hash", "aws")) and r["op"] in faultlab.HASH_UNSUPPORTED:
                continue
            for f1 in firsts:
                for what in faultlab.INTERRUPTS:
                    for ie in ((False,) if r["op"] not in faultlab.READ_OPS else (False, True)):
                        base = {"kind": kind, "cfg": dict(extra, ignore_exc=ie), "follow": True,
                                "calls": [{"op": {"op": "get", "key": "warmup"}}, {"op": r, "faults": [f1, {"kind": "close", "nth": 0, "what": what}]}] + c01.FOLLOW}
                        yield base


ERROR_OPS = [{"op": "get", "key": "bad key"}, {"op": "set", "key": "k", "value": b"v", "expire": "x"}, {"op": "incr", "key": "t", "delta": "x"},
             {"op": "cas", "key": "t", "value": b"v", "cas": "not-a-number"}, {"op": "get_many", "keys": ["t", "bad key"]},
             {"op": "set", "key": "k" * 251, "value": b"v"}, {"op": "touch", "key": "t", "expire": None}, {"op": "delete_many", "keys": ["a", "b\n"]}]


def error_then_interrupt_cases(tier, seed):
    for kind, extra in c01.STACKS:
        for ie in (False, True):
            for r in ERROR_OPS:
                if kind.startswith(("hash", "aws")) and r["op"] in ("get_many", "delete_many"):
                    continue
                base = {"kind": kind, "cfg": dict(extra, ignore_exc=ie), "follow": True,
                        "calls": [{"op": {"op": "get", "key": "warmup"}}, {"op": r}] + c01.FOLLOW}
                dry = interpret(base)
                for ev_kind, nth in dry.events_by_call[1]:
                    for f in faultlab.faults_for_event(ev_kind, nth, True):
                        calls = [dict(c) for c in base["calls"]]
                        calls[1] = dict(calls[1], faults=[f])
                        yield dict(base, calls=calls)
                yield base


def reentrant_cases(tier, seed):
    """a pooled call nested inside another one on the same PooledClient (a serializer that consults the cache), the
    interruption striking at every socket event of the nested exchange: both pool slots have to come back"""
    from props import c09
    for mx in (2, None):
        for when, outer in (("serialize", {"op": "set", "key": "k", "value": b"v", "noreply": False}), ("deserialize", {"op": "get", "key": "t"}),
                            ("deserialize", {"op": "get_many", "keys": ["t", "n"]})):
            for inner_op in ("get", "set", "version"):
                for ev_kind, nths in (("recv", (0, 1, 2)), ("sendall", (0, 1)), ("connect", (0, 1)), ("close", (0,))):
                    for nth in nths:
                        for f in faultlab.faults_for_event(ev_kind, nth, True):
                            for warm in (0, 1, 2):
                                for ie in (False, True):
                                    yield {"max_pool_size": mx, "when": when, "outer": outer, "inner_op": inner_op, "inner_fault": f, "swallow": False,
                                           "ignore_exc": ie, "warm": warm, "raw_fault": True}


def check_reentrant(case):
    from props import c09
    nt, labels = c09.check_reentrant(case, interruption=EXC)
    return nt, ["interruption"] + labels


def history_strategy(tier):
    return c01.history_strategy(tier, interrupts=True)


def idle_cleanup_cases(tier, seed):
    """a pool that holds two idle connections (two requests were in flight together earlier); a call fails with an ordinary
    error and an interruption strikes in a close() made while that call is cleaned up - whichever connection is being
    closed: the slot of the failed call comes back, the next two requests in flight together both get a connection"""
    firsts = [{"kind": "recv", "nth": 0, "what": "reset"}, {"kind": "recv", "nth": 0, "what": "eof"}, {"kind": "recv", "nth": 0, "what": "timeout"},
              {"kind": "sendall", "nth": 0, "what": "pipe", "delivered": "none"}, {"kind": "sendall", "nth": 0, "what": "reset", "delivered": "first"},
              {"reply": 0, "tamper": "garbage"}, {"reply": 0, "tamper": "trunc", "at": 3, "then": "eof"}]
    opsl = [{"op": "get", "key": "t"}, {"op": "set", "key": "k", "value": b"v", "noreply": False}, {"op": "get_many", "keys": ["t", "n"]},
            {"op": "incr", "key": "n", "delta": 1, "noreply": False}]
    for mx in (2, 3, None):
        for r in opsl:
            for f1 in firsts:
                for what in faultlab.INTERRUPTS:
                    for nth in (0, 1, 2):
                        for ie in ((False, True) if r["op"] in faultlab.READ_OPS else (False,)):
                            yield {"max_pool_size": mx, "op": r, "first": f1, "what": what, "nth": nth, "ignore_exc": ie}


def check_idle_cleanup(case):
    from props import c09
    from vlib.harness import Env, virtual_time
    from vlib import ops
    env = Env()
    net = env.net
    faultlab.preload(env.server, b"")
    sd = c09.ReentrantSerde("deserialize", "get", False)
    desc = "%r under %r, then %s in close() number %d of the call; PooledClient(max_pool_size=%r, ignore_exc=%r) holding two idle connections" % (
        case["op"], case["first"], case["what"], case["nth"], case["max_pool_size"], case["ignore_exc"])
    with virtual_time(env.clock):
        c = env.client("pooled", max_pool_size=case["max_pool_size"], serde=sd, ignore_exc=case["ignore_exc"], default_noreply=False)
        pool = c.client_pool
        env.call(c.get, "warm")
        sd.client = c
        w = env.call(ops.invoke, c, {"op": "get", "key": "t"})          # a get whose deserialize() runs a get: two connections
        sd.client = None
        del sd.inner_results[:]
        if w != ("ok", b"text") or len(net.open_sockets()) != 2 or len(pool.used):
            raise Violation(["idle-clean-up", "warm-up"], "the fault-free nested warm-up gave %r with %d open socket(s), %d checked out: %s" % (c01._short(w), len(net.open_sockets()), len(pool.used), desc))
        ncall = env.ncalls
        net.plan([dict(case["first"], call=ncall), {"kind": "close", "nth": case["nth"], "what": case["what"], "call": ncall}])
        out = env.call(ops.invoke, c, case["op"])
        fired = [x for x in net.fired if x["fault"].get("call") == ncall]
        hit = [x for x in fired if x["fault"].get("what") in EXC]
        where = "%s (outcome %r)" % (desc, c01._short(out))
        if hit and not (out[0] == "exc" and type(out[1]) is EXC[hit[0]["fault"]["what"]]):
            raise Violation(["idle-clean-up", "interruption-swallowed"], "%s raised inside close() did not reach the caller: %s" % (hit[0]["fault"]["what"], where))
        if len(pool.used):
            raise Violation(["idle-clean-up", "slot-lost"], "%d pooled connection(s) still checked out after %s" % (len(pool.used), where))
        for name, at, detail in net.flags:
            if name in ("io-on-closed-socket", "cross-call-read", "unread-reply-on-open-connection"):
                raise Violation(["idle-clean-up", name], "%s (%r): %s" % (name, detail, where))
        # two requests in flight together again: both need a slot, each gets the answer to its own command
        sd.client = c
        a = env.call(ops.invoke, c, {"op": "get", "key": "t"})
        inner = list(sd.inner_results)
        sd.client = None
        if a != ("ok", b"text") or inner != [("ok", b"text")]:
            raise Violation(["idle-clean-up", "follow-up"], "afterwards a get nested in a get gave %r / %r: %s" % (c01._short(a), [c01._short(x) for x in inner], where))
        if len(pool.used):
            raise Violation(["idle-clean-up", "slot-lost"], "%d pooled connection(s) checked out after the follow-up: %s" % (len(pool.used), where))
        c.close()
        if [x for x in net.open_sockets() if x.connected]:
            raise Violation(["idle-clean-up", "leak-after-close"], "sockets still open after close(): %s" % where)
    return bool(hit), ["idle-clean-up", "max=%s" % case["max_pool_size"], case["op"]["op"], "interrupted" if hit else "close-not-reached", "first-fired" if len(fired) - len(hit) else "first-not-fired"]


PARTS = [
    Part("interruption-sweep", "enum", check, cases=sweep_cases, exhaustive=True),
    Part("unix-socket-interruptions", "enum", check, cases=unix_sweep_cases, exhaustive=True),
    Part("after-close-interruptions", "enum", check, cases=after_close_sweep_cases, exhaustive=True),
    Part("idle-expiry-interruptions", "enum", check, cases=idle_sweep_cases, exhaustive=True),
    Part("input-error-then-interruption", "enum", check, cases=error_then_interrupt_cases, exhaustive=True),
    Part("interrupted-clean-up", "enum", check, cases=interrupted_cleanup_cases, exhaustive=True),
    Part("interrupted-clean-up-with-idle-connections", "enum", check_idle_cleanup, cases=idle_cleanup_cases, exhaustive=True),
    Part("reconfigured-at-run-time", "enum", check, cases=reconfigured_sweep_cases, exhaustive=True),
    Part("re-entrant-interruptions", "enum", check_reentrant, cases=reentrant_cases, exhaustive=True),
    Part("random-histories", "hyp", check, strategy=history_strategy,
         examples={"quick": 300, "thorough": 12000}, shards={"quick": 4, "thorough": 16}),
]


def selftest():
    mcserver.selftest()

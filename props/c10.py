"""C10 - asynchronous interruption cannot desynchronise a client or leak a pool slot."""
from props import c01
from vlib import faultlab, mcserver
from vlib.faultlab import interpret
from vlib.fakenet import Interruption
from vlib.runner import Part, Violation

PROPERTY = "C10"
LEVEL = "fault_enumeration"
# parts repeated in a child interpreter started with -O and with warnings turned into errors (vlib/runner.py, MODES)
MODE_PARTS = {"OW": ['input-error-then-interruption', 'idle-expiry-interruptions', 'reconfigured-at-run-time', 're-entrant-interruptions']}
RULE = ("C01's systematic sweep and random histories with the fault replaced by an interruption raised from the chosen "
        "socket call: KeyboardInterrupt, SystemExit, or a private BaseException subclass (gevent-Timeout-like). Every "
        "operation x every socket event of a fault-free dry run of it (for sendall: raised before anything was sent "
        "and after everything was sent) x Client / PooledClient (max 1, max 2) / HashClient (plain, pooled) x "
        "ignore_exc off/on x cold/warm connection, followed by a store and a fetch on the same object; the same on pooled stacks with pool_idle_timeout set, where a connection has idled past the timeout and the call that evicts it is interrupted (also inside the close() of the stale socket). Oracle: the "
        "interruption reaches the caller as itself (never swallowed, not even under ignore_exc); right after it no "
        "pooled connection is checked out; C01's reply-ownership rules hold for all later calls (no cross-call read, "
        "no unread reply on an open connection, no read that can never be satisfied); a pool of size 1 serves the next "
        "call; the follow-up store/fetch give the right answers. The sweep is repeated with the server given as a UNIX socket path (plain and with the unix: prefix), and on objects that were closed (close / disconnect_all / quit) and are in use again. Re-entrant interruptions: a pooled call nested inside another on the same PooledClient (a serializer consulting the cache), the interruption raised from every socket event of the two exchanges - afterwards no connection is checked out, no connected socket lives outside the pool, and the object serves further calls. Non-trivial: the interruption hit after sendall and "
        "before the reply was fully read (taken from the log), and a later call used the same object. Run-time reconfiguration: timeout / connect_timeout reassigned on the object (and on a hash client's per-server clients) while a connection sits in the pool, the next call interrupted at every socket event it performs. Stacks around a Client subclass that connects in its constructor and the ElastiCache subclass run through the same sweeps. Interrupted clean-up: a call that fails half-way (timeout, reset, garbage, silence after a truncated reply) and whose close() is then cut short by an interruption; the same object is used again.")
MANIFEST = {
    "category": "fault_enumeration",
    "technique": "systematic enumeration of interruption points (every socket call of every operation, from a fault-free dry run) x three BaseException kinds x client stacks + Hypothesis histories; reply-ownership oracle and pool-accounting invariant",
    "text": "An asynchronous exception is raised from every socket call of every operation on every client stack; afterwards the reply-ownership oracle of C01 is applied to two further calls and the pool's checked-out count must be zero. Exhaustive over single interruption points per operation shape, sampled for multi-interruption histories.",
    "note": "The interruption is raised from inside a socket call (where blocking happens), not between arbitrary bytecodes of the client.",
    "design_ref": "DESIGN.md 3/C10",
}
ASSUMPTIONS = [
    "asynchronous exceptions surface inside socket calls (KeyboardInterrupt during a blocking recv, gevent Timeout in a socket wait)",
    "after an interrupted recv the reply is still in flight and arrives later",
]

EXC = {"kbd": KeyboardInterrupt, "sysexit": SystemExit, "baseexc": Interruption}


def _pools(client):
    """all ObjectPools reachable from the client object"""
    out = []
    if hasattr(client, "client_pool"):
        out.append(client.client_pool)
    for c in getattr(client, "clients", {}).values():
        if hasattr(c, "client_pool"):
            out.append(c.client_pool)
    return out


def check(case):
    state = {"seen": 0}
    base_obs = c01.observer_factory(case, state)
    mid = {"hit": False}

    def obs(run, i, call, out):
        planned = [f for f in call.get("faults", ()) if f.get("what") in EXC]
        fired = [f for f in run.env.net.fired if f["fault"].get("call") == i and f["fault"].get("what") in EXC]
        if fired:
            want = EXC[fired[0]["fault"]["what"]]
            if not (out[0] == "exc" and type(out[1]) is want):
                raise Violation(["interruption-swallowed", case["kind"], call["op"]["op"]],
                                "%s raised inside %s of call %d %r did not reach the caller (outcome %r); %s cfg %r"
                                % (want.__name__, fired[0]["fault"]["kind"], i, call["op"], c01._short(out), case["kind"], case.get("cfg")))
            f = fired[0]["fault"]
            if f["kind"] == "recv" or (f["kind"] == "sendall" and f.get("delivered", "all") != "none"):
                mid["hit"] = True
        for p in _pools(run.client):
            if len(p.used):
                raise Violation(["pool-slot-leaked", case["kind"], call["op"]["op"]],
                                "after call %d %r (outcome %r) %d pooled connection(s) are still checked out; history %r on %s cfg %r"
                                % (i, call["op"], c01._short(out), len(p.used), c01._hist(case), case["kind"], case.get("cfg")))
        base_obs(run, i, call, out)
    run = interpret(case, obs)
    if case.get("follow"):
        a, b = run.outcomes[-2], run.outcomes[-1]
        if a != ("ok", True) or b != ("ok", b"fv"):
            raise Violation(["follow-up", case["kind"]], "after the interrupted call the follow-up set/get returned %r / %r; history %r on %s cfg %r"
                            % (c01._short(a), c01._short(b), c01._hist(case), case["kind"], case.get("cfg")))
    n = len(case["calls"])
    fired_calls = [f["fault"].get("call", -1) for f in run.env.net.fired]
    labels = [case["kind"]] + ["fired:%s-%s" % (f["fault"].get("kind"), f["fault"].get("what")) for f in run.env.net.fired]
    if mid["hit"]:
        labels.append("mid-exchange")
    return mid["hit"] and any(fc < n - 1 for fc in fired_calls), labels


def sweep_cases(tier, seed):
    return c01.sweep_cases(tier, seed, interrupts=True)


def unix_sweep_cases(tier, seed):
    """the same sweep with the server given as a UNIX socket path (a str, not a (host, port) pair)"""
    lib = [r for r in faultlab.op_library() if r["op"] in ("get", "set", "get_many", "incr", "delete_many", "set_many", "touch", "gats", "version", "raw_command")][::3]
    for path in ("/var/run/memcached/mc.sock", "unix:/tmp/mc.sock"):
        for case in c01.sweep_cases(tier, seed, interrupts=True, lib=lib):
            if case["cfg"].get("ignore_exc") and path.startswith("unix:"):
                continue
            if case["kind"].startswith("aws"):
                continue           # (a cluster configuration advertises host|ip|port, never a socket path)
            yield dict(case, unix=path)


def after_close_sweep_cases(tier, seed):
    """the object has been closed (close / disconnect_all / quit) and is in use again when the interruption strikes"""
    lib = [r for r in faultlab.op_library() if r["op"] in ("get", "set", "get_many", "incr", "delete_many", "set_many", "gats", "version")][::3]
    for how in ("close", "disconnect_all", "quit"):
        for case in c01.sweep_cases(tier, seed, interrupts=True, lib=lib):
            if case["kind"].startswith(("hash", "aws")) and how == "quit":
                continue
            pre = [{"op": {"op": "get", "key": "warmup"}}, {"op": {"op": how}}]
            if case["calls"][0]["op"].get("key") == "warmup":
                pre = pre + [{"op": {"op": "get", "key": "warmup"}}]
                rest = case["calls"][1:]
            else:
                rest = case["calls"]
            yield dict(case, calls=pre + rest)


def idle_sweep_cases(tier, seed):
    """pooled stacks with an idle timeout: a connection idles past it, and the call that would evict it is interrupted at
    every socket event it performs (including the close() of the stale socket)"""
    lib = [r for r in faultlab.op_library() if r["op"] in ("get", "set", "get_many", "incr", "delete", "quit", "version", "set_many")][::2]
    for kind, extra in (("pooled", {"max_pool_size": 1}), ("pooled", {"max_pool_size": 2}), ("hash-pooled", {"max_pool_size": 1})):
        for idle in (5,):
            for r in lib:
                cfg = dict(extra, pool_idle_timeout=idle, ignore_exc=False)
                base = {"kind": kind, "cfg": cfg, "follow": True,
                        "calls": [{"op": {"op": "get", "key": "warmup"}}, {"op": r, "advance": idle + 1}] + c01.FOLLOW}
                dry = interpret(base)
                for ev_kind, nth in dry.events_by_call[1]:
                    for f in faultlab.faults_for_event(ev_kind, nth, True):
                        calls = [dict(c) for c in base["calls"]]
                        calls[1] = dict(calls[1], faults=[f])
                        yield dict(base, calls=calls)
                # two idle expiries in a row, each interrupted
                for ev_kind, nth in dry.events_by_call[1][:3]:
                    f = faultlab.faults_for_event(ev_kind, nth, True)[0]
                    calls = [dict(c) for c in base["calls"]]
                    calls[1] = dict(calls[1], faults=[f])
                    calls.insert(2, dict(calls[1], advance=idle + 1))
                    yield dict(base, calls=calls)


def reconfigured_sweep_cases(tier, seed):
    """the application assigns other timeouts to the (pooled) object at run time while a connection sits in the pool; the next call
    is interrupted at every socket event it performs"""
    lib = [r for r in faultlab.op_library() if r["op"] in ("get", "set", "get_many", "incr", "delete", "version", "set_many", "gats")][::2]
    for kind, extra in (("pooled", {"max_pool_size": 1}), ("pooled", {"max_pool_size": 2}), ("hash-pooled", {"max_pool_size": 1}), ("client", {}), ("hash", {})):
        for new in ({"timeout": 5}, {"timeout": None, "connect_timeout": 7}, {"timeout": 1.0}):
            for r in lib:
                cfg = dict(extra, timeout=1, connect_timeout=1, ignore_exc=False)
                base = {"kind": kind, "cfg": cfg, "follow": True,
                        "calls": [{"op": {"op": "get", "key": "warmup"}}, {"op": {"op": "reconfigure", "set": new}}, {"op": r}] + c01.FOLLOW}
                dry = interpret(base)
                for ev_kind, nth in dry.events_by_call[2]:
                    for f in faultlab.faults_for_event(ev_kind, nth, True):
                        calls = [dict(c) for c in base["calls"]]
                        calls[2] = dict(calls[2], faults=[f])
                        yield dict(base, calls=calls)


def interrupted_cleanup_cases(tier, seed):
    """a call fails half-way (its request out, its reply owed, or the request only partly written) and the clean-up that follows -
    the close() of the connection - is itself cut short by an interruption; the application survives and goes on with the
    same object"""
    lib = [r for r in faultlab.op_library() if r["op"] in ("get", "set", "get_many", "incr", "delete", "set_many", "gats", "version", "touch")][::2]
    firsts = [{"kind": "recv", "nth": 0, "what": "timeout"}, {"kind": "recv", "nth": 0, "what": "reset"}, {"kind": "sendall", "nth": 0, "what": "timeout", "delivered": "first"},
              {"reply": 0, "tamper": "garbage"}, {"reply": 0, "tamper": "trunc", "at": 3, "then": "silence"}]
    for kind, extra in (("client", {}), ("pooled", {"max_pool_size": 1}), ("hash", {}), ("hash-pooled", {"max_pool_size": 1}), ("aws", {})):
        for r in lib:
            if kind.startswith(("hash", "aws")) and r["op"] in faultlab.HASH_UNSUPPORTED:
                continue
            for f1 in firsts:
                for what in faultlab.INTERRUPTS:
                    for ie in ((False,) if r["op"] not in faultlab.READ_OPS else (False, True)):
                        base = {"kind": kind, "cfg": dict(extra, ignore_exc=ie), "follow": True,
                                "calls": [{"op": {"op": "get", "key": "warmup"}}, {"op": r, "faults": [f1, {"kind": "close", "nth": 0, "what": what}]}] + c01.FOLLOW}
                        yield base


ERROR_OPS = [{"op": "get", "key": "bad key"}, {"op": "set", "key": "k", "value": b"v", "expire": "x"}, {"op": "incr", "key": "t", "delta": "x"},
             {"op": "cas", "key": "t", "value": b"v", "cas": "not-a-number"}, {"op": "get_many", "keys": ["t", "bad key"]},
             {"op": "set", "key": "k" * 251, "value": b"v"}, {"op": "touch", "key": "t", "expire": None}, {"op": "delete_many", "keys": ["a", "b\n"]}]


def error_then_interrupt_cases(tier, seed):
    for kind, extra in c01.STACKS:
        for ie in (False, True):
            for r in ERROR_OPS:
                if kind.startswith(("hash", "aws")) and r["op"] in ("get_many", "delete_many"):
                    continue
                base = {"kind": kind, "cfg": dict(extra, ignore_exc=ie), "follow": True,
                        "calls": [{"op": {"op": "get", "key": "warmup"}}, {"op": r}] + c01.FOLLOW}
                dry = interpret(base)
                for ev_kind, nth in dry.events_by_call[1]:
                    for f in faultlab.faults_for_event(ev_kind, nth, True):
                        calls = [dict(c) for c in base["calls"]]
                        calls[1] = dict(calls[1], faults=[f])
                        yield dict(base, calls=calls)
                yield base


def reentrant_cases(tier, seed):
    """a pooled call nested inside another one on the same PooledClient (a serializer that consults the cache), the
    interruption striking at every socket event of the nested exchange: both pool slots have to come back"""
    from props import c09
    for mx in (2, None):
        for when, outer in (("serialize", {"op": "set", "key": "k", "value": b"v", "noreply": False}), ("deserialize", {"op": "get", "key": "t"}),
                            ("deserialize", {"op": "get_many", "keys": ["t", "n"]})):
            for inner_op in ("get", "set", "version"):
                for ev_kind, nths in (("recv", (0, 1, 2)), ("sendall", (0, 1)), ("connect", (0, 1)), ("close", (0,))):
                    for nth in nths:
                        for f in faultlab.faults_for_event(ev_kind, nth, True):
                            for warm in (0, 1, 2):
                                for ie in (False, True):
                                    yield {"max_pool_size": mx, "when": when, "outer": outer, "inner_op": inner_op, "inner_fault": f, "swallow": False,
                                           "ignore_exc": ie, "warm": warm, "raw_fault": True}


def check_reentrant(case):
    from props import c09
    nt, labels = c09.check_reentrant(case, interruption=EXC)
    return nt, ["interruption"] + labels


def history_strategy(tier):
    return c01.history_strategy(tier, interrupts=True)


PARTS = [
    Part("interruption-sweep", "enum", check, cases=sweep_cases, exhaustive=True),
    Part("unix-socket-interruptions", "enum", check, cases=unix_sweep_cases, exhaustive=True),
    Part("after-close-interruptions", "enum", check, cases=after_close_sweep_cases, exhaustive=True),
    Part("idle-expiry-interruptions", "enum", check, cases=idle_sweep_cases, exhaustive=True),
    Part("input-error-then-interruption", "enum", check, cases=error_then_interrupt_cases, exhaustive=True),
    Part("interrupted-clean-up", "enum", check, cases=interrupted_cleanup_cases, exhaustive=True),
    Part("reconfigured-at-run-time", "enum", check, cases=reconfigured_sweep_cases, exhaustive=True),
    Part("re-entrant-interruptions", "enum", check_reentrant, cases=reentrant_cases, exhaustive=True),
    Part("random-histories", "hyp", check, strategy=history_strategy,
         examples={"quick": 300, "thorough": 12000}, shards={"quick": 4, "thorough": 16}),
]


def selftest():
    mcserver.selftest()

"""C08 - pooled connections are never shared between threads."""
import itertools

from hypothesis import strategies as st

from vlib import sched as S
from vlib.fakenet import FakeNet
from vlib.mcserver import Clock, McServer
from vlib.runner import HarnessError, Part, Violation

import pymemcache.client.base as B
import pymemcache.pool as P
import pymemcache.client.hash as HM
from pymemcache.client.base import PooledClient
from pymemcache.exceptions import MemcacheError, MemcacheServerError

PROPERTY = "C08"
LEVEL = "exploration"
RULE = ("schedule = which thread runs at each yield point; yield points are every bytecode instruction executed in "
        "pymemcache/pool.py and in PooledClient methods, every socket event of the fake network, and every contended "
        "acquire of the lock injected through lock_generator. Harnesses: (a) ObjectPool with plain objects, 2-3 threads "
        "x 1-3 operations from {get+release, get+destroy, get_and_release ok / raising (destroy or release on fail), "
        "clear}, max_size 1-3, idle timeout on/off (with a pool clock that advances at every reading, so idle expiry happens inside the schedule); (b) PooledClient over the fake network, 2-3 threads x 1-3 calls "
        "from {set, get, failing get, quit}, pool size 1-2; (c) as (b) plus a thread calling close(). Enumerated: for "
        "every two-thread one-operation-each configuration, every schedule with <= 1 pre-emption (thorough: <= 2), "
        "both start orders; Hypothesis: choice lists (9:1 towards keep-running) for the larger configurations. Oracle: "
        "atomic monitors around get/release/destroy keep holder[obj] - a get returning a held object is a double "
        "hand-out; at every yield point at which the pool lock is free, free+used has no duplicates and at most "
        "max_size members; only RuntimeError('Too many objects') or the injected fault escapes; no deadlock; at the "
        "end used is empty and every object ever created is idle in the pool or had after_remove invoked exactly "
        "once; in (b) every socket is closed exactly once or belongs to an idle pooled client, and no two threads "
        "did I/O on one socket at the same time. Non-trivial: a pre-emption occurred inside a pool / pooled-client "
        "frame and another thread entered a pool method afterwards. A scripted wall clock that steps backwards between releases (readings 100 .. 50 .. 85, idle timeout 30). (h) the same pool driven through a HashClient(use_pooling=True) shared by the threads, the hash client's own code pre-empted as well (its failover bookkeeping is not judged, the pool behind it is). Configurations marked warn_error run with every warning turned into an error. shutdown (the server permits it) and version run next to ordinary calls. A pool that grew large: 1500 to 3000 (thorough 12 000) objects checked out at once come back and idle out together, or are cleared or destroyed."
        + ' TCP keepalive configured and one of its socket options refused on an established connection; a creator that fails for one checkout, also one that has just found idle objects timed out. The large-pool part runs on a lock that reports a second acquire by its holder.'
        + ' Operation ctxdd (round eighteen): what PooledClient.quit() does when the quit fails - the object destroyed inside the get_and_release block, the block left by the exception, the object destroyed once more silently - against a thread that holds, takes or returns another object.')
MANIFEST = {
    "category": "exploration",
    "technique": "systematic schedule exploration with a harness-owned deterministic thread scheduler (bytecode-level yield points via sys.settrace): exhaustive enumeration of all schedules up to a pre-emption bound for the two-thread configurations, Hypothesis-drawn schedules for larger ones; invariant and end-state oracles",
    "text": "Real threads run the real pool and PooledClient code but only one at a time, the scheduler deciding at every bytecode instruction of pool.py / PooledClient and at every socket call; all schedules with at most one (thorough: two) pre-emptions of every two-thread configuration are enumerated and replayable from the list of pre-emption points. Pre-emption-bounded exhaustive exploration finds most concurrency defects with very few pre-emptions; beyond the bound schedules are sampled.",
    "note": "One thread runs at a time (GIL-like); races needing true parallelism or pre-emption inside a C-level container operation are out of reach. Removing the lock from ObjectPool.destroy alone is an equivalent mutant under these semantics.",
    "design_ref": "DESIGN.md 3/C08",
}
ASSUMPTIONS = [
    "CPython semantics: one thread executes bytecode at a time; container methods (deque.append/remove/popleft) are atomic",
    "sys.settrace opcode events fire for every bytecode instruction of the traced frames",
]


def _cur():
    return getattr(S.SLock.sched, "current", "epilogue")


def trace_filter(code):
    if code.co_filename == P.__file__:
        return True
    if code.co_filename == HM.__file__:
        return True            # (harness h: the hash client in front of the pooled clients is pre-empted as well)
    return code.co_filename == B.__file__ and code.co_qualname.startswith("PooledClient.")


class Obj:
    pass


class FalsyObj(Obj):
    """pooled objects may be anything, falsy things included (an empty container-like connection object)"""

    def __bool__(self):
        return False


class _ConstTime:
    """pool clock: constant, or (tick > 0) advancing by `tick` seconds at every reading, so that idle expiry happens
    inside a schedule deterministically"""

    def __init__(self, t, tick=0, script=None):
        self.t = t
        self.tick = tick
        self.script = list(script or ())      # a wall clock read off a list (it may step backwards: an NTP correction); the last value stays
        self.n = 0

    def time(self):
        if self.script:
            self.t = self.script[min(self.n, len(self.script) - 1)]
            self.n += 1
            return self.t
        self.t += self.tick
        return self.t


OPS_A = ["gr", "gd", "ctx", "ctxfail", "ctxfail-release", "ctxdd", "clear"]
OPS_B = ["set", "get", "failget", "quit", "shutdown", "version"]


def run_case(case):
    harness = case["harness"]
    plan = case["threads"]          # list of op lists
    max_size = case.get("max_size")
    problems = []
    created, removed = [], []
    holder = {}
    lock_box = {}

    def make_lock():
        lk = S.SLock()
        lock_box["lock"] = lk
        return lk

    saved_time = P.time
    P.time = _ConstTime(1000.0, case.get("tick", 0), case.get("clock"))
    net = None
    try:
        if harness == "a":
            attempts = []

            def mk():
                attempts.append(1)
                if len(attempts) - 1 in (case.get("creator_fails") or ()):
                    # a connection cannot be made just now (no descriptors left, the constructor of a client_class raises)
                    raise MemoryError("creator failed (attempt %d)" % (len(attempts) - 1))
                o = FalsyObj() if case.get("falsy") else Obj()
                created.append(o)
                return o
            pool = P.ObjectPool(mk, after_remove=lambda o: removed.append(o), max_size=max_size,
                                idle_timeout=case.get("idle", 0), lock_generator=make_lock)
            pc = None
        else:
            clock = Clock()
            net = FakeNet()
            srv = McServer(clock, shutdown_enabled=True)
            net.add_server(("mc1", 11211), srv)
            srv.refuse[b"toolarge"] = "too-large"          # a store the server refuses (SERVER_ERROR) although the connection is fine
            if harness == "h":
                # a HashClient(use_pooling=True) shared by the threads: one server, whose pooled client's pool is watched
                pc = HM.HashClient([("mc1", 11211)], use_pooling=True, socket_module=net, max_pool_size=max_size, lock_generator=make_lock,
                                   default_noreply=False, pool_idle_timeout=case.get("idle", 0), retry_attempts=case.get("retry_attempts", 2))
                pool = next(iter(pc.clients.values())).client_pool
            else:
                from pymemcache.client.base import KeepaliveOpts
                pc = PooledClient(("mc1", 11211), socket_module=net, max_pool_size=max_size, lock_generator=make_lock, default_noreply=False,
                                  pool_idle_timeout=case.get("idle", 0), **({"socket_keepalive": KeepaliveOpts(idle=2, intvl=3, cnt=4)} if case.get("keepalive") else {}))
                if case.get("falsy"):
                    from vlib import subclasses
                    pc.client_class = subclasses.FalsyClient
                pool = pc.client_pool
            orig_creator = pool._obj_creator

            def mk():
                o = orig_creator()
                created.append(o)
                return o
            pool._obj_creator = mk
            orig_after = pool._after_remove

            def after(o):
                removed.append(o)
                orig_after(o)
            pool._after_remove = after
            if case.get("fail_recv") is not None:
                net.plan([{"call": None, "kind": "recv", "nth": k, "what": "reset"} for k in case["fail_recv"]])
            if case.get("fail_setsockopt") is not None:
                # TCP keepalive is configured; the n-th socket option cannot be set (the connection is up by then)
                net.plan([{"call": None, "kind": "setsockopt", "nth": k, "what": "oserror"} for k in case["fail_setsockopt"]])
            if case.get("interrupt_recv") is not None:
                # a KeyboardInterrupt (any non-Exception BaseException: gevent.Timeout, SystemExit) delivered inside that recv
                net.plan([{"call": None, "kind": "recv", "nth": k, "what": "kbd"} for k in case["interrupt_recv"]])
        og, orl, od = pool.get, pool.release, pool.destroy

        def g():
            o = og()
            if holder.get(id(o)) is not None:
                problems.append(("double-hand-out", "object handed to thread %s while thread %s holds it" % (_cur(), holder[id(o)])))
            holder[id(o)] = _cur()
            return o

        def rl(o, *a, **k):
            if holder.get(id(o)) not in (None, _cur()):
                problems.append(("released-by-non-holder", "thread %s releases an object that thread %s holds" % (_cur(), holder[id(o)])))
            holder[id(o)] = None
            return orl(o, *a, **k)

        def d(o, *a, **k):
            if holder.get(id(o)) not in (None, _cur()):
                problems.append(("destroyed-by-non-holder", "thread %s destroys an object that thread %s holds" % (_cur(), holder[id(o)])))
            holder[id(o)] = None
            return od(o, *a, **k)
        pool.get, pool.release, pool.destroy = g, rl, d
        limit = pool.max_size

        def on_yield(s, tid):
            lk = lock_box.get("lock")
            if lk is not None and lk.owner is None:
                objs = list(pool._free_objs) + list(pool._used_objs)
                if len(set(map(id, objs))) != len(objs):
                    problems.append(("listed-twice", "an object is listed twice in the pool (free %d, used %d)" % (len(pool._free_objs), len(pool._used_objs))))
                if len(objs) > limit:
                    problems.append(("over-max-size", "pool holds %d objects, max_size is %d" % (len(objs), limit)))

        if net is not None:
            def hook(kind, sock):
                s = S.SLock.sched
                if sock is not None and kind in ("sendall", "recv", "connect"):
                    tid = s.current
                    if getattr(sock, "io_owner", None) not in (None, tid):
                        problems.append(("concurrent-io", "threads %s and %s use socket %d at the same time (%s)" % (sock.io_owner, tid, sock.id, kind)))
                    sock.io_owner = tid
                    s.yield_point(tid)
                    sock.io_owner = None
                else:
                    s.yield_point()
            net.hook = hook

        def worker(opsl):
            def run():
                for op in opsl:
                    try:
                        if harness == "a":
                            if op == "gr":
                                o = pool.get()
                                pool.release(o)
                            elif op == "gd":
                                o = pool.get()
                                pool.destroy(o)
                            elif op == "ctx":
                                with pool.get_and_release():
                                    pass
                            elif op == "ctxfail":
                                try:
                                    with pool.get_and_release(destroy_on_fail=True):
                                        raise ValueError("boom")
                                except ValueError:
                                    pass
                            elif op == "ctxfail-release":
                                try:
                                    with pool.get_and_release(destroy_on_fail=False):
                                        raise ValueError("boom")
                                except ValueError:
                                    pass
                            elif op == "ctxdd":
                                # what PooledClient.quit() does when the quit fails: the object is destroyed inside the block, the
                                # block is left by the exception, and get_and_release destroys it once more (silently)
                                try:
                                    with pool.get_and_release(destroy_on_fail=True) as o:
                                        try:
                                            raise ValueError("boom")
                                        finally:
                                            pool.destroy(o)
                                except ValueError:
                                    pass
                            elif op == "clear":
                                pool.clear()
                        else:
                            if op == "set":
                                pc.set("k", b"v")
                            elif op in ("get", "failget"):
                                pc.get("k")
                            elif op == "setrefused":
                                try:
                                    pc.set("toolarge", b"v", noreply=False)
                                except MemcacheServerError:
                                    pass
                            elif op == "setmanyrefused":
                                try:
                                    pc.set_many({"a": b"1", "toolarge": b"2", "c": b"3"}, noreply=False)
                                except MemcacheServerError:
                                    pass
                            elif op == "quit":
                                pc.quit()
                            elif op == "shutdown":
                                pc.shutdown()
                            elif op == "version":
                                pc.version()
                            elif op == "close":
                                pc.close()
                    except RuntimeError as e:
                        if "Too many objects" not in str(e):
                            problems.append(("internal-error", "%s raised %r" % (op, e)))
                    except ConnectionResetError:
                        pass
                    except MemoryError:
                        if not case.get("creator_fails"):
                            raise
                    except KeyboardInterrupt:
                        if case.get("interrupt_recv") is None:
                            raise
                    except MemcacheError as e:
                        # (a hash client whose only server has failed says so)
                        if not (harness == "h" and "All servers seem to be down" in str(e)):
                            problems.append(("internal-error", "%s raised %r" % (op, e)))
                    except OSError as e:
                        if harness != "c" and case.get("fail_setsockopt") is None:
                            problems.append(("internal-error", "%s raised %r" % (op, e)))
                    except Exception as e:  # noqa: BLE001
                        if harness == "c":
                            continue      # close() racing with a call in flight closes a held connection: by design
                        if harness == "h" and not isinstance(e, RuntimeError):
                            # the hash client's failover bookkeeping is not part of this property (and is not safe against
                            # two threads marking one server at the same moment: KeyError from _failed_clients.pop); what is
                            # judged is the pool behind it
                            continue
                        problems.append(("internal-error", "%s raised %r" % (op, e)))
            return run

        if "preempt" in case:
            chooser = S.preemption_chooser(case["preempt"])
        else:
            chooser = S.list_chooser(case.get("choices", []))
        sc = S.Scheduler(chooser, trace_filter, on_yield=on_yield)
        S.SLock.sched = sc
        import warnings
        with warnings.catch_warnings():
            if case.get("warn_error"):
                warnings.simplefilter("error")      # the application runs with warnings turned into errors (python -W error)
            try:
                sc.run([worker(o) for o in plan], first=case.get("first", 0))
            finally:
                S.SLock.sched = None
        if sc.overrun:
            raise HarnessError("step limit exceeded in a C08 schedule")
        if not sc.deadlock and not sc.errors and not problems:
            # afterwards, with every thread done, the pool serves max_size + 1 checkouts one after the other: no slot was lost
            probe_out = []

            def probe():
                for _ in range(min(limit, 3) + 1):
                    try:
                        if harness in ("a", "h"):      # (h: the hash client may have given its only server up; the pool behind it is what is asked)
                            pool.release(pool.get())
                        else:
                            pc.get("k")
                    except RuntimeError as e:
                        probe_out.append(e)
                    except OSError:
                        pass
            if net is not None:
                net.hook = None
                net.sock_faults.clear()          # (a planned fault whose socket call never happened in this schedule is void)
            try:
                probe()
            except Exception as e:  # noqa: BLE001
                probe_out.append(e)
            if probe_out:
                problems.append(("slot-lost", "with every thread done, %d sequential checkouts in a row fail: %r" % (min(limit, 3) + 1, probe_out[:1])))
        for tid, e in sc.errors.items():
            problems.append(("internal-error", "thread %d died with %r" % (tid, e)))
        if sc.deadlock:
            problems.append(("deadlock", "no runnable thread although not every thread is done (waiting: %r)" % ({t: "lock" for t in sc.waiting},)))
        else:
            if pool._used_objs and not (harness == "c"):
                problems.append(("used-not-empty", "%d object(s) still checked out when every thread is done" % len(pool._used_objs)))
            free_ids = {id(o) for o in pool._free_objs}
            for o in created:
                n_removed = sum(1 for r in removed if r is o)
                if id(o) in free_ids:
                    if n_removed:
                        problems.append(("removed-but-listed", "an object is idle in the pool although after_remove ran for it"))
                elif n_removed != 1 and not (harness == "c" and id(o) in {id(x) for x in pool._used_objs}):
                    problems.append(("after-remove-count", "an object that left the pool had after_remove invoked %d times" % n_removed))
            if len(free_ids) > limit:
                problems.append(("over-max-size", "pool ends with %d idle objects, max_size %d" % (len(free_ids), limit)))
            if net is not None and harness in ("b", "h"):
                idle_socks = {id(c.sock) for c in pool._free_objs if c.sock is not None}
                for s_ in net.sockets:
                    if id(s_) in idle_socks:
                        if s_.closed:
                            problems.append(("idle-socket-closed", "an idle pooled client holds a closed socket"))
                    elif s_.close_calls != 1:
                        problems.append(("socket-close-count", "socket %d was closed %d times" % (s_.id, s_.close_calls)))
        return sc, problems
    finally:
        P.time = saved_time


def check(case):
    sc, problems = run_case(case)
    if problems:
        sig, msg = problems[0]
        raise Violation([sig, case["harness"]], "%s; harness %s threads %r max_size %r schedule %s"
                        % (msg, case["harness"], case["threads"], case.get("max_size"),
                           (("first=%d preempt=%r" % (case.get("first", 0), case["preempt"])) if "preempt" in case else "choices=%r" % (case.get("choices"),)) + (" (warnings are errors)" if case.get("warn_error") else "")))
    inside = [t for t in sc.trace if t[3] is not None]
    nontrivial = bool(inside)
    labels = ["harness=" + case["harness"], "switches=%d" % min(sc.switches, 4)]
    return nontrivial, labels


def _steps(case):
    sc, _ = run_case(dict(case, preempt=[]))
    return sc.steps


def bounded_cases(tier, seed):
    """every schedule with <= k pre-emptions for every two-thread, one-operation-each configuration"""
    k = 1 if tier == "quick" else 2
    confs = []
    for a, b in itertools.combinations_with_replacement(OPS_A, 2):
        for ms in (1, 2):
            confs.append({"harness": "a", "threads": [[a], [b]], "max_size": ms, "idle": 0})
    confs.append({"harness": "a", "threads": [["gr"], ["gr"]], "max_size": 3, "idle": 5})
    confs.append({"harness": "a", "threads": [["ctx", "gr"], ["clear"]], "max_size": 2, "idle": 0})
    # idle expiry inside the schedule: the pool clock advances 3 s per reading, objects idle out after 5 s
    for ms in (1, 2):
        confs.append({"harness": "a", "threads": [["gr", "gr"], ["gr", "gr"]], "max_size": ms, "idle": 5, "tick": 3})
        confs.append({"harness": "a", "threads": [["gr", "ctx"], ["gd", "gr"]], "max_size": ms, "idle": 5, "tick": 4})
        confs.append({"harness": "b", "threads": [["set", "get"], ["get", "set"]], "max_size": ms, "idle": 5, "tick": 3})
    # a wall clock that steps backwards while connections are out or idle (idle timeout 30 s): readings 100 .. 50 .. 85
    for a in (1, 2, 3):
        for b in (1, 2):
            confs.append({"harness": "a", "threads": [["gr", "gr"], ["gr"]], "max_size": 2, "idle": 30, "clock": [100.0] * a + [50.0] * b + [85.0]})
            confs.append({"harness": "b", "threads": [["get", "set"], ["get"]], "max_size": 2, "idle": 30, "clock": [100.0] * a + [50.0] * b + [85.0]})
    confs.append({"harness": "a", "threads": [["gr", "gr"], ["gr", "gr"]], "max_size": 2, "idle": 30, "clock": [100.0, 20.0, 100.0, 55.0, 90.0, 10.0, 85.0, 130.0]})
    for a, b in itertools.combinations_with_replacement(OPS_B, 2):
        for ms in (1, 2):
            conf = {"harness": "b", "threads": [[a], [b]], "max_size": ms}
            if "failget" in (a, b):
                conf["fail_recv"] = [0]
            confs.append(conf)
    # the pool is emptied while one thread waits for it and is used again by that thread and a third one
    # an object destroyed twice by its holder (a failing quit) while another thread holds, takes or returns another one
    for other in (["gr"], ["ctx"], ["gd"], ["gr", "gr"]):
        for ms in (2, 3):
            confs.append({"harness": "a", "threads": [["ctxdd"], other], "max_size": ms, "idle": 5})
            confs.append({"harness": "a", "threads": [other, ["ctxdd", "gr"]], "max_size": ms, "idle": 0})
    confs.append({"harness": "a", "threads": [["clear"], ["gr"], ["gr"]], "max_size": 1, "idle": 0, "two_in_quick": True})
    confs.append({"harness": "a", "threads": [["clear", "gr"], ["ctx"], ["gd"]], "max_size": 1, "idle": 0})
    # a call that fails with the server's own refusal (the connection is fine) next to an ordinary call
    for ms in (1, 2):
        confs.append({"harness": "b", "threads": [["setrefused"], ["set"]], "max_size": ms, "two_in_quick": ms == 1})
        confs.append({"harness": "b", "threads": [["setmanyrefused"], ["get"]], "max_size": ms})
    confs.append({"harness": "b", "threads": [["setrefused"], ["setmanyrefused"]], "max_size": 2})
    # the other commands: shutdown (the server lets it pass), version - next to ordinary calls, with idle connections around
    for ms in (2, 3):
        confs.append({"harness": "b", "threads": [["set", "shutdown"], ["version", "version"]], "max_size": ms, "two_in_quick": ms == 2})
        confs.append({"harness": "b", "threads": [["get", "get"], ["set", "shutdown"], ["version"]], "max_size": ms})
    # a call aborted by an interruption inside recv while the other thread is inside the pool
    for ms in (1, 2):
        confs.append({"harness": "b", "threads": [["get"], ["get"]], "max_size": ms, "interrupt_recv": [0], "two_in_quick": True})
        confs.append({"harness": "b", "threads": [["set", "get"], ["get"]], "max_size": ms, "interrupt_recv": [1], "idle": 5, "tick": 3})
    # the creator fails for one checkout - also one that has just found idle objects timed out (they are closed all the same)
    for ms in (1, 2):
        confs.append({"harness": "a", "threads": [["gr", "gr"], ["gr"]], "max_size": ms, "idle": 5, "tick": 3, "creator_fails": [1]})
        if tier == "thorough":
            confs.append({"harness": "a", "threads": [["gr", "gr", "gr"], ["gr", "gr"]], "max_size": ms, "idle": 5, "tick": 4, "creator_fails": [2]})
    confs.append({"harness": "a", "threads": [["gr", "ctx"], ["gd", "gr"]], "max_size": 2, "idle": 5, "tick": 6, "creator_fails": [1, 3]})
    confs.append({"harness": "a", "threads": [["gr"], ["gr"]], "max_size": 2, "idle": 0, "creator_fails": [0]})
    # TCP keepalive configured, and one of its socket options refused on an established connection
    for ms in (1, 2):
        confs.append({"harness": "b", "threads": [["get"], ["set"]], "max_size": ms, "keepalive": True, "fail_setsockopt": [ms], "two_in_quick": ms == 2})
    confs.append({"harness": "b", "threads": [["get", "get"], ["set"]], "max_size": 2, "keepalive": True, "fail_setsockopt": [3, 4]})
    # pooled objects that are falsy (an object pool holds whatever its creator returns; a client_class may define __len__)
    for ms in (1, 2):
        confs.append({"harness": "a", "threads": [["gr", "gr"], ["gr"]], "max_size": ms, "idle": 0, "falsy": True})
        confs.append({"harness": "b", "threads": [["set", "get"], ["get"]], "max_size": ms, "falsy": True})
    confs.append({"harness": "a", "threads": [["ctx", "gd"], ["gr", "clear"]], "max_size": 2, "idle": 5, "tick": 3, "falsy": True})
    # a HashClient(use_pooling=True) shared by two threads (the hash client's own code is pre-empted too)
    for ms in (1, 2):
        confs.append({"harness": "h", "threads": [["set"], ["get"]], "max_size": ms})
        confs.append({"harness": "h", "threads": [["get"], ["failget"]], "max_size": ms, "fail_recv": [0]})
        confs.append({"harness": "h", "threads": [["failget", "get"], ["set"]], "max_size": ms, "fail_recv": [0], "retry_attempts": 0})
    confs.append({"harness": "h", "threads": [["set", "get"], ["get", "set"]], "max_size": 2, "idle": 5, "tick": 3})
    confs.append({"harness": "c", "threads": [["set"], ["close"]], "max_size": 2})
    confs.append({"harness": "c", "threads": [["set"], ["close"]], "max_size": 2, "warn_error": True})
    confs.append({"harness": "c", "threads": [["get", "set"], ["close"]], "max_size": 1, "warn_error": True})
    confs.append({"harness": "a", "threads": [["gr"], ["clear"]], "max_size": 2, "idle": 0, "warn_error": True})
    confs.append({"harness": "a", "threads": [["ctx", "gr"], ["clear"], ["gd"]], "max_size": 2, "idle": 0, "warn_error": True})
    confs.append({"harness": "b", "threads": [["set"], ["quit"]], "max_size": 2, "warn_error": True})
    confs.append({"harness": "c", "threads": [["get"], ["close"]], "max_size": 1})
    core = [("a", ["gr"], ["gr"], 1), ("a", ["gd"], ["gr"], 1), ("a", ["gr"], ["ctxfail"], 1), ("a", ["gr"], ["clear"], 1),
            ("b", ["quit"], ["set"], 2), ("b", ["set"], ["set"], 1), ("b", ["get"], ["failget"], 2)]
    for conf in confs:
        if any(conf["harness"] == h and sorted(conf["threads"]) == sorted([a, b]) and conf["max_size"] == ms for h, a, b, ms in core):
            conf["two_in_quick"] = True
    for conf in confs:
        for first in ((0,) if (conf["threads"][0] == conf["threads"][-1] and len(conf["threads"]) == 2) or len(conf["threads"]) == 3 else (0, 1)):   # symmetric: one start order
            base = dict({k_: v for k_, v in conf.items() if k_ != "two_in_quick"}, first=first)
            n = _steps(base) + 2
            yield dict(base, preempt=[])
            for p in range(1, n):
                yield dict(base, preempt=[p])
            if k >= 2:
                stride = 1 if n < 400 else 3
                for p1 in range(1, n, stride):
                    for p2 in range(p1 + 1, n, stride):
                        yield dict(base, preempt=[p1, p2])
            elif conf.get("two_in_quick"):
                # quick tier: two pre-emptions for a few core configurations (all pairs for the object-pool harness,
                # every first point x every 8th second point for the pooled-client harness)
                stride = 1 if conf["harness"] == "a" else 18
                for p1 in range(1, n):
                    for p2 in range(p1 + 1 + (p1 % stride), n, stride):
                        yield dict(base, preempt=[p1, p2])


def random_strategy(tier):
    choices = st.lists(st.sampled_from([0] * 9 + [1, 2]), max_size=900)
    a = st.fixed_dictionaries({"harness": st.just("a"), "threads": st.lists(st.lists(st.sampled_from(OPS_A), min_size=1, max_size=3), min_size=2, max_size=3),
                               "max_size": st.sampled_from([1, 2, 3]), "idle": st.sampled_from([0, 5]), "tick": st.sampled_from([0, 0, 2, 3, 6]),
                               "choices": choices, "first": st.integers(0, 2)})
    b = st.fixed_dictionaries({"harness": st.just("b"), "threads": st.lists(st.lists(st.sampled_from(OPS_B), min_size=1, max_size=3), min_size=2, max_size=3),
                               "max_size": st.sampled_from([1, 2]), "fail_recv": st.lists(st.integers(0, 5), max_size=2, unique=True), "choices": choices,
                               "first": st.integers(0, 2), "idle": st.sampled_from([0, 0, 5]), "tick": st.sampled_from([0, 3, 6])})
    c = st.fixed_dictionaries({"harness": st.just("c"), "threads": st.lists(st.lists(st.sampled_from(OPS_B), min_size=1, max_size=2), min_size=1, max_size=2).map(
        lambda t: t + [["close"]]), "max_size": st.sampled_from([1, 2]), "choices": choices, "first": st.integers(0, 2)})
    h = st.fixed_dictionaries({"harness": st.just("h"), "threads": st.lists(st.lists(st.sampled_from(["set", "get", "failget", "quit"]), min_size=1, max_size=3), min_size=2, max_size=3),
                               "max_size": st.sampled_from([1, 2]), "fail_recv": st.lists(st.integers(0, 5), max_size=2, unique=True), "choices": choices,
                               "first": st.integers(0, 2), "idle": st.sampled_from([0, 0, 5]), "tick": st.sampled_from([0, 3, 6]), "retry_attempts": st.sampled_from([0, 1, 2])})
    falsy = st.one_of(a, b).flatmap(lambda d: st.just(dict(d, falsy=True)))
    return st.one_of(a, b, b, c, h, falsy)


# ---- a pool that grew large ----------------------------------------------------------------------------------------------

def large_pool_cases(tier, seed):
    for size in (1500, 3000) if tier == "quick" else (1500, 3000, 12000):
        for idle in (0, 5):
            for how in ("expire-all", "expire-half", "clear", "destroy-all"):
                yield {"size": size, "idle": idle, "how": how}


def check_large_pool(case):
    """a burst had `size` connections checked out at once (threads, greenlets); they come back, some or all idle out together, and
    the pool is used again: no internal error, every object that left the pool was removed exactly once, none is lost"""
    size, idle, how = case["size"], case["idle"], case["how"]
    created, removed = [], []
    saved = P.time
    clk = _ConstTime(1000.0)
    P.time = clk
    try:
        def mk():
            o = Obj()
            created.append(o)
            return o
        desc = "pool of %d objects (idle_timeout %r), %s" % (size, idle, how)

        class OneThreadLock:
            """the pool's lock when a single thread uses it: acquiring it while it is held can never succeed"""
            held = False

            def acquire(self, blocking=True, timeout=-1):
                if self.held:
                    if not blocking:
                        return False
                    raise Violation(["large-pool", "deadlock"], "the pool acquires its lock while it holds it - with threading.Lock this blocks for ever: %s" % desc)
                self.held = True
                return True

            def release(self):
                if not self.held:
                    raise RuntimeError("release unlocked lock")
                self.held = False

            __enter__ = acquire

            def __exit__(self, *a):
                self.release()
        pool = P.ObjectPool(mk, after_remove=removed.append, max_size=size, idle_timeout=idle, lock_generator=OneThreadLock)
        try:
            objs = [pool.get() for _ in range(size)]
            half = size // 2
            for o in objs[:half]:
                pool.release(o)
            clk.t += 3
            for o in objs[half:]:
                (pool.destroy if how == "destroy-all" else pool.release)(o)
            if how == "expire-all":
                clk.t += idle + 1
            elif how == "expire-half":
                clk.t += idle - 2
            if how == "clear":
                pool.clear()
            o = pool.get()
            pool.release(o)
            for _ in range(5):
                pool.release(pool.get())
        except Violation:
            raise
        except Exception as e:  # noqa: BLE001
            raise Violation(["large-pool", "raises", type(e).__name__], "%r escaped: %s" % (e, desc))
        free_ids = {id(x) for x in pool._free_objs}
        for x in created:
            n = sum(1 for r in removed if r is x)
            if (id(x) in free_ids and n) or (id(x) not in free_ids and n != 1):
                raise Violation(["large-pool", "after-remove-count"], "an object is %s and had after_remove invoked %d times: %s" % ("idle in the pool" if id(x) in free_ids else "gone from the pool", n, desc))
        if pool._used_objs:
            raise Violation(["large-pool", "used-not-empty"], "%d objects still checked out: %s" % (len(pool._used_objs), desc))
    finally:
        P.time = saved
    return True, ["large-pool", how]


PARTS = [
    Part("a-pool-that-grew-large", "enum", check_large_pool, cases=large_pool_cases, shards={"quick": 8, "thorough": 12}, exhaustive=True),
    Part("preemption-bounded", "enum", check, cases=bounded_cases, exhaustive=True, distinct_by_construction=True,
         shards={"quick": 16, "thorough": 16}),
    Part("random-schedules", "hyp", check, strategy=random_strategy,
         examples={"quick": 150, "thorough": 3000}, shards={"quick": 6, "thorough": 16}),
]

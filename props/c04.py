"""C04 - what is stored is what is fetched: values and keys survive the round trip."""
import json

from hypothesis import strategies as st

from props import c15
from vlib import mcserver
from vlib.harness import Env
from vlib.mcserver import Item
from vlib.runner import Part, Violation

from pymemcache import serde as S

PROPERTY = "C04"
LEVEL = "exploration"
# parts repeated in a child interpreter started with -O and with warnings turned into errors (vlib/runner.py, MODES)
MODE_PARTS = {"OW": ['grid']}
RULE = ("case = (client kind in Client/PooledClient/single-server HashClient (pooled or not), configuration {prefix, "
        "encoding, allow_unicode_keys, serde in none/custom-json/pickle(p)/compressed}, 1-5 items with legal keys "
        "(bytes without forbidden bytes, ASCII str, UTF-8 str when enabled; distinct on the wire) and values (arbitrary "
        "bytes incl. CR LF/END/VALUE lines, sizes 0,1,4094..4098,8190..8194,65536,1000000; str; int; picklable objects), "
        "store operation in set/add/replace/cas/set_many (noreply on/off), fetch operation in get/gets/gat/gats/"
        "get_many/gets_many with the key collection passed as list, tuple, set, dict view or one-shot iterator, plus "
        "absent keys in the request; reply delivery follows a drawn piece-size list). Oracle: round trip - the fetch "
        "returns exactly the bytes (no serde: str/int as their encoded text) or an equal value of identical type "
        "(serde); multi-key results contain exactly the requested keys the server holds, each under the caller's own "
        "key object with that key's value; every command on the wire carries prefix+key and no returned key carries "
        "the prefix. Twins (consecutive items of different type with byte-identical serialized payload, around the compression threshold) are stored through one client and one serializer object; optionally the same items are fetched again under the other spelling (str <-> bytes) of their keys and then under the first spelling again, each answer keyed by that call's own key objects. Optionally the object has a past before the store: its connection was closed, or its server was away long enough to be given up and came back. Non-trivial: the value contains CR LF or is >= 4094 bytes, or the fetch is multi-key with >= 2 "
        "present keys, or a prefix is configured, or the key collection is not a list. Legacy spellings: the same serializer handed over as serializer=/deserializer= functions, and a text cache configured with a deserializer function alone. Stacks around a subclass that seals values in and unseals them out, with the dict-style API as store and fetch operation; values whose pickling serializes another value through the same serializer object; key collections that can be iterated once without being their own iterator. The server may answer in a dialect that says the same thing (one or two blanks or a tab in the VALUE line, a trailing blank, items in another order)."
        + ' Every other single-key fetch names a default for a miss; a family of stored values that look like a miss (None, 0, False, empty text / bytes / containers) is read through get / gat / gets / gats / item syntax / get_many.'
        + ' Every number of keys: one multi-key fetch of n keys for every n from 1 to 520 (thorough 2100, and round numbers up to 16384), stored with set_many (noreply on/off by n); fetch, key collection type, stack, prefix and reply segmentation rotate with n; every key comes back exactly once with its own value.')
MANIFEST = {
    "category": "exploration",
    "technique": "Hypothesis-generated round trips through a memcached model behind a fake socket layer (round-trip oracle, wire-log invariants), with an enumerated grid of value sizes x serializers x key-collection types",
    "text": "Generated (key, value, configuration) batches are stored through the real client into a faithful server model and fetched back through every read operation, with reply streams cut into drawn pieces; values must come back bit-for-bit (or equal with identical type under a serializer), multi-key answers must be keyed by the caller's own key objects, and the server-side log must show the prefix on every command. Random exploration plus a systematic grid over the sizes around the 4096-byte receive buffer, serializers and key-collection types.",
    "note": "Two spellings of one wire key in one call and duplicate keys are outside the domain; item size stays below the model's 1 MiB limit.",
    "design_ref": "DESIGN.md 3/C04",
}
ASSUMPTIONS = [
    "vlib/mcserver.py stores and returns data blocks verbatim like memcached",
    "keys in one batch are distinct on the wire; one spelling (str or bytes) per key",
]


class JsonSerde:
    def serialize(self, key, value):
        if isinstance(value, bytes):
            return value, 0
        if isinstance(value, str):
            return value.encode("utf-8"), 1
        return json.dumps(value), 2          # a str payload: the client has to encode it

    def deserialize(self, key, value, flags):
        if flags == 0:
            return value
        if flags == 1:
            return value.decode("utf-8")
        return json.loads(value)


class FalsyJsonSerde(JsonSerde):
    """a serializer object that is falsy (a codec registry with no extra codec registered: len() == 0)"""

    def __len__(self):
        return 0


def make_serde(spec):
    if spec is None:
        return None
    if spec[0] == "json":
        return JsonSerde()
    if spec[0] == "falsy-json":
        return FalsyJsonSerde()
    if spec[0] == "pickle":
        return S.PickleSerde(spec[1])
    if spec[0] == "compressed":
        return S.CompressedSerde(min_compress_len=spec[1])
    if spec[0] == "compressed-default":
        return S.compressed_serde
    raise ValueError(spec)


def wire_of_key(key, cfg):
    p = cfg.get("key_prefix", b"")
    p = p.encode("ascii") if isinstance(p, str) else p
    k = key.encode("utf-8" if cfg.get("allow_unicode_keys") else "ascii") if isinstance(key, str) else key
    return p + k


def expected_value(v, cfg, spec):
    if spec is not None and spec[0] == "text-deserializer":
        return v if isinstance(v, str) else str(v) if not isinstance(v, bytes) else v.decode(cfg.get("encoding", "ascii"))
    if spec is None:
        if isinstance(v, bytes):
            return v
        return str(v).encode(cfg.get("encoding", "ascii"))
    return v


class _Miss:
    def __repr__(self):
        return "<the caller's default for a miss>"


_MISS = _Miss()


def check(case):
    from vlib.harness import virtual_time
    env = Env(pieces=case.get("pieces") or None)
    try:
        with virtual_time(env.clock):
            return _check(case, env)
    finally:
        c15.Nesting.hook = None


def _check(case, env):
    kind, cfg, spec = case["kind"], dict(case["cfg"]), case.get("serde")
    if case.get("dialect"):
        # the server answers in a dialect of the protocol that says the same thing (blanks or a tab where one blank is usual,
        # items in another order): what was stored is what is fetched all the same
        for srv_ in env.servers:
            srv_.dialect = set(case["dialect"])
    items = [(k, c15.build(vd)) for k, vd in case["items"]]
    absent = list(case.get("absent", ()))
    srv = env.server
    kw = dict(cfg)
    if spec is not None and spec[0] == "text-deserializer":
        # a text cache in the legacy spelling: no serializer (str values are encoded by the client), only a function that
        # decodes what comes back
        enc_ = cfg.get("encoding", "ascii")
        sd = None
        kw["deserializer"] = lambda key, value, flags: value.decode(enc_)
    else:
        sd = make_serde(spec)
    if sd is not None:
        # (a value of the Nesting kind serializes another value through the same serializer object while it is being pickled)
        c15.Nesting.hook = lambda other: sd.serialize("another-key", other)
        if case.get("serde_as") == "functions":
            # the same serializer handed over as the two legacy functions
            kw["serializer"], kw["deserializer"] = sd.serialize, sd.deserialize
        else:
            kw["serde"] = sd
    if case.get("client_class"):
        # the stack is built around a Client subclass that seals values on the way in and unseals them on the way out
        from vlib import subclasses
        kw["client_class"] = subclasses.CLIENT_CLASSES[case["client_class"]]
        kw["client_class_how"] = case.get("client_class_how", "assign")
    c = env.client(kind, **kw)
    desc = "%s cfg=%r serde=%r%s store=%s fetch=%s coll=%s keys=%r" % (
        kind, cfg, spec, " (as serializer=/deserializer= functions)" if case.get("serde_as") == "functions" else "", case["store"], case["fetch"], case.get("coll"), [k if len(k) < 30 else (k[:10], len(k)) for k, _ in items])
    nr = case.get("noreply", False)

    def call(fn, *a, **k):
        r = env.call(fn, *a, **k)
        if r[0] == "exc":
            raise Violation(["raises", type(r[1]).__name__, getattr(fn, "__name__", "?")], "%s raised %r: %s" % (getattr(fn, "__name__", fn), r[1], desc))
        return r[1]

    ev = case.get("event")
    if ev:
        # the object has a past: its connection was closed, or its server went away long enough to be given up (by a
        # HashClient: marked dead) and came back - what is stored and fetched from here on round-trips like before
        env.call(c.get, "warm-up")
        if ev == "close":
            c.close()
        elif ev == "outage":
            srv.down = "refused"
            for _ in range(5):
                env.call(c.get, "probe")
                env.clock.advance(1.5)
            srv.down = None
            env.clock.advance(61)
            env.call(c.get, "probe")
        srv.log.clear()
    for a in case.get("stats_first", ()):
        # `stats <arg>` goes through the same key validation with an EMPTY prefix; it must not disturb later key commands
        r0 = env.call(c.stats, a)
        sl = [e for e in srv.log if e.get("verb") == b"stats"]
        want_arg = a.encode() if isinstance(a, str) else a
        if not sl or sl[-1]["args"] != [want_arg]:
            raise Violation(["stats-arg"], "stats(%r) reached the server as %r: %s" % (a, sl[-1:] , desc))
    st_op = case["store"]
    if st_op == "set_many":
        failed = call(c.set_many, {k: v for k, v in items}, noreply=nr)
        if failed:
            raise Violation(["set_many-failed"], "set_many reported failed keys %r: %s" % (failed, desc))
    else:
        for k, v in items:
            wk = wire_of_key(k, cfg)
            if st_op in ("replace", "cas"):
                srv.store[wk] = Item(b"old", 0, 0, srv._next_cas(), srv.clock.now)
            if st_op == "cas":
                tok = call(c.gets, k)[1]
                ok = call(c.cas, k, v, tok, noreply=nr)
            elif st_op == "setitem":
                call(c.__setitem__, k, v)          # c[k] = v
                ok = True
            else:
                ok = call(getattr(c, st_op), k, v, noreply=nr)
            if ok is not True:
                raise Violation(["store-not-ok", st_op], "%s returned %r: %s" % (st_op, ok, desc))
    # what the server holds must be under the prefixed keys only
    want_wire = {wire_of_key(k, cfg) for k, _ in items}
    if set(srv.store) != want_wire:
        raise Violation(["server-keys"], "server holds keys %r, expected %r: %s" % (sorted(srv.store)[:5], sorted(want_wire)[:5], desc))
    if srv.errors:
        raise Violation(["server-parse-errors"], "server logged %r: %s" % (srv.errors[:2], desc))

    f_op = case["fetch"]
    exp = {i: expected_value(v, cfg, spec) for i, (k, v) in enumerate(items)}

    def same(a, b):
        return c15.same(a, b)

    if f_op in ("get", "gets", "gat", "gats", "getitem"):
        for i, (k, v) in enumerate(items):
            # (every other fetch names a default for a miss: a hit returns what was stored, whatever that is - None, 0, b"" too)
            if f_op == "get":
                r = call(c.get, k) if i % 3 == 0 else call(c.get, k, default=_MISS) if i % 3 == 1 else call(c.get, k, _MISS)
            elif f_op == "getitem":
                r = call(c.__getitem__, k)          # c[k]
            elif f_op == "gat":
                r = call(c.gat, k, expire=100) if i % 2 else call(c.gat, k, expire=100, default=_MISS)
            else:
                if i % 2:
                    r = call(getattr(c, f_op), k) if f_op == "gets" else call(c.gats, k, expire=100)
                else:
                    r = call(c.gets, k, default=_MISS, cas_default=_MISS) if f_op == "gets" else call(c.gats, k, expire=100, default=_MISS, cas_default=_MISS)
                if not (isinstance(r, tuple) and len(r) == 2 and isinstance(r[1], bytes) and r[1].isdigit()):
                    raise Violation(["cas-shape", f_op], "%s returned %r: %s" % (f_op, _short(r), desc))
                r = r[0]
            if not same(r, exp[i]):
                raise Violation(["value-differs", f_op, type(v).__name__], "%s(%r) returned %s, stored %s: %s" % (f_op, k[:30], _short(r), _short(exp[i]), desc))
        for k in absent:
            r = call(c.get, k)
            if r is not None:
                raise Violation(["absent-found"], "get(%r) of a key never stored returned %s: %s" % (k, _short(r), desc))
    else:
        req = [k for k, _ in items]
        # interleave absent keys
        for j, a in enumerate(absent):
            req.insert(min(len(req), 2 * j), a)
        coll = case.get("coll", "list")
        if coll == "list":
            arg = list(req)
        elif coll == "tuple":
            arg = tuple(req)
        elif coll == "set":
            arg = set(req)
        elif coll == "wrapper":
            from vlib.ops import OneShot
            arg = OneShot(req)
        elif coll == "dictview":
            arg = {k: None for k in req}.keys()
        elif coll == "iter":
            arg = iter(list(req))
        elif coll == "generator":
            arg = (k for k in list(req))
        else:
            raise ValueError(coll)
        r = call(getattr(c, f_op), arg)
        if not isinstance(r, dict):
            raise Violation(["multi-shape", f_op], "%s returned %s: %s" % (f_op, _short(r), desc))
        want_keys = [k for k, _ in items]
        if len(r) != len(want_keys) or any(k not in r for k in want_keys):
            raise Violation(["multi-keyset", f_op, coll], "%s over a %s returned keys %r, expected %r: %s" % (f_op, coll, _short(list(r)), _short(want_keys), desc))
        for i, (k, v) in enumerate(items):
            if not any(rk is k for rk in r):
                # equal but not the caller's object: tolerated only for objects Python may intern
                rk = next(x for x in r if x == k)
                if type(rk) is not type(k) or len(k) > 1:      # 0/1-length str and bytes are shared singletons in CPython
                    raise Violation(["multi-key-object", f_op], "%s returned key %r (%s), which is not the caller's own key object %r (%s): %s" % (f_op, rk, type(rk).__name__, k, type(k).__name__, desc))
            got = r[k]
            if f_op == "gets_many":
                if not (isinstance(got, tuple) and len(got) == 2 and isinstance(got[1], bytes) and got[1].isdigit()):
                    raise Violation(["cas-shape", f_op], "%s value %r: %s" % (f_op, _short(got), desc))
                got = got[0]
            if not same(got, exp[i]):
                raise Violation(["value-differs", f_op, type(v).__name__], "%s[%r] = %s, stored %s: %s" % (f_op, k[:30], _short(got), _short(exp[i]), desc))
    # the same items asked for under the other spelling of their keys (str <-> bytes), then under the first one again:
    # every answer is keyed by the key objects of THAT call
    if case.get("respell"):
        def other(k):
            try:
                return k.decode("ascii") if isinstance(k, bytes) else k.encode("ascii")
            except UnicodeError:
                return None
        pairs = [(k, other(k)) for k, _ in items]
        if all(o is not None for _k, o in pairs):
            multi_op = f_op if f_op in ("get_many", "gets_many") else "get_many"
            for rnd, pick in enumerate((1, 0, 1, 0)):
                ks = [pr[pick] for pr in pairs]
                if f_op in ("get_many", "gets_many") or rnd >= 2:
                    r = call(getattr(c, multi_op), list(ks))
                    if sorted(map(repr, r)) != sorted(map(repr, ks)):
                        raise Violation(["respelled-keyset", multi_op], "%s(%r) (round %d, the same items had been fetched under the other spelling before) returned keys %r: %s"
                                        % (multi_op, _short(ks), rnd, _short(list(r)), desc))
                    vals = [r[k][0] if multi_op == "gets_many" else r[k] for k in ks]
                else:
                    vals = [call(c.get, k) for k in ks]
                for i, got in enumerate(vals):
                    if not same(got, exp[i]):
                        raise Violation(["respelled-value", f_op], "fetching %r (round %d; the other spelling of this key had been used on the same object before) returned %s, stored %s: %s"
                                        % (ks[i][:30], rnd, _short(got), _short(exp[i]), desc))
    for a in case.get("stats_after", ()):
        env.call(c.stats, a)
        sl = [e for e in srv.log if e.get("verb") == b"stats"]
        want_arg = a.encode() if isinstance(a, str) else a
        if not sl or sl[-1]["args"] != [want_arg]:
            raise Violation(["stats-arg"], "stats(%r) after key commands reached the server as %r: %s" % (a, sl[-1:], desc))
    # wire: every key-bearing command carries the prefix
    p = cfg.get("key_prefix", b"")
    p = p.encode("ascii") if isinstance(p, str) else p
    allowed = want_wire | {wire_of_key(a, cfg) for a in absent}
    for e in srv.log:
        ks = e.get("keys") or ([e["key"]] if "key" in e else [])
        for k in ks:
            if k not in allowed:
                raise Violation(["wire-key"], "command %r carries key %r which is not prefix+key of any requested key: %s" % (e["verb"], k[:40], desc))
    if env.net.flags:
        raise Violation(["net-flags"], "fake network flagged %r: %s" % (env.net.flags[:2], desc))
    big = any(isinstance(e, bytes) and (b"\r\n" in e or len(e) >= 4094) for e in exp.values())
    multi = f_op in ("get_many", "gets_many") and len(items) >= 2
    nontrivial = big or multi or bool(p) or case.get("coll", "list") != "list"
    labels = [kind, "store=" + st_op, "fetch=" + f_op, "serde=" + (spec[0] if spec else "none")]
    if f_op.endswith("many"):
        labels.append("coll=" + case.get("coll", "list"))
    if big:
        labels.append("big-or-crlf")
    return nontrivial, labels


def _short(x):
    s = repr(x)
    return s if len(s) < 160 else s[:80] + "...(%d chars)..." % len(s) + s[-40:]


# ---- generation ---------------------------------------------------------------

FORBIDDEN = b" \t\r\n\x0b\x0c\x00"
LEGAL_BYTES = bytes(b for b in range(256) if b not in FORBIDDEN)


def key_strategy(unicode_ok, maxlen):
    maxlen = max(1, maxlen)
    bkey = st.binary(min_size=1, max_size=min(40, maxlen)).map(lambda b: bytes(LEGAL_BYTES[x % len(LEGAL_BYTES)] for x in b))
    skey = st.text(st.characters(min_codepoint=0x21, max_codepoint=0x7E), min_size=1, max_size=min(40, maxlen))
    longk = st.just(b"L" * maxlen)
    opts = [bkey, skey, longk, st.sampled_from([b"k", "k", b"END", "VALUE", b"0", "key:1"])]
    if unicode_ok:
        ukey = st.text(st.characters(min_codepoint=0x21, exclude_categories=["Cs", "Zs", "Zl", "Zp", "Cc"]), min_size=1, max_size=12).filter(
            lambda s: len(s.encode("utf-8")) <= maxlen and not any(b in FORBIDDEN for b in s.encode("utf-8")))
        opts.append(ukey)
    return st.one_of(*opts)


def bytes_value():
    tricky = st.sampled_from([b"\r\n", b"END\r\n", b"VALUE k 0 1\r\n", b"\r", b"STORED\r\n", b"x" * 100, b""])
    sized = st.sampled_from([0, 1, 4090, 4094, 4095, 4096, 4097, 4098, 8190, 8192, 8194]).flatmap(
        lambda n: st.tuples(st.just("noise"), st.just(n), st.integers(0, 3)))
    return st.one_of(st.binary(max_size=50).map(lambda b: ("bytes", b)),
                     st.lists(st.one_of(tricky, st.binary(max_size=5)), max_size=8).map(lambda l: ("bytes", b"".join(l))),
                     sized)


@st.composite
def case_strategy(draw, tier="quick"):
    kind = draw(st.sampled_from(["client", "pooled", "hash", "hash-pooled"]))
    unicode_ok = draw(st.booleans())
    prefix = draw(st.one_of(st.just(b""), st.just(b"pfx:"), st.just("sp_"), st.binary(min_size=1, max_size=6).map(
        lambda b: bytes(LEGAL_BYTES[x % len(LEGAL_BYTES)] for x in b)), st.just(b"P" * 200)))
    enc = draw(st.sampled_from(["ascii", "utf-8", "latin-1"]))
    cfg = {"key_prefix": prefix, "allow_unicode_keys": unicode_ok, "encoding": enc}
    spec = draw(st.sampled_from([None, None, ("json",), ("pickle", 0), ("pickle", 2), ("pickle", 5), ("compressed", 10), ("compressed-default",)]))
    n = draw(st.integers(1, 5))
    keys = draw(st.lists(key_strategy(unicode_ok, 250 - len(prefix)), min_size=n, max_size=n,
                         unique_by=lambda k: k.encode("utf-8") if isinstance(k, str) else k))
    if spec is None:
        textv = st.text(max_size=20) if enc == "utf-8" else (st.text(st.characters(max_codepoint=0xFF), max_size=20) if enc == "latin-1"
                                                             else st.text(st.characters(max_codepoint=0x7F), max_size=20))
        val = st.one_of(bytes_value(), bytes_value(), textv.map(lambda s: ("str", s)), st.integers(-10 ** 30, 10 ** 30).map(lambda i: ("int", i)))
    elif spec[0] == "json":
        val = st.one_of(bytes_value(), st.text(max_size=20).map(lambda s: ("str", s)), st.integers(-10 ** 9, 10 ** 9).map(lambda i: ("int", i)),
                        st.lists(st.integers(0, 9).map(lambda i: ("int", i)), max_size=4).map(lambda l: ("list", l)))
    else:
        val = st.one_of(bytes_value(), c15.value_strategy())
    items = [[k, draw(val)] for k in keys]
    absent = draw(st.lists(st.sampled_from([b"absent-1", "absent-2", b"nope"]), max_size=2, unique=True))
    wire = {(k.encode("utf-8") if isinstance(k, str) else k) for k in keys}
    absent = [a for a in absent if (a.encode() if isinstance(a, str) else a) not in wire]
    store = draw(st.sampled_from(["set", "set", "add", "replace", "cas", "set_many"]))
    fetch = draw(st.sampled_from(["get", "gets", "gat", "gats", "get_many", "get_many", "gets_many"]))
    coll = draw(st.sampled_from(["list", "tuple", "set", "dictview", "iter", "generator", "wrapper"]))
    pieces = draw(st.one_of(st.none(), st.lists(st.sampled_from([1, 2, 3, 7, 13, 4095, 4096, 1 << 30]), min_size=1, max_size=6)))
    return {"kind": kind, "cfg": cfg, "serde": spec, "items": items, "absent": absent, "store": store, "fetch": fetch,
            "coll": coll, "pieces": pieces, "noreply": draw(st.booleans()), "respell": draw(st.booleans()),
            "event": draw(st.sampled_from([None, None, "close", "outage"])),
            "serde_as": draw(st.sampled_from(["object", "object", "functions"])),
            "dialect": draw(st.sampled_from([None, None, None, ["value-trailing-blank"], ["value-tab"], ["value-double-blank"], ["reverse"]]))}


def grid_cases(tier, seed):
    sizes = [0, 1, 4094, 4096, 4098, 8192, 65536] + ([1000000] if tier == "thorough" else [])
    i = 0
    for spec in (None, ("json",), ("pickle", 0), ("pickle", 5), ("compressed", 10), ("compressed-default",)):
        for n in sizes:
            for kind in ("client", "pooled", "hash"):
                for fetch in ("get", "gets", "get_many", "gats"):
                    i += 1
                    if tier == "quick" and n >= 65536 and (i % 4):
                        continue
                    vd = ("noise", n, i % 3) if i % 2 else ("bytes", (b"ab\r\nEND\r\n" * (n // 9 + 1))[:n])
                    yield {"kind": kind, "cfg": {"key_prefix": b"g:" if i % 3 else b"", "allow_unicode_keys": False, "encoding": "ascii"},
                           "serde": spec, "items": [[b"k1", vd], ["k2", ("bytes", b"other")]], "absent": [b"zz"],
                           "store": ["set", "set_many", "add", "cas"][i % 4], "fetch": fetch,
                           "coll": ["list", "tuple", "set", "dictview", "iter", "generator"][i % 6],
                           "pieces": [None, [4096], [1, 4095], [4095, 2], [7]][i % 5] if n < 65536 else None, "noreply": bool(i & 1)}
    # keys spelled like stats sub-commands on a prefixed client, with `stats <that word>` before / after the key commands
    for kind in ("client", "pooled"):
        for pfx in (b"ns:", "app."):
            for word in ("items", "settings", b"slabs", "sizes"):
                for when in ("stats_first", "stats_after"):
                    for fetch in ("get", "get_many", "gets"):
                        yield {"kind": kind, "cfg": {"key_prefix": pfx, "allow_unicode_keys": False, "encoding": "ascii"}, "serde": None,
                               "items": [[word, ("bytes", b"mine")], ["other", ("bytes", b"x")]], "absent": [],
                               "store": "set", "fetch": fetch, "coll": "list", "pieces": None, "noreply": False, when: [word, "settings"]}
    # twins: consecutive items of different type whose serialized payload is byte-identical (a str and its bytes, an
    # object and its own pickle kept as bytes), around the compression threshold, through one client / one serializer
    for spec, proto in ((("pickle", 0), 0), (("pickle", 5), 5), (("compressed", 10), S.DEFAULT_PICKLE_VERSION), (("compressed-default",), S.DEFAULT_PICKLE_VERSION), (("json",), None)):
        for n in (3, 12, 450, 5000):
            fams = [[("str", "x" * n), ("bytes", b"x" * n)], [("bytes", b"x" * n), ("str", "x" * n), ("bytes", b"x" * n)]]
            if proto is not None:
                fams.append([("bytearray", b"x" * n), ("bytes", b"x" * n), ("str", "\ufeff" + "x" * n)])
                obj = ("list", [("str", "ab" * n), ("int", n)])
                fams += [[obj, ("payload-of", obj, proto)], [("payload-of", obj, proto), obj], [("int", 7 ** n), ("bytes", str(7 ** n).encode()), ("str", str(7 ** n))]]
            for fi, fam in enumerate(fams):
                for kind in ("client", "pooled", "hash"):
                    for store, fetch in (("set", "get"), ("set_many", "get_many"), ("add", "gets_many")):
                        yield {"kind": kind, "cfg": {"key_prefix": b"t:" if (n + fi) % 2 else b"", "allow_unicode_keys": False, "encoding": "ascii"}, "serde": spec,
                               "items": [["k%d" % j, vd] for j, vd in enumerate(fam)], "absent": [], "store": store, "fetch": fetch, "coll": "list",
                               "pieces": None, "noreply": False}
    # stored values that look like a miss - None, 0, False, empty things - fetched by calls that name a default: a hit is a hit
    for spec in (("pickle", 0), ("pickle", 5), ("compressed", 10), ("compressed-default",), ("json",)):
        falsy = [("none",), ("int", 0), ("bool", False), ("str", ""), ("list", []), ("dict", []), ("float", 0.0)]
        if spec[0] != "json":
            falsy += [("bytes", b""), ("tuple", [])]
        for kind in ("client", "pooled", "hash", "hash-pooled"):
            for store, fetch in (("set", "get"), ("set_many", "gat"), ("add", "gets"), ("set", "gats"), ("set", "getitem"), ("set_many", "get_many")):
                if fetch == "getitem" and kind.startswith("hash"):
                    continue
                for rot in (0, 1, 2):
                    fam = falsy[rot:] + falsy[:rot]       # (which fetches name a default goes by position)
                    yield {"kind": kind, "cfg": {"key_prefix": b"f:" if rot else b"", "allow_unicode_keys": False, "encoding": "ascii"}, "serde": spec,
                           "items": [["k%d" % j, vd] for j, vd in enumerate(fam)], "absent": ["nope"], "store": store, "fetch": fetch, "coll": "list",
                           "pieces": None, "noreply": False}
    # bytes the application packed itself (a complete zlib / gzip / bz2 stream, a pickle - optionally with trailing bytes):
    # to the cache they are bytes and come back bit for bit, whatever serializer is configured
    for spec in (None, ("json",), ("pickle", 2), ("compressed", 10), ("compressed", 400), ("compressed-default",)):
        for kind in ("client", "pooled", "hash"):
            for store, fetch in (("set", "get"), ("set_many", "get_many"), ("add", "gets")):
                yield {"kind": kind, "cfg": {"key_prefix": b"z:", "allow_unicode_keys": False, "encoding": "ascii"}, "serde": spec,
                       "items": [["z1", ("packed", "zlib", b"hello world")], ["z2", ("packed", "zlib", b"payload", b"trailing")], ["z3", ("packed", "zlib", b"q" * 3000)],
                                 ["g1", ("packed", "gzip", b"hello")], ["b1", ("packed", "bz2", b"hello")], ["p1", ("packed", "pickle", b"inner")]],
                       "absent": [], "store": store, "fetch": fetch, "coll": "list", "pieces": None, "noreply": False}
    # the same items fetched under the other spelling of their keys and then under the first one again
    for kind in ("client", "pooled", "hash", "hash-pooled"):
        for pfx in (b"", b"p:"):
            for fetch in ("get", "gets", "get_many", "gets_many"):
                for keys in (["k", b"other"], [b"k"], ["a", "b", b"c"]):
                    yield {"kind": kind, "cfg": {"key_prefix": pfx, "allow_unicode_keys": False, "encoding": "ascii"}, "serde": None,
                           "items": [[k, ("bytes", b"value-of-%d" % j)] for j, k in enumerate(keys)], "absent": [], "store": "set", "fetch": fetch,
                           "coll": "list", "pieces": None, "noreply": False, "respell": True}
    # objects with a past: closed, or through an outage, before the store
    for ev in ("close", "outage"):
        for kind in ("client", "pooled", "hash", "hash-pooled"):
            for spec in (None, ("pickle", 2), ("compressed", 10), ("json",)):
                for pfx in (b"", b"life:"):
                    yield {"kind": kind, "cfg": {"key_prefix": pfx, "allow_unicode_keys": True, "encoding": "utf-8"}, "serde": spec,
                           "items": [["a", ("bytes", b"raw\r\nbytes")], [b"b", ("str", "zw\u00f6lf")], ["\u00fc", ("int", 3)], ["d", ("noise", 5000, 1)]], "absent": ["nope"],
                           "store": "set_many" if pfx else "set", "fetch": "get_many" if kind.startswith("hash") else "gets", "coll": "list", "pieces": [4096], "noreply": not pfx, "event": ev}
    # values whose pickling runs application code that serializes another value through the same serializer object
    for kind in ("client", "pooled", "hash"):
        for spec in (("pickle", 0), ("pickle", 2), ("pickle", 5), ("compressed", 10), ("compressed-default",)):
            for store, fetch in (("set", "get"), ("set_many", "get_many"), ("add", "gets")):
                yield {"kind": kind, "cfg": {"key_prefix": b"n:", "allow_unicode_keys": False, "encoding": "ascii"}, "serde": spec,
                       "items": [["n1", ("nesting", ("str", "outer"), ("list", [("int", 1), ("int", 2), ("int", 3)]))], ["n2", ("bytes", b"plain")],
                                 ["n3", ("nesting", ("bytes", b"o" * 500), ("dict", [[("str", "session"), ("str", "bob")]]))],
                                 ["n4", ("list", [("nesting", ("int", 1), ("str", "x" * 450)), ("str", "after")])]],
                       "absent": [], "store": store, "fetch": fetch, "coll": "list", "pieces": None, "noreply": False}
    # reply dialects that say the same thing
    for dia in (["value-trailing-blank"], ["value-tab"], ["value-double-blank"], ["reverse"], ["reverse", "value-double-blank"]):
        for kind in ("client", "pooled", "hash"):
            for fetch in ("get", "gets", "gat", "gats", "get_many", "gets_many"):
                for spec in (None, ("pickle", 2)):
                    yield {"kind": kind, "cfg": {"key_prefix": b"d:", "allow_unicode_keys": False, "encoding": "ascii"}, "serde": spec, "dialect": dia,
                           "items": [["a", ("bytes", b"raw\r\nbytes")], [b"b", ("bytes", b"")], ["c", ("noise", 5000, 1)]], "absent": ["nope"],
                           "store": "set", "fetch": fetch, "coll": "iter", "pieces": [4096, 7], "noreply": False}
    # the legacy spellings of a serializer: the two functions instead of the object, and a deserializer function alone
    for kind in ("client", "pooled", "hash", "hash-pooled"):
        for fetch in ("get", "gets", "gat", "gats", "get_many", "gets_many"):
            for spec in (("json",), ("pickle", 2), ("compressed", 10)):
                yield {"kind": kind, "cfg": {"key_prefix": b"", "allow_unicode_keys": False, "encoding": "ascii"}, "serde": spec, "serde_as": "functions",
                       "items": [["a", ("bytes", b"raw")], ["b", ("str", "zw\u00f6lf")], ["c", ("int", 3)], ["d", ("list", [("int", 1), ("int", 2)])]], "absent": ["nope"],
                       "store": "set_many" if fetch.endswith("many") else "set", "fetch": fetch, "coll": "list", "pieces": None, "noreply": False}
            for enc in ("utf-8", "latin-1", "ascii"):
                txt = {"utf-8": "zw\u00f6lf \u20ac", "latin-1": "zw\u00f6lf", "ascii": "twelve"}[enc]
                yield {"kind": kind, "cfg": {"key_prefix": b"txt:", "allow_unicode_keys": False, "encoding": enc}, "serde": ("text-deserializer",),
                       "items": [["a", ("str", txt)], ["b", ("str", "")], ["c", ("int", 12)]], "absent": ["nope"],
                       "store": "set", "fetch": fetch, "coll": "list", "pieces": None, "noreply": False}
    # the dict-style API next to the method API, on the plain classes and on stacks built around a Client subclass that seals values
    for kind in ("client", "pooled", "hash", "hash-pooled"):
        for cc in (None, "sealing"):
            for how in ("assign", "classattr"):
                for store in ("set", "setitem", "set_many", "add", "cas"):
                    for fetch in ("get", "getitem", "gets", "gat", "gats", "get_many", "gets_many"):
                        if kind.startswith("hash") and "item" in store + fetch:
                            continue                # HashClient offers no item syntax
                        if cc is None and (how == "classattr" or "item" not in store + fetch):
                            continue
                        yield {"kind": kind, "cfg": {"key_prefix": b"d:" if store == "set" else b"", "allow_unicode_keys": False, "encoding": "ascii"}, "serde": None,
                               "items": [["a", ("bytes", b"raw\r\nbytes")], [b"b", ("bytes", b"")], ["c", ("noise", 5000, 1)]], "absent": ["nope"],
                               "store": store, "fetch": fetch, "coll": "list", "pieces": [4096] if fetch == "get" else None, "noreply": False,
                               "client_class": cc, "client_class_how": how}
    # every key-collection type x every multi-key fetch x every client kind
    for coll in ("list", "tuple", "set", "dictview", "iter", "generator", "wrapper"):
        for fetch in ("get_many", "gets_many"):
            for kind in ("client", "pooled", "hash", "hash-pooled"):
                for pfx in (b"", b"p:"):
                    yield {"kind": kind, "cfg": {"key_prefix": pfx, "allow_unicode_keys": True, "encoding": "utf-8"}, "serde": None,
                           "items": [["a", ("bytes", b"1")], [b"b", ("str", "zwei")], ["ü", ("int", 3)]], "absent": ["nope"],
                           "store": "set_many", "fetch": fetch, "coll": coll, "pieces": [3], "noreply": False}


def key_count_cases(tier, seed):
    """every number of keys in one multi-key fetch from 1 to 520 (thorough: to 2100, and some larger round numbers): a
    client that cuts a long fetch into several commands has its seams somewhere in there, wherever it puts them"""
    top = 520 if tier == "quick" else 2100
    counts = list(range(1, top + 1)) + ([1000, 1024, 2048, 4096] if tier == "quick" else [2500, 4096, 8192, 10000, 16384, 65536 // 4])
    kinds = ("client", "pooled", "hash", "hash-pooled")
    for n in counts:
        fetch = ("get_many", "gets_many")[n % 2]
        kind = kinds[(n // 2) % 4]
        coll = ("list", "tuple", "iter", "set", "dictview")[(n // 8) % 5]
        absent = ["nope-%d" % n] if n % 3 == 0 else []
        yield {"kind": kind, "cfg": {"key_prefix": (b"", b"n:")[(n // 4) % 2], "allow_unicode_keys": False, "encoding": "ascii"}, "serde": None,
               "items": [["k%d" % j, ("bytes", b"v%d" % j)] for j in range(n)], "absent": absent, "store": "set_many", "fetch": fetch,
               "coll": coll, "pieces": None if n % 5 else [4096], "noreply": bool(n % 2)}


PARTS = [
    Part("grid", "enum", check, cases=grid_cases),
    Part("every-number-of-keys", "enum", check, cases=key_count_cases, exhaustive=True, distinct_by_construction=True),
    Part("random", "hyp", check, strategy=lambda tier: case_strategy(tier),
         examples={"quick": 300, "thorough": 10000}, shards={"quick": 6, "thorough": 16}),
]


def selftest():
    mcserver.selftest()

"""C06 - connection lifecycle: errors close, next call reconnects, no socket leaks."""
import itertools

from hypothesis import strategies as st

from vlib import faultlab, mcserver
from vlib.faultlab import interpret
from vlib.runner import Part, Violation

from pymemcache.exceptions import MemcacheError, MemcacheIllegalInputError, MemcacheUnexpectedCloseError

PROPERTY = "C06"
LEVEL = "fault_enumeration"
# parts repeated in a child interpreter started with -O and with warnings turned into errors (vlib/runner.py, MODES)
MODE_PARTS = {"OW": ['object-shutdown', 'connection-ending-calls', 'fault-position-sweep', 'refused-items']}
RULE = ("configuration = TCP with 1-3 resolved addresses (mixed families) / UNIX socket / TLS-wrapped TCP x connect_timeout, "
        "timeout in {None, 0.5, 3} x no_delay x socket_keepalive x client stack (Client, PooledClient max 1, single-server "
        "HashClient). Systematic sweep: a fault-free dry run of a cold call and a warm call lists every socket event "
        "(getaddrinfo, socket(), setsockopt, wrap_socket - failing with ssl.SSLError, OSError or the ValueError ssl raises for unusable arguments -, settimeout, connect, sendall, recv, close); one case per event x "
        "applicable error kind, and every pair of events of the cold call, each followed by two fault-free calls and "
        "close(). Random: histories of 1-6 calls with up to two faults each. Oracle (fake network lifecycle log): never "
        "more than one socket open at any event; after a call that raised, no socket is open; after a call that returned "
        "at most one, which is the client's current one; after close() every socket ever created has been closed "
        "(including ones abandoned in the address loop or before a failing wrap/setsockopt); the first fault-free call "
        "after a failure opens a fresh socket and answers correctly; connect() happens under connect_timeout and every "
        "sendall/recv under timeout; with TLS no I/O on the raw socket; if socket()/wrap fails for some resolved "
        "addresses and works for a later one the call succeeds using that address. Refused items: a batch in which the server refuses one item (too large for it, out of memory, NOT_STORED from a proxy) and answers the others, replies delivered apart or coalesced, a fault at every socket event of the exchange and on the replies that follow the refusal. Connection-ending calls (shutdown - graceful or not - on a server that does not allow it, quit, an unknown command, incr on text, refused arguments, close) once or twice in a row, before and after ordinary calls, without any fault: the connections opened afterwards are set up like the first. Object shutdown: Client / PooledClient / HashClient over three servers (pooled or not) / the ElastiCache client (pooled or not, with and without a reconfigure_nodes()) x traffic on 0, 1 or many keys x every documented way of shutting the object down (close, quit, disconnect_all), once and again after more traffic: afterwards no socket any part of the object opened is open. Non-trivial: a fault during "
        "connection establishment, or a failure followed by a successful reconnect, or more than one resolved address. Outage then shutdown: every sequence of up to 6 events (random: 16) over {a call to the first server after retry_timeout / at once, six calls over all servers, first server down / up, +70 s, a flush_all broadcast} on a HashClient (pooled or not, retry_attempts 0-3, 1-3 servers), then the server up and close / disconnect_all / quit: no socket may be left open (a quit() that raises is followed by close()). Faults at close events include interruptions (KeyboardInterrupt, SystemExit, a BaseException of another kind), passed on to the caller. Swallowed failures: Client / PooledClient with ignore_exc=True, a read (get, gets, get_many, gat, stats) on a warm or cold connection with one fault at every socket event of it; the same history is run with ignore_exc off to learn which calls fail - a call that fails there and comes back as a miss here leaves no socket open, and the next call opens a fresh one and works.")
MANIFEST = {
    "category": "fault_enumeration",
    "technique": "systematic single- and double-fault enumeration over every socket-level event of connection establishment and one exchange (positions from a fault-free dry run) x connection configurations + Hypothesis multi-call histories; lifecycle-log invariants",
    "text": "Every socket the client creates is a fake whose lifecycle (created, options, timeout in force at connect and at each I/O, wrapped, closed) is logged; faults are injected at every event of connection establishment and exchange for TCP with several resolved addresses, UNIX and TLS configurations, singly and in pairs; the log must show at most one open socket at any time, none after a failed call, none after close(), the right timeouts, and a working reconnect. Exhaustive over single and paired fault positions for the enumerated configurations.",
    "note": "ignore_exc is off except in part swallowed-failures, where which calls fail is read from a twin run of the same history with ignore_exc off; a fault in close() is swallowed by design and counts as a close.",
    "design_ref": "DESIGN.md 3/C06",
}
ASSUMPTIONS = [
    "the client's use of the socket / ssl APIs is what is checked, not the APIs themselves",
    "a close() that raises still closes the descriptor",
]

CONFIGS = [
    {"name": "tcp-1", "cfg": {}},
    {"name": "tcp-timeouts", "cfg": {"connect_timeout": 0.5, "timeout": 3}},
    {"name": "tcp-2addr-nodelay", "cfg": {"no_delay": True}, "resolves": [["inet6", "::1"], ["inet", "10.0.0.1"]]},
    {"name": "tcp-3addr", "cfg": {"timeout": 0.5}, "resolves": [["inet", "10.0.0.1"], ["inet6", "fe80::2"], ["inet", "10.0.0.3"]]},
    {"name": "tls", "cfg": {"tls": True, "timeout": 3}},
    {"name": "tls-2addr-nodelay", "cfg": {"tls": True, "no_delay": True, "connect_timeout": 3, "timeout": 0.5},
     "resolves": [["inet6", "::1"], ["inet", "10.0.0.1"]]},
    {"name": "keepalive", "cfg": {"keepalive": [2, 3, 4], "connect_timeout": 0.5}},
    {"name": "tcp-pool-idle", "cfg": {"timeout": 3}, "pool_idle_timeout": 3},
    {"name": "unix", "cfg": {"timeout": 3}, "unix": "/tmp/memcached.sock"},
    {"name": "unix-timeouts", "cfg": {"connect_timeout": 3, "timeout": 0.5}, "unix": "/var/run/mc.sock"},
]
BASE_CALLS = [{"op": {"op": "set", "key": "a", "value": b"1", "noreply": False}}, {"op": {"op": "get", "key": "a"}}]
FINAL = [{"op": {"op": "set", "key": "fin", "value": b"fv", "noreply": False}, "advance": 5}, {"op": {"op": "get", "key": "fin"}}]
LOOP_KINDS = ("socket", "wrap")


def check(case):
    cfg = case.get("cfg", {})
    kind = case["kind"]
    n_addr = len(case.get("resolves") or [1])
    state = {"prev_failed": False}
    labels = [kind, case.get("name", "cfg")]

    def where(i, call, out):
        return "call %d %r (outcome %r); history %r; %s config %r resolves %r" % (
            i, call["op"], _short(out), [(c["op"]["op"], c.get("faults")) for c in case["calls"]], kind, cfg, case.get("resolves") or case.get("unix"))

    def obs(run, i, call, out):
        net = run.env.net
        opened = net.open_sockets()
        fired = [f for f in net.fired if f["fault"].get("call") == i]
        if net.max_open > 1:
            raise Violation(["two-open-sockets", kind], "%d sockets open at once (event %r) during %s" % (net.max_open, net.max_open_at, where(i, call, out)))
        for name, at, detail in net.flags:
            if name in ("raw-io-after-tls-wrap", "io-on-closed-socket"):
                raise Violation([name, kind], "%s %r during %s" % (name, detail, where(i, call, out)))
        if out[0] == "exc":
            if not fired and call.get("may_raise") and isinstance(out[1], MemcacheError):
                # the server's own error reply (or an input error): the call fails, the connection is dropped, no fault involved
                if isinstance(out[1], MemcacheIllegalInputError):
                    state["prev_failed"] = False          # refused before any I/O: the connection is untouched
                    return
                if opened:
                    raise Violation(["socket-open-after-failed-call", kind], "socket(s) %r still open after %s" % ([s.id for s in opened], where(i, call, out)))
                state["prev_failed"] = True
                return
            if not fired:
                raise Violation(["unexpected-failure", kind, type(out[1]).__name__], "failed without any fault: %s" % where(i, call, out))
            if opened:
                raise Violation(["socket-open-after-failed-call", kind], "socket(s) %r still open after %s" % ([s.id for s in opened], where(i, call, out)))
            own = isinstance(out[1], ValueError) and any(f["fault"].get("what") == "valueerror" for f in fired)     # the TLS layer's own ValueError, passed on
            own = own or (not isinstance(out[1], Exception) and any(f["fault"].get("what") in faultlab.INTERRUPTS for f in fired))      # an interruption delivered inside close(), passed on
            if not isinstance(out[1], (OSError, MemcacheUnexpectedCloseError)) and not own and not (call.get("may_raise") and isinstance(out[1], MemcacheError)):
                raise Violation(["wrong-error", kind, type(out[1]).__name__], "socket-level fault surfaced as %r: %s" % (out[1], where(i, call, out)))
        else:
            if len(opened) > 1:
                raise Violation(["two-open-sockets", kind], "sockets %r open after %s" % ([s.id for s in opened], where(i, call, out)))
            if kind == "client" and opened and run.client.sock is not opened[0] and getattr(run.client.sock, "raw", None) is not opened[0]:
                raise Violation(["open-socket-not-current", kind], "open socket %r is not the client's current socket after %s" % (opened[0].id, where(i, call, out)))
            if state["prev_failed"] and not any(k == "socket" for k, _ in run.events_by_call[i]) and not kind.startswith("hash"):
                raise Violation(["no-fresh-socket", kind], "no new socket was created by the first call after a failure: %s" % where(i, call, out))
        # address fallback: faults only inside the address loop, fewer than there are addresses -> the call must succeed
        loop_faults = [f for f in fired if f["fault"]["kind"] in LOOP_KINDS or (f["fault"]["kind"] == "setsockopt" and not cfg.get("keepalive"))]
        if fired and len(loop_faults) == len(fired) and len(fired) < n_addr and not case.get("unix"):
            labels.append("address-fallback")
            if out[0] == "exc" and not (call.get("may_raise") and isinstance(out[1], MemcacheError)):      # (the server's own refusal is not a connection failure)
                raise Violation(["address-fallback", kind], "%d of %d resolved addresses failed at socket()/setsockopt/wrap but a later one worked, yet the call failed: %s"
                                % (len(fired), n_addr, where(i, call, out)))
        state["prev_failed"] = out[0] == "exc"
        if fired and any(f["fault"]["kind"] in ("getaddrinfo", "socket", "setsockopt", "wrap", "settimeout", "connect") for f in fired):
            if "fault-during-connect" not in labels:
                labels.append("fault-during-connect")
    run = interpret(case, obs)
    env = run.env
    # the two final fault-free calls answer correctly
    a, b = run.outcomes[-2], run.outcomes[-1]
    if a != ("ok", True) or b != ("ok", b"fv"):
        raise Violation(["no-recovery", kind], "final fault-free set/get returned %r / %r; history %r; %s config %r"
                        % (_short(a), _short(b), [(c["op"]["op"], c.get("faults")) for c in case["calls"]], kind, cfg))
    run.client.close()
    for s in env.net.sockets:
        if not s.closed:
            raise Violation(["leaked-socket", kind], "socket %d (created for %r) was never closed after close(); history %r; %s config %r resolves %r"
                            % (s.id, s.addr, [(c["op"]["op"], c.get("faults")) for c in case["calls"]], kind, cfg, case.get("resolves")))
    # timeouts in force
    ct, to = cfg.get("connect_timeout"), cfg.get("timeout")
    for s in env.net.sockets:
        if s.addr is not None and s.connect_timeout_seen != ct:
            raise Violation(["connect-timeout", kind], "connect() ran under timeout %r, configured connect_timeout is %r (%s config %r)"
                            % (s.connect_timeout_seen, ct, kind, cfg))
        for k, t in s.io_timeouts:
            if t != to:
                raise Violation(["io-timeout", kind], "%s ran under timeout %r, configured timeout is %r (%s config %r)" % (k, t, to, kind, cfg))
    if cfg.get("tls"):
        for s in env.net.sockets:
            if (s.io_timeouts or s.connected) and not s.is_tls:
                raise Violation(["tls-bypassed", kind], "connection %d did I/O without the TLS wrapper (%s config %r)" % (s.id, kind, cfg))
    reconnect = any(o[0] == "exc" for o in run.outcomes[:-2])
    if reconnect:
        labels.append("failure-then-reconnect")
    nontrivial = "fault-during-connect" in labels or reconnect or n_addr > 1
    return nontrivial, labels


def _short(x):
    s = repr(x)
    return s if len(s) < 160 else s[:100] + "...(%d chars)" % len(s)


def _base(conf, kind):
    d = {"kind": kind, "cfg": dict(conf["cfg"], ignore_exc=False), "name": conf["name"], "calls": [dict(c) for c in BASE_CALLS + FINAL]}
    if kind == "pooled":
        d["cfg"]["max_pool_size"] = 1
        if conf.get("pool_idle_timeout"):
            d["cfg"]["pool_idle_timeout"] = conf["pool_idle_timeout"]      # FINAL advances the clock by 5 s: the connection idles out
    for k in ("resolves", "unix"):
        if k in conf:
            d[k] = conf[k]
    return d


def sweep_cases(tier, seed):
    for conf in CONFIGS:
        for kind in ("client", "pooled", "hash"):
            base = _base(conf, kind)
            yield base
            dry = interpret(base)
            for t in (0, 1):
                evs = dry.events_by_call[t]
                singles = []
                for ev_kind, nth in evs:
                    for f in faultlab.faults_for_event(ev_kind, nth, ev_kind == "close"):
                        singles.append(f)
                        calls = [dict(c) for c in base["calls"]]
                        calls[t] = dict(calls[t], faults=[f])
                        yield dict(base, calls=calls)
                if t == 0 and (kind == "client" or tier == "thorough"):
                    # every pair of events of the cold call; one representative error kind per event
                    reps = {}
                    for f in singles:
                        reps.setdefault((f["kind"], f["nth"]), f)
                    # a second fault only fires if the first did not end the call: keep pairs anyway, firing is read from the log
                    keys = list(reps)
                    extra = [("socket", 1), ("socket", 2), ("wrap", 1), ("setsockopt", 1), ("settimeout", 2), ("connect", 1)]
                    for k in extra:
                        if k not in reps and k[0] in faultlab.SOCK_FAULTS:
                            reps[k] = {"kind": k[0], "nth": k[1], "what": faultlab.SOCK_FAULTS[k[0]][0]}
                    keys = list(reps)
                    for a, b in itertools.combinations(keys, 2):
                        calls = [dict(c) for c in base["calls"]]
                        calls[0] = dict(calls[0], faults=[reps[a], reps[b]])
                        yield dict(base, calls=calls)
                    # failures spread over consecutive calls (reconnect attempts that fail again)
                    for f in singles[:: max(1, len(singles) // 12)]:
                        calls = [dict(c) for c in base["calls"]]
                        calls[0] = dict(calls[0], faults=[f])
                        calls[1] = dict(calls[1], faults=[{"kind": "connect", "nth": 0, "what": "refused"}])
                        yield dict(base, calls=calls)


ENDING_OPS = [{"op": "shutdown"}, {"op": "shutdown", "args": [True]}, {"op": "quit"}, {"op": "raw_command", "command": b"bogus"},
              {"op": "incr", "key": "t", "delta": 1}, {"op": "get", "key": "bad key"}, {"op": "cache_memlimit", "memlimit": 2 ** 40}, {"op": "stats", "args": ["nonsense"]},
              {"op": "version"}, {"op": "close"}]


def ending_cases(tier, seed):
    """calls that end the connection themselves or draw an error reply from the server (shutdown - graceful or not - on a server
    that does not allow it, quit, an unknown command, incr on text, a refused argument): the connections opened AFTERWARDS are
    set up like the first one - same timeouts, options, TLS"""
    for conf in CONFIGS:
        for kind in ("client", "pooled", "hash"):
            for r in ENDING_OPS:
                if kind == "hash" and r["op"] in faultlab.HASH_UNSUPPORTED + ("stats", "quit"):
                    continue
                if kind == "pooled" and r["op"] == "cache_memlimit":
                    continue
                for twice in (False, True):
                    d = _base(conf, kind)
                    mid = [{"op": r, "may_raise": True}] * (2 if twice else 1)
                    d["calls"] = [dict(BASE_CALLS[0])] + mid + [dict(BASE_CALLS[1])] + mid + [dict(c) for c in FINAL]
                    yield d


REFUSED = [{"op": "set_many", "values": {"a": b"1", "toolarge": b"22", "c": b"3"}, "noreply": False},
           {"op": "set_many", "values": {"oom": b"1", "b": b"2", "nostore": b"3"}, "noreply": False},
           {"op": "set", "key": "toolarge", "value": b"v", "noreply": False}]


def refused_item_cases(tier, seed):
    """the server refuses one item of a batch (too large for it, out of memory) and answers the others; a fault strikes at
    every socket event of that exchange: no socket stays open after the failed call, the next call gets a fresh one"""
    for conf in CONFIGS[::2] if tier == "quick" else CONFIGS:
        for kind in ("client", "pooled", "hash"):
            for r in REFUSED:
                for co in (False, True):
                    d = _base(conf, kind)
                    d["coalesce"] = co
                    d["calls"] = [{"op": r, "may_raise": True}] + [dict(c) for c in BASE_CALLS + FINAL]
                    yield d
                    dry = interpret(d)
                    for ev_kind, nth in dry.events_by_call[0]:
                        for f in faultlab.faults_for_event(ev_kind, nth, ev_kind == "close"):
                            calls = [dict(c) for c in d["calls"]]
                            calls[0] = dict(calls[0], faults=[f])
                            yield dict(d, calls=calls)
                    # the replies that follow the refusal never arrive
                    for nth in (1, 2, 3):
                        for what in ("eof", "timeout", "reset"):
                            calls = [dict(c) for c in d["calls"]]
                            calls[0] = dict(calls[0], faults=[{"kind": "recv", "nth": nth, "what": what}])
                            yield dict(d, calls=calls)


def history_strategy(tier):
    conf = st.sampled_from(CONFIGS)
    kind = st.sampled_from(["client", "client", "pooled", "hash"])

    def sock(k):
        d = {"kind": st.just(k), "nth": st.integers(0, 3), "what": st.sampled_from(faultlab.SOCK_FAULTS[k])}
        if k == "sendall":
            d["delivered"] = st.sampled_from(["none", "first", "all"])
        return st.fixed_dictionaries(d)
    fault = st.one_of(*[sock(k) for k in faultlab.SOCK_FAULTS])
    ops_ = st.sampled_from([{"op": "set", "key": "a", "value": b"1", "noreply": False}, {"op": "get", "key": "a"}, {"op": "get_many", "keys": ["a", "t"]},
                            {"op": "set", "key": "a", "value": b"2", "noreply": True}, {"op": "incr", "key": "n", "delta": 1}, {"op": "version"},
                            {"op": "delete", "key": "a", "noreply": False}, {"op": "quit"}, {"op": "gets", "key": "x4"}])
    call = st.builds(lambda o, f: dict({"op": o}, **({"faults": f} if f else {})), ops_, st.one_of(st.just([]), st.lists(fault, min_size=1, max_size=2)))

    def mk(conf, kind, calls):
        d = _base(conf, kind)
        d["calls"] = calls + [dict(c) for c in FINAL]
        return d
    return st.builds(mk, conf, kind, st.lists(call, min_size=1, max_size=6))


# ---- shutting a whole client object down -------------------------------------------------------------------------

SHUT_KINDS = {"client": ("close", "quit", "disconnect_all"), "pooled": ("close", "quit", "disconnect_all"),
              "hash": ("close", "disconnect_all", "quit"), "hash-pooled": ("close", "disconnect_all", "quit"),
              "aws": ("close", "disconnect_all", "quit"), "aws-pooled": ("close", "disconnect_all", "quit")}


def shutdown_cases(tier, seed):
    for kind, ways in SHUT_KINDS.items():
        for way in ways:
            for traffic in (0, 1, 12):
                for again in (False, True):
                    for reconf in ((False, True) if kind.startswith("aws") else (False,)):
                        yield {"kind": kind, "way": way, "traffic": traffic, "again": again, "reconfigure": reconf}
                    if not kind.startswith("aws") and traffic:
                        # the stack built around a Client subclass that holds a second connection, closed by its own close()
                        for how in ("assign", "classattr"):
                            yield {"kind": kind, "way": way, "traffic": traffic, "again": again, "reconfigure": False, "client_class": "tunnel", "client_class_how": how}


def check_shutdown(case):
    """every socket any part of the object opened (connections to each server, pooled ones, the discovery connection of the
    ElastiCache client) is closed once the object is shut down through any of the documented ways; the object reconnects
    when used again and can be shut down again"""
    from vlib.harness import Env, virtual_time
    kind, way = case["kind"], case["way"]
    if kind.startswith("aws"):
        from props import c19
        from pymemcache.client.ext.aws_ec_client import AWSElastiCacheHashClient
        w = c19.World()
        net, clock = w.net, w.clock
        w.advertise(1, [0, 1, 2])
        with virtual_time(clock):
            c = AWSElastiCacheHashClient(c19.CFG, socket_module=net, use_pooling=kind.endswith("pooled"), default_noreply=False, timeout=1)
    else:
        env = Env(nservers=3 if kind.startswith("hash") else 1)
        net, clock = env.net, env.clock
        with virtual_time(clock):
            extra = {}
            if case.get("client_class"):
                from vlib import subclasses
                extra = {"client_class": subclasses.CLIENT_CLASSES[case["client_class"]], "client_class_how": case.get("client_class_how", "assign")}
            c = env.client(kind, **({"servers": list(env.addrs)} if kind.startswith("hash") else {}), default_noreply=False, **extra)
    if not hasattr(c, way):
        return False, ["no-such-method"]
    desc = "%s%s, %d call(s), then %s()%s%s" % (kind, " around the Client subclass %r (%s)" % (case["client_class"], case.get("client_class_how")) if case.get("client_class") else "", case["traffic"], way, ", a reconfigure_nodes() before" if case.get("reconfigure") else "", ", then traffic and the shutdown once more" if case["again"] else "")
    rounds = 2 if case["again"] else 1
    opened = 0
    with virtual_time(clock):
        for rnd in range(rounds):
            for i in range(case["traffic"]):
                try:
                    c.set("key-%d" % i, b"v")
                    c.get("key-%d" % i)
                except Exception as e:  # noqa: BLE001
                    raise Violation(["shutdown", "traffic-raises", kind], "traffic raised %r in round %d: %s" % (e, rnd, desc))
            if case.get("reconfigure"):
                w.advertise(2 + rnd, [1, 2, 3])
                c.reconfigure_nodes()
                for i in range(case["traffic"]):
                    c.get("key-%d" % i)
            opened = max(opened, len(net.open_sockets()))
            try:
                getattr(c, way)()
            except Exception as e:  # noqa: BLE001
                raise Violation(["shutdown", "raises", kind, way], "%s() raised %r: %s" % (way, e, desc))
            left = net.open_sockets()
            if left:
                raise Violation(["shutdown", "socket-left-open", kind, way], "after %s() (round %d) %d socket(s) are still open, to %r: %s"
                                % (way, rnd, len(left), sorted({str(getattr(x, "addr", None)) for x in left}), desc))
    return opened > 0, [kind, way, "sockets-open-before=%d" % min(opened, 3)]


# ---- a server of a hash client goes away and comes back, then the object is shut down -----------------------------------

# one call to the first server after +1.5 s (> retry_timeout) / the same without waiting / six calls over all servers / first server
# down / up / clock +70 s (> dead_timeout) / a broadcast
OUT_SYMS = ("c", "q", "C", "D", "U", "A", "b")
OUT_KEYS = ["k%d" % i for i in range(6)]


def outage_cases(tier, seed):
    n = 0
    for length in (3, 4, 5, 6):
        for seq in itertools.product(OUT_SYMS, repeat=length):
            if "D" not in seq or not set("cqC") & set(seq[seq.index("D"):]):
                continue           # without a call during or after an outage nothing differs from the plain shutdown part
            if any(seq[i] == seq[i + 1] and seq[i] in "DUA" for i in range(length - 1)):
                continue
            for kind in ("hash", "hash-pooled"):
                for ra in (0, 1, 2):
                    n += 1
                    if length >= 5 and (tier == "quick" or length == 6) and n % (13 if length == 5 else 61):
                        continue
                    yield {"kind": kind, "retry_attempts": ra, "seq": "".join(seq), "way": ("close", "disconnect_all", "quit")[n % 3],
                           "ignore_exc": bool((n // 3) % 2), "nservers": 1 + (n // 6) % 2}


def outage_strategy(tier):
    return st.fixed_dictionaries({"kind": st.sampled_from(["hash", "hash-pooled"]), "retry_attempts": st.integers(0, 3),
                                  "seq": st.lists(st.sampled_from("ccqCDUAb"), min_size=3, max_size=16).map("".join).filter(lambda s: "D" in s),
                                  "way": st.sampled_from(["close", "disconnect_all", "quit"]), "ignore_exc": st.booleans(), "nservers": st.integers(1, 3)})


def check_outage(case):
    """A server of a HashClient fails, is retried, is marked dead, comes back - at any point of that bookkeeping - and then the
    object is shut down: every socket it opened must be closed. Calls during the outage may fail; after the shutdown none may
    be left open."""
    from vlib.harness import Env, virtual_time
    env = Env(nservers=case["nservers"])
    net, clock = env.net, env.clock
    labels = {case["kind"], case["way"], "retry_attempts=%d" % case["retry_attempts"]}
    desc = "%s over %d server(s), retry_attempts=%d retry_timeout=1 dead_timeout=60 ignore_exc=%r; events %s (c = +1.5 s and a call to the first server, q = such a call at once, C = six calls over all servers, D/U = first server down/up, A = +70 s, b = flush_all broadcast); then %s()" % (
        case["kind"], case["nservers"], case["retry_attempts"], case["ignore_exc"], case["seq"], case["way"])
    with virtual_time(clock):
        c = env.client(case["kind"], servers=list(env.addrs), default_noreply=False, retry_attempts=case["retry_attempts"], retry_timeout=1,
                       dead_timeout=60, ignore_exc=case["ignore_exc"], timeout=1)
        most = 0
        before = len(env.servers[0].log)
        mine = None
        for k in OUT_KEYS:             # a key the first server is responsible for
            c.get(k)
            if mine is None and len(env.servers[0].log) > before:
                mine = k
        for ev in case["seq"] + "U":
            if ev == "D":
                env.servers[0].down = "refused"
            elif ev == "U":
                env.servers[0].down = None
            elif ev in "cq":
                if ev == "c":
                    clock.advance(1.5)
                try:
                    c.get(mine)
                except Exception:  # noqa: BLE001   (the server may be down)
                    labels.add("call-failed")
            elif ev == "A":
                clock.advance(70)
            elif ev == "b":
                try:
                    c.flush_all()
                except Exception:  # noqa: BLE001   (the server may be down)
                    labels.add("broadcast-failed")
            else:
                for k in OUT_KEYS:
                    try:
                        c.get(k)
                    except Exception:  # noqa: BLE001   (the server may be down)
                        labels.add("call-failed")
            most = max(most, len(net.open_sockets()))
        if c._dead_clients:
            labels.add("a-server-is-marked-dead-at-shutdown")
        try:
            getattr(c, case["way"])()
        except Exception as e:  # noqa: BLE001
            # quit() is a request to every server and goes through the failover bookkeeping, which can refuse it after such a
            # history (what may escape there is C13's subject, for key-addressed calls); the object is then still in use, and
            # close() is the way to shut it down
            labels.add("shutdown-call-raised-" + type(e).__name__)
            if case["way"] != "quit":
                raise Violation(["outage-shutdown", "raises", case["kind"], case["way"]], "%s() raised %r: %s" % (case["way"], e, desc))
            c.close()
        left = net.open_sockets()
        if left:
            raise Violation(["outage-shutdown", "socket-left-open", case["kind"], case["way"]], "after %s() %d socket(s) are still open, to %r: %s"
                            % (case["way"], len(left), sorted({str(getattr(x, "addr", None)) for x in left}), desc))
    return most > 0 and ("call-failed" in labels or case["ignore_exc"]), sorted(labels)


SWALLOW_READS = [{"op": "get", "key": "a"}, {"op": "gets", "key": "a"}, {"op": "get_many", "keys": ["a", "t", "nokey"]},
                 {"op": "gat", "key": "a", "expire": 30}, {"op": "stats"}]


def swallowed_cases(tier, seed):
    """ignore_exc=True: a read that fails is reported as a miss - the caller is told nothing, the socket rules are the same.
    A warm connection, then a read with one fault at every socket event of it (every error kind), two more calls."""
    for conf in (CONFIGS[0], CONFIGS[4], CONFIGS[6], CONFIGS[8]) if tier == "quick" else CONFIGS:
        for kind in ("client", "pooled"):
            for r in SWALLOW_READS:
                if kind == "pooled" and r["op"] == "stats":
                    continue
                d = _base(conf, kind)
                d["cfg"]["ignore_exc"] = True
                d["calls"] = [dict(BASE_CALLS[0]), {"op": r}] + [dict(c) for c in FINAL]
                yield d
                dry = interpret(d)
                for ev_kind, nth in dry.events_by_call[1]:
                    for f in faultlab.faults_for_event(ev_kind, nth, ev_kind == "close"):
                        calls = [dict(c) for c in d["calls"]]
                        calls[1] = dict(calls[1], faults=[f])
                        yield dict(d, calls=calls)
                # cold: the read is the first call
                d2 = dict(d, calls=[{"op": r}] + [dict(c) for c in FINAL])
                dry = interpret(d2)
                for ev_kind, nth in dry.events_by_call[0]:
                    if ev_kind not in ("sendall", "recv"):
                        continue
                    for f in faultlab.faults_for_event(ev_kind, nth, False):
                        yield dict(d2, calls=[{"op": r, "faults": [f]}] + [dict(c) for c in FINAL])


def check_swallowed(case):
    """The same history is run twice on the tree under test: once with ignore_exc=False (which calls fail is read from
    there - whether a fault is harmless, like an EINTR that is retried, is not guessed) and once with ignore_exc=True.
    A call that fails in the first run and comes back as a miss in the second must leave no socket open, and the first
    call after it must open a fresh connection and work."""
    kind, cfg = case["kind"], case["cfg"]
    loud = interpret(dict(case, cfg=dict(cfg, ignore_exc=False)))
    failed = [o[0] == "exc" for o in loud.outcomes]
    state = {"prev_failed": False}
    hist = [(c["op"]["op"], c.get("faults")) for c in case["calls"]]

    def obs(run, i, call, out):
        net = run.env.net
        opened = net.open_sockets()
        if net.max_open > 1:
            raise Violation(["two-open-sockets", kind, "ignore_exc"], "%d sockets open at once during call %d; history %r; %s config %r" % (net.max_open, i, hist, kind, cfg))
        if failed[i]:
            if out[0] == "ok" and opened:
                raise Violation(["socket-open-after-swallowed-failure", kind, call["op"]["op"]],
                                "call %d %r fails with %r when ignore_exc is off; with ignore_exc=True it returned %r and socket(s) %r are still open; history %r; %s config %r"
                                % (i, call["op"], loud.outcomes[i][1], _short(out[1]), [s.id for s in opened], hist, kind, cfg))
            if out[0] == "exc" and opened:
                raise Violation(["socket-open-after-failed-call", kind, "ignore_exc"], "socket(s) %r still open after call %d %r raised %r; history %r; %s config %r"
                                % ([s.id for s in opened], i, call["op"], out[1], hist, kind, cfg))
        elif state["prev_failed"] and out[0] == "ok" and not any(k == "socket" for k, _ in run.events_by_call[i]):
            raise Violation(["no-fresh-socket", kind, "ignore_exc"], "no new socket was created by call %d, the first after a swallowed failure; history %r; %s config %r" % (i, hist, kind, cfg))
        state["prev_failed"] = failed[i]
    run = interpret(case, obs)
    a, b = run.outcomes[-2], run.outcomes[-1]
    if a != ("ok", True) or b != ("ok", b"fv"):
        raise Violation(["no-recovery", kind, "ignore_exc"], "final fault-free set/get returned %r / %r; history %r; %s config %r" % (_short(a), _short(b), hist, kind, cfg))
    run.client.close()
    for s in run.env.net.sockets:
        if not s.closed:
            raise Violation(["leaked-socket", kind, "ignore_exc"], "socket %d was never closed after close(); history %r; %s config %r" % (s.id, hist, kind, cfg))
    swallowed = [i for i, f in enumerate(failed) if f and run.outcomes[i][0] == "ok"]
    labels = [kind, case.get("name", "cfg"), case["calls"][min(1, len(case["calls"]) - 3)]["op"]["op"]]
    if swallowed:
        labels.append("failure-swallowed")
    return bool(swallowed), labels


PARTS = [
    Part("outage-then-shutdown", "enum", check_outage, cases=outage_cases, exhaustive=True),
    Part("random-outages-then-shutdown", "hyp", check_outage, strategy=outage_strategy,
         examples={"quick": 400, "thorough": 20000}, shards={"quick": 4, "thorough": 16}),
    Part("object-shutdown", "enum", check_shutdown, cases=shutdown_cases, exhaustive=True),
    Part("swallowed-failures", "enum", check_swallowed, cases=swallowed_cases, exhaustive=True),
    Part("refused-items", "enum", check, cases=refused_item_cases, exhaustive=True),
    Part("connection-ending-calls", "enum", check, cases=ending_cases, exhaustive=True),
    Part("fault-position-sweep", "enum", check, cases=sweep_cases, exhaustive=True),
    Part("random-histories", "hyp", check, strategy=history_strategy,
         examples={"quick": 250, "thorough": 12000}, shards={"quick": 4, "thorough": 16}),
]


def selftest():
    mcserver.selftest()

"""C11 - key placement is a pure, order-independent, minimally disruptive function."""
import hashlib
import itertools
import os
import subprocess
import sys

from hypothesis import strategies as st

from vlib import refhash
from vlib.runner import Part, Violation

from pymemcache.client.hash import HashClient
from pymemcache.client.murmur3 import murmur3_32
from pymemcache.client.rendezvous import RendezvousHash

PROPERTY = "C11"
LEVEL = "exploration"
# parts repeated in a child interpreter started with -O and with warnings turned into errors (vlib/runner.py, MODES)
MODE_PARTS = {"OW": ['spellings', 'topology-histories', 'rings-side-by-side']}
RULE = ("placement cases: a node set of 1-8 names (host:port look-alikes such as a:1/a:11, UNIX paths, free text), "
        "a hash (real murmur3 with seed 0 or another seed, or a tie-forcing injected hash), a key corpus (LCG-derived "
        "k<n>, digit-only, long keys + Hypothesis-drawn keys), an add/remove history in which each step is or is not followed by lookups (so remove+add pairs leave the node count unchanged between lookups). For each: (i) get_node == "
        "independent reference rule (max murmur3('<node>-<key>'), ties to greatest name), (ii) equal under every "
        "permutation of insertion (all n! for n<=6) and for any add/remove history reaching the same set, also when "
        "built via the nodes= constructor argument, and for copy.copy / copy.deepcopy of the ring; hash functions include two whose results exceed 32 bits; (iii) removal moves only the removed node's keys, addition moves "
        "keys only onto the new node, (v) spread >= K/(4n) per node for K>=2000. Spelling cases: HashClient built from "
        "equivalent server spellings has identical rotation and placement. Cross-process cases: 4 interpreters with "
        "different PYTHONHASHSEED produce the same placement digest as the in-process reference. Non-trivial: >=3 "
        "nodes and (non-identity permutation checked, or history containing a removal, or an actual tie occurred), or "
        "a spelling/cross-process case. Topology histories: a HashClient over a fake network (five servers: capitals in a host name, shared host, a UNIX socket), events {add_server in one of five spellings, server down (refused / timeout / reset) / up, clock advance, traffic of 12 gets and one get_many}; the same history with every server spelled as the (host, port) tuple must send every key to the same server at every traffic round; only OSError / MemcacheError may escape (nothing with ignore_exc); with all servers up, after two dead_timeouts of traffic placement is the rule over all servers the application added. A second HashClient over two servers of its own lives in the same process and is used before and after every traffic round: its keys go where the rule over ITS servers puts them. The process may fork in the middle of a history: for the same events the child sends every key where the parent sends it. Events also include flush_all broadcasts, and the n-th close() of a socket may be cut short by a KeyboardInterrupt - in the middle of bringing a server back, for instance; the application goes on."
        + " Keys whose score for a node is 0, 1, 2**32-2 or 2**32-1 (solved for with the reference hash); genuine score ties between two node names (the second name solved for) in every order; nodes that are not strings (ints from 0, '', 0.0, False) with the built-in hash.")
MANIFEST = {
    "category": "exploration",
    "technique": "Hypothesis-generated node sets, key corpora and add/remove/lookup histories; all insertion permutations enumerated (n<=6); differential against an independent statement of the rendezvous rule; metamorphic relations (permutation, history, removal/addition disruption); cross-process digest comparison",
    "text": "Placement is compared key by key with an independent reference of the published rule over generated node sets, under every insertion order (all n! up to 6 nodes), after arbitrary add/remove histories with lookups interleaved, with tie-forcing hashes, from equivalent address spellings, and across interpreters with different PYTHONHASHSEED. Sampling, not proof; the tie and order logic is small enough that short generated cases reach all of it.",
    "note": "Trusts vlib/refhash.py; keys or node names beyond Latin-1 are only checked for order/history independence.",
    "design_ref": "DESIGN.md 3/C11"
}
ASSUMPTIONS = [
    "reference rule and MurmurHash3 in vlib/refhash.py are correct (published vectors; C cross-check in C14)",
    "for keys/nodes with code points > 255 the byte reference is undefined; only order/history/disruption are asserted there",
]

HOSTS = ["a", "ab", "h1", "h11", "10.0.0.1", "10.0.0.11", "::1", "cache-1.example.com", "cache-11.example.com"]
PORTS = [1, 11, 112, 11211, 11212]
PATHS = ["/tmp/s0", "/tmp/s1", "/tmp/s11", "/var/run/mc.sock"]
NAME_POOL = ["%s:%d" % (h, p) for h in HOSTS for p in PORTS] + PATHS


def _hf(name):
    if name == "murmur":
        return None
    if name == "len3":
        return lambda s, seed: len(s) % 3
    if name == "const":
        return lambda s, seed: 7
    if name == "low2":
        return lambda s, seed: murmur3_32(s, seed) & 3
    if name == "zero":
        return lambda s, seed: 0
    if name == "sum5":
        return lambda s, seed: sum(map(ord, s)) % 5
    if name == "wide64":
        # a hash function with a 64-bit result (the documented way to plug in another algorithm)
        import hashlib
        return lambda s, seed: int.from_bytes(hashlib.blake2b(s.encode("utf-8", "surrogatepass"), digest_size=8, salt=seed.to_bytes(8, "little")).digest(), "big")
    if name == "high32":
        # results that differ only above bit 31
        return lambda s, seed: (murmur3_32(s, seed) & 7) << 40
    raise ValueError(name)


def _ref_place(nodes, key, hname, hseed):
    """Independent statement of the published rule."""
    if hname == "murmur":
        return refhash.place(nodes, key, refhash.murmur3, hseed)
    hf = _hf(hname)
    best = None
    for n in nodes:
        sc = (hf("%s-%s" % (n, key), hseed), str(n))
        if best is None or sc > best[0]:
            best = (sc, n)
    return best[1] if best else None


def _build(order, hname, hseed, via_ctor=False):
    hf = _hf(hname)
    kw = {"seed": hseed}
    if hf is not None:
        kw["hash_function"] = hf
    if via_ctor:
        return RendezvousHash(nodes=list(order), **kw)
    r = RendezvousHash(**kw)
    for n in order:
        r.add_node(n)
    return r


def corpus(kseed, n, extra=()):
    x = (kseed * 2654435761 + 1) & 0xFFFFFFFF
    keys = list(extra)
    for i in range(n):
        x = (x * 1103515245 + 12345) & 0x7FFFFFFF
        m = i % 7
        if m == 0:
            keys.append(str(x))
        elif m == 1:
            keys.append("user:%d:profile:%s" % (x, "x" * (x % 90)))
        elif m == 2:
            keys.append(b"k%d" % x)           # bytes keys are hashed by their repr, as HashClient does
        else:
            keys.append("k%d" % x)
    return keys


def check_placement(case):
    nodes = list(case["nodes"])
    hname, hseed = case["hash"], case["hseed"]
    keys = corpus(case["kseed"], case["nkeys"], case.get("extra_keys", ()))
    labels = ["n=%d" % len(nodes), "hash=" + hname]
    n = len(nodes)

    def fail(sig, msg):
        raise Violation(sig, "%s [nodes=%r hash=%s seed=%d]" % (msg, nodes, hname, hseed))

    base = _build(nodes, hname, hseed)
    try:
        exp = {k: base.get_node(k) for k in keys}
    except Exception as e:  # noqa: BLE001
        fail(["raises", type(e).__name__], "get_node raised %r" % (e,))
    # (i) the published rule
    ties = 0
    for k in keys:
        want = _ref_place(nodes, k, hname, hseed)
        if want is None:
            if "beyond-latin1" not in labels:
                labels.append("beyond-latin1")
            continue
        if exp[k] != want:
            fail(["rule"], "get_node(%r) = %r but the rendezvous rule gives %r" % (k, exp[k], want))
        if hname != "murmur":
            hf = _hf(hname)
            scores = sorted((hf("%s-%s" % (x, k), hseed) for x in nodes), reverse=True)
            if len(scores) > 1 and scores[0] == scores[1]:
                ties += 1
    if ties:
        labels.append("tie")
    if case.get("real_ties"):
        for k in case.get("extra_keys", ()):
            sc = sorted((refhash.murmur3(("%s-%s" % (x, k)).encode("latin-1"), hseed) for x in nodes), reverse=True)
            if len(sc) > 1 and sc[0] == sc[1]:
                labels.append("genuine-tie-at-the-top")
                break
    # purity: same answer when asked again, and the rotation is not modified by lookups
    for k in keys[:50]:
        if base.get_node(k) != exp[k]:
            fail(["impure"], "get_node(%r) changed between two calls" % (k,))
    if sorted(map(str, base.nodes)) != sorted(map(str, nodes)):
        fail(["nodes-mutated"], "lookups changed the rotation: %r" % (base.nodes,))
    # (ii) every insertion order
    permuted = False
    sub = keys if n <= 4 else keys[:60 if hname != "murmur" else 40]
    if n <= 6:
        perms = itertools.permutations(nodes)
    else:
        perms = [nodes[::-1], nodes[1:] + nodes[:1], sorted(nodes), sorted(nodes, reverse=True)]
    for pi, perm in enumerate(perms):
        if list(perm) == nodes:
            continue
        permuted = True
        r = _build(perm, hname, hseed, via_ctor=(pi % 5 == 1))
        for k in sub:
            if r.get_node(k) != exp[k]:
                fail(["order"], "insertion order %r places %r on %r, order %r on %r"
                     % (list(perm), k, r.get_node(k), nodes, exp[k]))
    # (ii) histories
    universe = nodes + ["zz-extra:1", "/tmp/zz-extra"]
    r = _build([], hname, hseed)
    cur = []
    removal = False
    for step in case.get("history", ()):
        op, idx = step[0], step[1]
        probe_now = step[2] if len(step) > 2 else True     # some steps are not followed by lookups: remove+add leaves the count unchanged
        x = universe[idx % len(universe)]
        if op == 1:
            if x in cur:
                r.remove_node(x)
                cur.remove(x)
                removal = True
            else:
                try:
                    r.remove_node(x)
                    fail(["remove-missing"], "remove_node of an absent node did not raise")
                except ValueError:
                    pass
        else:
            r.add_node(x)
            if x not in cur:
                cur.append(x)
        # lookups interleaved with membership changes: the answer may depend on the
        # current set only, not on what was looked up (or cached) under an earlier set
        probe = keys[:25] if probe_now else ()
        for k in probe:
            got = r.get_node(k)
            want = _ref_place(cur, k, hname, hseed) if cur else None
            if cur and want is None:
                want = _build(sorted(cur, key=lambda x_: (str(type(x_)), str(x_))), hname, hseed).get_node(k)
            if got != want:
                fail(["history-lookup"], "after history prefix ending in %r (set %r) %r is placed on %r, the rule gives %r"
                     % ((op, idx), cur, k, got, want))
    if cur:
        fresh = _build(sorted(cur, key=lambda x_: (str(type(x_)), str(x_))), hname, hseed)
        for k in sub:
            if r.get_node(k) != fresh.get_node(k):
                fail(["history"], "after history %r node set %r places %r on %r, a fresh hasher on %r"
                     % (case.get("history"), cur, k, r.get_node(k), fresh.get_node(k)))
        if removal:
            labels.append("history-removal")
    elif case.get("history"):
        if r.get_node("anything") is not None:
            fail(["empty"], "empty rotation returned a node")
    # (ii') a copy of the ring (copy.copy / copy.deepcopy - HashClient objects get copied along with application state)
    #       places keys like the ring it was copied from, also after both have changed membership in the same way
    import copy
    for how in (copy.copy, copy.deepcopy):
        try:
            dup = how(base)
        except Exception as e:  # noqa: BLE001
            fail(["copy-raises", how.__name__], "%s of the ring raised %r" % (how.__name__, e))
        for k in sub[:40]:
            if dup.get_node(k) != exp[k]:
                fail(["copy-placement", how.__name__], "%s of the ring places %r on %r, the ring itself on %r" % (how.__name__, k, dup.get_node(k), exp[k]))
    # (iii) minimal disruption
    if n >= 2:
        x = nodes[case["kseed"] % n]
        r = _build(nodes, hname, hseed)
        r.remove_node(x)
        for k in keys:
            a, b = exp[k], r.get_node(k)
            if a != x and a != b:
                fail(["disruption-remove"], "removing %r moved %r from %r to %r" % (x, k, a, b))
            if a == x and b == x:
                fail(["still-on-removed"], "%r still placed on removed node %r" % (k, x))
        r.add_node(x)
        for k in sub:
            if r.get_node(k) != exp[k]:
                fail(["readd"], "re-adding %r does not restore placement of %r" % (x, k))
        y = "new-node:%d" % (case["kseed"] % 97)
        if y not in nodes:
            r.add_node(y)
            for k in keys:
                b = r.get_node(k)
                if b != exp[k] and b != y:
                    fail(["disruption-add"], "adding %r moved %r from %r to %r" % (y, k, exp[k], b))
    # (v) spread
    if case.get("spread") and hname == "murmur" and len(keys) >= 2000:
        owners = {x: 0 for x in nodes}
        for k in keys:
            owners[exp[k]] += 1
        low = min(owners.values())
        if low < len(keys) / (4 * n):
            fail(["spread"], "node ownership %r of %d keys: a node owns fewer than K/(4n)" % (owners, len(keys)))
        labels.append("spread")
    nontrivial = n >= 3 and (permuted or removal or ties > 0)
    return nontrivial, labels


def placement_strategy(tier):
    names = st.one_of(st.sampled_from(NAME_POOL),
                      st.text(st.characters(min_codepoint=0x21, max_codepoint=0xFF), min_size=1, max_size=12),
                      st.text(min_size=1, max_size=6))
    nodes = st.one_of(st.lists(names, min_size=3, max_size=8, unique=True),
                      st.lists(names, min_size=1, max_size=8, unique=True)).filter(
        lambda ns: "zz-extra:1" not in ns and "/tmp/zz-extra" not in ns)
    big = tier == "thorough"
    return st.fixed_dictionaries({
        "nodes": nodes,
        "hash": st.sampled_from(["murmur", "murmur", "murmur", "len3", "const", "low2", "sum5", "zero", "wide64", "high32"]),
        "hseed": st.sampled_from([0, 0, 0, 1, 2**31, 2**32 - 1]),
        "kseed": st.integers(0, 2**31),
        "nkeys": st.sampled_from([120, 300] if not big else [300, 1000]),
        "extra_keys": st.lists(st.one_of(st.text(max_size=20), st.binary(max_size=10),
                                         st.text(st.characters(max_codepoint=255), max_size=300)), max_size=5),
        "history": st.lists(st.tuples(st.integers(0, 1), st.integers(0, 9), st.booleans()), max_size=12),
        "spread": st.just(False),
    })


def multi_ring_cases(tier, seed):
    for i in range(6 if tier == "quick" else 40):
        n = 2 + (i + seed) % 5
        nodes = [NAME_POOL[(i * 3 + j * 7) % len(NAME_POOL)] for j in range(n)]
        yield {"nodes": list(dict.fromkeys(nodes)), "kseed": seed * 100 + i, "seeds": [0, 1337, 0, 2 ** 32 - 1, 1, 0][: 3 + i % 4]}


def check_multi_ring(case):
    """rings with different seeds (and a HashClient's own ring) used alternately in one process: each must follow the
    rule for ITS seed - no state shared between instances"""
    nodes = case["nodes"]
    keys = corpus(case["kseed"], 150)
    rings = [(sd, _build(nodes, "murmur", sd)) for sd in case["seeds"]]
    hc = HashClient([])
    for nd in nodes:
        hc.hasher.add_node(nd)
    rings.append((0, hc.hasher))
    for rnd in range(2):
        for k in keys:
            for sd, ring in (rings if rnd == 0 else rings[::-1]):
                want = refhash.place(nodes, k, refhash.murmur3, sd)
                got = ring.get_node(k)
                if want is not None and got != want:
                    raise Violation(["shared-state-between-rings"], "ring with seed %d places %r on %r, the rule for that seed gives %r (rings with seeds %r alive in the same process) [nodes=%r]"
                                    % (sd, k, got, want, case["seeds"], nodes))
    return True, ["multi-ring", "n=%d" % len(nodes)]


def spread_cases(tier, seed):
    reps = 6 if tier == "quick" else 40
    for i in range(reps):
        n = 2 + (i + seed) % 7
        start = (i * 7 + seed) % len(NAME_POOL)
        nodes = [NAME_POOL[(start + j * 5) % len(NAME_POOL)] for j in range(n)]
        nodes = list(dict.fromkeys(nodes))
        # keys whose score for one of the nodes is the least or the greatest a 32-bit hash gives (0, 1, 2**32-2, 2**32-1): solved
        # for with the reference hash (vlib/refhash.py) - one key in four thousand million, no random corpus contains one
        extreme = [refhash.preimage_suffix((str(nd) + "-").encode("latin-1"), t).decode() for nd in nodes[:4] for t in (0, 1, 2 ** 32 - 2, 2 ** 32 - 1)]
        yield {"nodes": nodes, "hash": "murmur", "hseed": 0, "kseed": seed * 1000 + i,
               "nkeys": 2000 if tier == "quick" else 5000, "extra_keys": extreme, "history": [[0, 0], [0, 1], [1, 0], [0, 0]],
               "spread": True}


def node_object_cases(tier, seed):
    """RendezvousHash takes any objects as nodes (the repository's own tests use ints): shard numbers from 0, an empty name, 0.0,
    False - a node is a node whatever its truth value"""
    sets = [[0, 1, 2], [2, 1, 0], [0], [0, 7], ["", "a", "b"], ["b", "", "a"], [0.0, 1.5, "n"], [False, True], [0, "", "x"], [3, 0, "00"]]
    for i, nodes in enumerate(sets):
        # (the built-in hash only: with a hash function that ties, the library answers with the winner's *name* - str(node) -,
        # which for nodes that are strings is the node and for other objects is not; HashClient only ever uses strings)
        for hname in ("murmur",):
            yield {"nodes": nodes, "hash": hname, "hseed": (0, 7)[i % 2], "kseed": seed * 100 + i, "nkeys": 300 if tier == "quick" else 1500, "extra_keys": [],
                   "history": [[0, 0], [0, 1], [1, 0], [0, 0], [1, 1], [0, 1]]}


def real_tie_cases(tier, seed):
    """two nodes whose scores for a key are EQUAL under the built-in hash (a genuine collision, each score computed on its own; the
    second node's name is solved for: refhash.tie_node): the published rule gives the key to the greater name, in every order"""
    reps = 12 if tier == "quick" else 120
    for i in range(reps):
        a = NAME_POOL[(i * 5 + seed) % len(NAME_POOL)]
        keys = ["user:%d" % (i + seed), "k%d" % (i * 31 + seed), "session/%d/%s" % (i, "x" * (i % 7))]
        stems = ("zz", "aa", "10.9.0.", "Cache-")
        ties = [refhash.tie_node(str(a), k, stems[(i + j) % len(stems)]) for j, k in enumerate(keys)]
        for nodes in ([a, ties[0]], [ties[0], a], [a] + ties, ties[::-1] + [a], [a, ties[1], NAME_POOL[(i * 5 + seed + 1) % len(NAME_POOL)]]):
            nodes = list(dict.fromkeys(nodes))
            yield {"nodes": nodes, "hash": "murmur", "hseed": 0, "kseed": seed * 77 + i, "nkeys": 40, "extra_keys": keys,
                   "history": [[0, 0], [0, 1], [1, 0], [0, 0], [1, 1], [0, 1]], "real_ties": True}


# ---- spellings -------------------------------------------------------------

IDENT = [
    # canonical, then equivalent spellings
    [("h", 11211), "h", "h:11211", ("h", "11211")],
    [("10.0.0.5", 11211), "10.0.0.5", "10.0.0.5:11211"],
    [("10.0.0.5", 11212), "10.0.0.5:11212", ("10.0.0.5", "11212")],
    [("::1", 11211), "[::1]", "[::1]:11211", ("::1", "11211")],
    [("::1", 7), "[::1]:7"],
    [("cache.example.com", 1), "cache.example.com:1"],
    [("Cache-A.Example.COM", 11211), "Cache-A.Example.COM", "Cache-A.Example.COM:11211"],
    [("FE80::A", 11211), "[FE80::A]", "[FE80::A]:11211"],
    ["/tmp/p", "unix:/tmp/p", "/tmp/p"],
    ["/var/run/m.sock", "unix:/var/run/m.sock"],
]


def spelling_cases(tier, seed):
    # all choices of one spelling per identity for every pair/triple of identities
    for r in (1, 2, 3):
        for ci, ids in enumerate(itertools.combinations(range(len(IDENT)), r)):
            if r == 3 and tier == "quick" and ci % 4:
                continue
            for sp in itertools.product(*[range(1, len(IDENT[i])) for i in ids]):
                yield {"ids": list(ids), "spell": list(sp)}


def check_spelling(case):
    canon = [IDENT[i][0] for i in case["ids"]]
    other = [IDENT[i][s] for i, s in zip(case["ids"], case["spell"])]
    a = HashClient(canon)
    b = HashClient(other)
    na, nb = list(a.hasher.nodes), list(b.hasher.nodes)
    if sorted(na) != sorted(nb):
        raise Violation(["spelling-nodes"], "HashClient(%r).hasher.nodes = %r but HashClient(%r) gives %r" % (canon, na, other, nb))
    if sorted(a.clients) != sorted(b.clients):
        raise Violation(["spelling-clients"], "client tables differ: %r vs %r" % (sorted(a.clients), sorted(b.clients)))
    for k in corpus(7, 60):
        x, y = a.hasher.get_node(k), b.hasher.get_node(k)
        if x != y:
            raise Violation(["spelling-placement"], "%r placed on %r with %r, on %r with %r" % (k, x, canon, y, other))
        want = refhash.place(na, k)
        if want is not None and x != want:
            raise Violation(["rule"], "HashClient placement of %r is %r, rule gives %r" % (k, x, want))
    return True, ["spelling", "ids=%d" % len(canon)]


# ---- cross-process ---------------------------------------------------------

CHILD = r"""
import sys, hashlib
sys.path.insert(0, sys.argv[1]); sys.path.insert(0, sys.argv[2]); sys.path.append(sys.argv[2] + "/.deps")
from props.c11 import corpus
from pymemcache.client.rendezvous import RendezvousHash
from pymemcache.client.hash import HashClient
nodes = sys.argv[3].split(",")
hc = HashClient([])
r = hc.hasher
for n in nodes: r.add_node(n)
h = hashlib.sha1()
for k in corpus(int(sys.argv[4]), 400):
    h.update(repr((k, r.get_node(k))).encode())
print(h.hexdigest())
"""


def xproc_cases(tier, seed):
    sets = [NAME_POOL[0:3], NAME_POOL[5:11], PATHS + NAME_POOL[20:22], NAME_POOL[30:38]]
    if tier == "quick":
        sets = sets[:2]
    for i, s in enumerate(sets):
        yield {"nodes": s, "kseed": seed + i}


def check_xproc(case):
    nodes = case["nodes"]
    root = os.path.dirname(os.path.dirname(os.path.abspath(__file__)))
    repo = os.environ.get("VERIF_REPO", "/repo")
    h = hashlib.sha1()
    for k in corpus(case["kseed"], 400):
        h.update(repr((k, refhash.place(nodes, k))).encode())
    want = h.hexdigest()
    for hs in ("0", "1", "12345", "4294967295"):
        env = dict(os.environ, PYTHONHASHSEED=hs)
        env.pop("PYTHONPATH", None)
        out = subprocess.run([sys.executable, "-c", CHILD, repo, root, ",".join(nodes), str(case["kseed"])],
                             env=env, capture_output=True, text=True, timeout=120)
        if out.returncode != 0:
            raise RuntimeError("child failed: " + out.stderr[-500:])
        got = out.stdout.strip()
        if got != want:
            raise Violation(["cross-process"], "placement digest under PYTHONHASHSEED=%s is %s, reference %s (nodes %r)"
                            % (hs, got, want, nodes))
    return True, ["cross-process"]


# ---- topology changed at run time, under equivalent spellings of the servers -------------------------------------------

TOPO_UNIVERSE = [("Cache-A", 11211), ("mc2", 11212), ("10.0.0.3", 11211), "/tmp/u.sock", ("mc2", 11213)]
TOPO_KEYS = ["k%d" % i for i in range(12)]
# a second hash client lives in the same process, over servers of its own that never fail: none of the first one's business
TOPO_BYSTANDERS = [("bystander-1", 11211), ("bystander-2", 11211)]


def _topo_name(spec):
    return "%s:%s" % spec if isinstance(spec, tuple) else spec


def _topo_add(c, spec, sp):
    """the spellings add_server takes for a (host, port) server: the tuple, the tuple with the port as text, 'host:port', and the
    legacy two-argument form with an int or a text port"""
    if not isinstance(spec, tuple) or sp == 0:
        c.add_server(spec)
    elif sp == 1:
        c.add_server((spec[0], str(spec[1])))
    elif sp == 2:
        c.add_server("%s:%d" % spec)
    elif sp == 3:
        c.add_server(spec[0], spec[1])
    else:
        c.add_server(spec[0], str(spec[1]))


def _topo_run(case, alt):
    from vlib.harness import Env, virtual_time
    from pymemcache.exceptions import MemcacheError
    env = Env(addrs=TOPO_UNIVERSE + TOPO_BYSTANDERS)
    rounds = []
    added = list(case["initial"])
    forks = []          # (index into rounds at the time of the fork, read end of the pipe, child pid)
    in_child = False
    try:
        return _topo_body(case, alt, env, rounds, added, forks)
    except BaseException:
        if forks and forks[-1] == "child":
            os._exit(3)
        raise


def _topo_body(case, alt, env, rounds, added, forks):
    import pickle
    from vlib.harness import virtual_time
    from pymemcache.exceptions import MemcacheError
    with virtual_time(env.clock):
        c = HashClient([TOPO_UNIVERSE[i] for i in case["initial"]], socket_module=env.net, retry_attempts=0, dead_timeout=60, retry_timeout=1,
                       ignore_exc=case["ignore_exc"], use_pooling=case["pooled"], timeout=1, default_noreply=False)
        other = HashClient(list(TOPO_BYSTANDERS), socket_module=env.net, retry_attempts=0, dead_timeout=60, retry_timeout=1, ignore_exc=case["ignore_exc"],
                           use_pooling=not case["pooled"], timeout=1, default_noreply=False)
        other_names = [_topo_name(a) for a in TOPO_BYSTANDERS]
        nsrv = len(TOPO_UNIVERSE)
        def bystander():
            # the bystander's keys go where the rule over ITS servers puts them, whatever the first client has been through
            marks2 = [len(s.log) for s in env.servers]
            for k in TOPO_KEYS:
                try:
                    other.get(k)
                except KeyboardInterrupt:
                    if case.get("interrupt_close") is None:
                        raise
                except Exception as e:  # noqa: BLE001
                    raise Violation(["topology", "bystander-raises", type(e).__name__], "a second HashClient over %r (never failing) raised %r for get(%r)" % (other_names, e, k))
            for i, s in enumerate(env.servers):
                for rec in s.log[marks2[i]:]:
                    for kk in rec.get("keys", ()):
                        want = nsrv + other_names.index(refhash.place(other_names, kk.decode()))
                        if i != want:
                            raise Violation(["topology", "bystander-placement"], "a second HashClient over %r sent %r to %r; the rule over its own servers gives %r"
                                            % (other_names, kk.decode(), _topo_name(env.addrs[i]), _topo_name(env.addrs[want])))
        if case.get("interrupt_close") is not None:
            # the n-th close() of a socket from now on is cut short by a KeyboardInterrupt (a signal, a greenlet timeout), wherever
            # that close happens - in the middle of bringing a server back, for instance; the application survives it
            env.net.plan([{"call": None, "kind": "close", "nth": case["interrupt_close"], "what": "kbd"}])
        for ev in list(case["events"]) + [("up", None), ("adv", 61), ("t",), ("adv", 61), ("t",)]:
            if ev[0] == "add":
                try:
                    _topo_add(c, TOPO_UNIVERSE[ev[1]], ev[2] if alt else 0)
                except KeyboardInterrupt:
                    if case.get("interrupt_close") is None:
                        raise
                if ev[1] not in added:
                    added.append(ev[1])
            elif ev[0] == "down":
                env.servers[ev[1]].down = ev[2]
            elif ev[0] == "up":
                for i, s in enumerate(env.servers):
                    if ev[1] in (None, i):
                        s.down = None
            elif ev[0] == "adv":
                env.clock.advance(ev[1])
            elif ev[0] == "b":
                try:
                    c.flush_all()          # a broadcast: it talks to every configured server, those out of rotation too
                except (OSError, MemcacheError, KeyboardInterrupt):
                    pass
            elif ev[0] == "fork":
                # the process forks (a pre-forking server, multiprocessing): the child goes on with the client object it
                # inherited, and for the same events it must send every key where the parent sends it
                if forks and forks[-1] == "child":
                    continue
                sys.stdout.flush()
                sys.stderr.flush()
                rd, wr = os.pipe()
                pid = os.fork()
                if pid == 0:
                    os.close(rd)
                    forks.append((len(rounds), wr))
                    forks.append("child")
                else:
                    os.close(wr)
                    forks.append((len(rounds), rd, pid))
            else:
                bystander()
                marks = [len(s.log) for s in env.servers]
                errs = []
                for k in TOPO_KEYS:
                    try:
                        c.get(k)
                    except (OSError, MemcacheError) as e:
                        errs.append(type(e).__name__)
                    except KeyboardInterrupt:
                        if case.get("interrupt_close") is None:
                            raise
                        errs.append("KeyboardInterrupt")
                        continue
                    except Exception as e:  # noqa: BLE001
                        raise Violation(["topology", "internal-error", type(e).__name__], "get(%r) raised %r" % (k, e))
                    if [x for x in errs if x != "KeyboardInterrupt"] and case["ignore_exc"]:
                        raise Violation(["topology", "escaped-with-ignore_exc"], "get(%r) raised %s with ignore_exc" % (k, errs[-1]))
                where = {}
                for i, s in enumerate(env.servers):
                    for rec in s.log[marks[i]:]:
                        for kk in rec.get("keys", ()):
                            where[kk.decode()] = i
                try:
                    c.get_many(TOPO_KEYS)
                except KeyboardInterrupt:
                    if case.get("interrupt_close") is None:
                        raise
                except (OSError, MemcacheError) as e:
                    if case["ignore_exc"]:
                        raise Violation(["topology", "escaped-with-ignore_exc"], "get_many raised %r with ignore_exc" % (e,))
                except Exception as e:  # noqa: BLE001
                    raise Violation(["topology", "internal-error", type(e).__name__], "get_many raised %r" % (e,))
                rounds.append((where, sorted(set(errs))))
                bystander()
        if forks and forks[-1] == "child":
            at, wr = forks[-2]
            with os.fdopen(wr, "wb") as f:
                f.write(pickle.dumps(rounds[at:]))
            os._exit(0)
        for at, rd, pid in forks:
            with os.fdopen(rd, "rb") as f:
                data = f.read()
            os.waitpid(pid, 0)
            if not data:
                raise Violation(["topology", "forked-child-failed"], "the forked child did not complete the history (an exception escaped in it)")
            theirs = pickle.loads(data)
            for j, (x, y) in enumerate(zip(rounds[at:], theirs)):
                if x != y:
                    raise Violation(["topology", "forked-child-differs"], "traffic round %d after the fork: the parent sent keys to %r (errors %r), the forked child to %r (errors %r)"
                                    % (j, x[0], x[1], y[0], y[1]))
        try:
            c.close()
        except KeyboardInterrupt:
            if case.get("interrupt_close") is None:
                raise
    return rounds, added


def check_topology(case):
    """The same history of run-time add_server calls, outages and elapsed time, once with every server spelled as the
    (host, port) tuple and once with other spellings of the same servers: the keys must go to the same servers at every
    point; no internal error may escape; in the end (all servers up, two dead_timeouts of traffic) placement is the
    rendezvous rule over all the servers the application added."""
    desc = "initial %r, events %r, ignore_exc=%r, pooled=%r" % ([TOPO_UNIVERSE[i] for i in case["initial"]], case["events"], case["ignore_exc"], case["pooled"])
    try:
        a, added = _topo_run(case, False)
        b, _ = _topo_run(case, True)
    except Violation as v:
        raise Violation(v.signature, "%s: %s" % (v, desc))
    for i, (x, y) in enumerate(zip(a, b)):
        if x != y:
            raise Violation(["topology", "spelling-changes-placement"], "traffic round %d: with tuple spellings keys went to %r (errors %r), with the other spellings to %r (errors %r): %s"
                            % (i, x[0], x[1], y[0], y[1], desc))
    names = [_topo_name(TOPO_UNIVERSE[i]) for i in added]
    for k in TOPO_KEYS:
        want = names.index(refhash.place(names, k))
        got = a[-1][0].get(k)
        if got is None or added.index(got) != want:
            raise Violation(["topology", "final-placement"], "after the history, with all servers healthy, %r goes to %r; the rule over %r gives %r: %s"
                            % (k, None if got is None else _topo_name(TOPO_UNIVERSE[got]), names, names[want], desc))
    readd_dead = any(e[0] == "add" for e in case["events"]) and any(e[0] == "down" for e in case["events"])
    return True, ["topology", "re-add+outage" if readd_dead else "plain", "ignore_exc=%r" % case["ignore_exc"]]


def topology_strategy(tier):
    ev = st.one_of(st.tuples(st.just("add"), st.integers(0, len(TOPO_UNIVERSE) - 1), st.integers(1, 4)),
                   st.tuples(st.just("down"), st.integers(0, len(TOPO_UNIVERSE) - 1), st.sampled_from(["refused", "timeout", "reset-recv"])),
                   st.tuples(st.just("up"), st.integers(0, len(TOPO_UNIVERSE) - 1)),
                   st.tuples(st.just("adv"), st.sampled_from([1.5, 30, 61])),
                   st.tuples(st.just("t")), st.tuples(st.just("t")), st.tuples(st.just("t")), st.tuples(st.just("fork")), st.tuples(st.just("b")))
    return st.fixed_dictionaries({"initial": st.lists(st.integers(0, len(TOPO_UNIVERSE) - 1), min_size=1, max_size=4, unique=True),
                                  "events": st.lists(ev, min_size=1, max_size=12), "ignore_exc": st.booleans(), "pooled": st.booleans(),
                                  "interrupt_close": st.one_of(st.none(), st.none(), st.integers(0, 12))})


def topology_cases(tier, seed):
    """a dead server re-added by the application under every spelling, at every point of the outage"""
    for target in (0, 1, 2):
        for sp in (1, 2, 3, 4):
            for kind in ("refused", "timeout"):
                for when in range(4):
                    for ie in (False, True):
                        evs = [("down", target, kind), ("t",), ("adv", 1.5), ("t",), ("up", target), ("t",)]
                        evs.insert(2 + when, ("add", target, sp))
                        yield {"initial": [0, 1, 2, 3], "events": evs + [("t",), ("adv", 30), ("t",)], "ignore_exc": ie, "pooled": bool((target + sp + when) % 2)}
    # several servers (a UNIX socket among them) down at once and due back in the same sweep; servers added at run time fail
    for downs in itertools.combinations(range(4), 2):
        for ie in (False, True):
            for late in ((), (4,)):
                evs = [("add", i, 1 + (i + len(late)) % 4) for i in late] + [("down", i, "refused") for i in downs] + [("t",), ("t",), ("adv", 61), ("up", None), ("t",), ("t",)]
                yield {"initial": [0, 1, 2, 3], "events": evs, "ignore_exc": ie, "pooled": bool(sum(downs) % 2)}
    # bringing a server back is cut short by an interruption inside a close(); later the server goes away and comes back again
    for nth in range(10):
        for ie in (False, True):
            for pooled in (False, True):
                evs = [("t",), ("down", 0, "refused"), ("t",), ("up", 0), ("b",), ("adv", 61), ("t",), ("t",), ("down", 0, "refused"), ("t",), ("up", 0), ("adv", 61), ("t",)]
                yield {"initial": [0, 1, 2], "events": evs, "ignore_exc": ie, "pooled": pooled, "interrupt_close": nth}
    # the process forks at every point of an outage; parent and child go on with the same object
    for target in (0, 2, 3):
        for when in range(6):
            for ie in (False, True):
                evs = [("t",), ("down", target, "refused"), ("t",), ("adv", 1.5), ("t",), ("up", target), ("t",), ("adv", 30), ("t",)]
                evs.insert(1 + when, ("fork",))
                yield {"initial": [0, 1, 2, 3], "events": evs, "ignore_exc": ie, "pooled": bool((target + when) % 2)}
    for sp in (0, 1, 2, 3, 4):
        for ie in (False, True):
            for kind in ("refused", "timeout", "reset-recv"):
                yield {"initial": [1, 3], "events": [("add", 0, sp), ("t",), ("down", 0, kind), ("t",), ("t",), ("adv", 1.5), ("t",), ("up", 0)],
                       "ignore_exc": ie, "pooled": bool(sp % 2)}


PARTS = [
    Part("topology-histories", "enum", check_topology, cases=topology_cases, shards={"quick": 4, "thorough": 8}, exhaustive=True),
    Part("random-topology-histories", "hyp", check_topology, strategy=topology_strategy,
         examples={"quick": 60, "thorough": 3000}, shards={"quick": 4, "thorough": 16}),
    Part("placement", "hyp", check_placement, strategy=placement_strategy,
         examples={"quick": 50, "thorough": 500}, shards={"quick": 8, "thorough": 16}),
    Part("rings-side-by-side", "enum", check_multi_ring, cases=multi_ring_cases, shards={"quick": 2, "thorough": 8}),
    Part("genuine-score-ties", "enum", check_placement, cases=real_tie_cases, shards={"quick": 2, "thorough": 8}),
    Part("nodes-of-any-type", "enum", check_placement, cases=node_object_cases, shards={"quick": 2, "thorough": 4}),
    Part("spread", "enum", check_placement, cases=spread_cases, shards={"quick": 3, "thorough": 16}),
    Part("spellings", "enum", check_spelling, cases=spelling_cases, shards={"quick": 2, "thorough": 4}, exhaustive=True),
    Part("cross-process", "enum", check_xproc, cases=xproc_cases, shards={"quick": 2, "thorough": 4}),
]


def selftest():
    refhash.selftest()

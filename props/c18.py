"""C18 - FallbackClient: reads fall through in order, writes touch only the primary."""
import inspect
import itertools

from vlib.runner import Part, Violation

from pymemcache.client.base import Client
from pymemcache.fallback import FallbackClient

PROPERTY = "C18"
LEVEL = "exploration"
# parts repeated in a child interpreter started with -O and with warnings turned into errors (vlib/runner.py, MODES)
MODE_PARTS = {"OW": ['reads-scripted', 'writes-scripted', 'a-cache-that-raises', 'used-again-after-close', 'reconfigured-cache-list', 'reads-key-kinds-and-shapes']}
RULE = ("exhaustive: 1..4 caches x every hit/miss assignment per cache (multi-key reads: every present/absent "
        "assignment of 2 keys per cache) x every read operation; every write operation x argument grid (expire, "
        "noreply, delta given positionally / by keyword / omitted) x 1..3 caches. Back-ends: scripted recording caches "
        "with the real Client's signatures and miss values (get->None, gets->(None,None), get_many->{}), and real "
        "Clients over a fake network with one memcached model per cache. Oracle: caches consulted in order 0,1,.. up "
        "to and including the first that answers, none after it; result is that cache's answer (all-miss: a "
        "miss-shaped value); a write is exactly one call on cache 0 carrying the caller's arguments (real back-end: "
        "the command received by server 0 equals the one a plain Client sends; other servers receive nothing). "
        "Hit values include falsy ones (b'', 0, '', False, [], {}) and tuples shaped like another read's miss ((None, x), (None, None), ()): a hit is a hit whatever its value. A cache that raises on a read (eleven exception types, at each position, with and without a hit before it): the error reaches the caller, it is not taken for a miss and no later cache is consulted. Used again after close(): one to three close() calls (each closes every cache once, in any order) with reads and writes judged before and after each. Long key lists (2 ... 2049 keys, thorough to 10001, as list and tuple; the primary holding a single key at the start / middle / end / position 1024 / 1400, or nothing, or everything) go through the same oracle: every consulted cache is asked once, for exactly the caller's keys. Non-trivial: >=2 caches and the first hit is not in cache 0, or a hit carries a falsy value, or a write. Required arguments at the edge: cas tokens 0 / b'0' / '0' / 2**64-1, values that are empty, 0 or False. Long lives: 3000 (thorough 30 000) reads on one FallbackClient in runs of misses, primary hits and fallback hits."
        + " noreply=None passed explicitly; 33 failure classes of a cache that raises (the socket error classes, StopIteration, the library's own)."
        + " Writes after reads: on one FallbackClient over 2-3 caches, a read (get, gets, get_many, gets_many) of the key answered by cache j or by none, once or twice, then every mutating operation on that key or another (a cas with the token the read returned): exactly one call, on cache 0, with the caller's arguments and the defaults for what the caller left out.")
MANIFEST = {
    "category": "exploration",
    "technique": "bounded-exhaustive enumeration of cache states and operations against a call-log oracle (scripted caches) and a differential oracle (real Clients over a fake network vs. a plain Client)",
    "text": "Every hit/miss assignment for 1-4 caches and every read/write operation with an argument grid is executed against the real FallbackClient; the call log of scripted caches (and the per-server command logs of memcached models behind real Clients) decides order, early stop, result and primary-only writes. Exhaustive within 4 caches / 2 keys, which is the whole decision structure of the class.",
    "note": "Scripted caches follow the Client contract for miss values; the all-miss value of FallbackClient (None vs [] vs (None, None)) is not fixed by the property and any miss-shaped value is accepted.",
    "design_ref": "DESIGN.md 3/C18",
}
ASSUMPTIONS = [
    "scripted caches return what pymemcache.client.base.Client documents for hits and misses",
    "any miss-shaped value is accepted for an all-miss read",
]

K1, K2 = "k1", "k2"
# index 0 = an ordinary truthy value; then falsy hit values, and (deserialised) values shaped like the miss of another read:
# pairs starting with None look like a gets miss, but as the value of a get they are a hit like any other
FALSY = [None, b"", 0, "", False, [], {}, (None, "not found"), (None, None), (), (0, None)]


class Scripted:
    """Recording cache with the real Client's method signatures."""

    def __init__(self, idx, present, log, vkind=0):
        self.idx = idx
        self.present = present      # set of keys present
        self.log = log
        self.vkind = vkind          # which kind of value a hit carries (falsy values are hits too)

    def _rec(self, name, **bound):
        self.log.append((self.idx, name, bound))

    def _val(self, k):
        if self.vkind:
            return FALSY[self.vkind]
        return ("v", self.idx, k)

    def get(self, key, default=None):
        self._rec("get", key=key, default=default)
        return self._val(key) if key in self.present else default

    def gets(self, key, default=None, cas_default=None):
        self._rec("gets", key=key, default=default, cas_default=cas_default)
        return (self._val(key), b"%d" % (100 + self.idx)) if key in self.present else (default, cas_default)

    def get_many(self, keys):
        keys = list(keys)           # like Client: any iterable, walked once
        self._rec("get_many", keys=keys)
        return {k: self._val(k) for k in keys if k in self.present}

    def gets_many(self, keys):
        keys = list(keys)
        self._rec("gets_many", keys=keys)
        return {k: (self._val(k), b"%d" % (100 + self.idx)) for k in keys if k in self.present}

    def set(self, key, value, expire=0, noreply=None, flags=None):
        self._rec("set", key=key, value=value, expire=expire, noreply=noreply, flags=flags)
        return True

    def add(self, key, value, expire=0, noreply=None, flags=None):
        self._rec("add", key=key, value=value, expire=expire, noreply=noreply, flags=flags)
        return True

    def replace(self, key, value, expire=0, noreply=None, flags=None):
        self._rec("replace", key=key, value=value, expire=expire, noreply=noreply, flags=flags)
        return True

    def append(self, key, value, expire=0, noreply=None, flags=None):
        self._rec("append", key=key, value=value, expire=expire, noreply=noreply, flags=flags)
        return True

    def prepend(self, key, value, expire=0, noreply=None, flags=None):
        self._rec("prepend", key=key, value=value, expire=expire, noreply=noreply, flags=flags)
        return True

    def cas(self, key, value, cas, expire=0, noreply=False, flags=None):
        self._rec("cas", key=key, value=value, cas=cas, expire=expire, noreply=noreply, flags=flags)
        return True

    def delete(self, key, noreply=None):
        self._rec("delete", key=key, noreply=noreply)
        return True

    def incr(self, key, value, noreply=False):
        self._rec("incr", key=key, value=value, noreply=noreply)
        return 1

    def decr(self, key, value, noreply=False):
        self._rec("decr", key=key, value=value, noreply=noreply)
        return 1

    def touch(self, key, expire=0, noreply=None):
        self._rec("touch", key=key, expire=expire, noreply=noreply)
        return True

    def flush_all(self, delay=0, noreply=None):
        self._rec("flush_all", delay=delay, noreply=noreply)
        return True

    def close(self):
        self._rec("close")


def selftest():
    # the scripted cache must have the real Client's parameter names, else "caller's arguments" is meaningless
    for name in ("get", "gets", "get_many", "gets_many", "set", "add", "replace", "append", "prepend", "cas",
                 "delete", "incr", "decr", "touch", "flush_all"):
        a = list(inspect.signature(getattr(Client, name)).parameters)[1:]
        b = list(inspect.signature(getattr(Scripted, name)).parameters)[1:]
        if a != b:
            raise AssertionError("Scripted.%s%r differs from Client.%s%r" % (name, b, name, a))


def _is_miss(op, r):
    if op == "get":
        return r is None
    if op == "gets":
        return r is None or (isinstance(r, tuple) and len(r) == 2 and r[0] is None)
    return r is None or (hasattr(r, "__len__") and len(r) == 0)


def check_read(case):
    op, states = case[0], case[1]           # states: tuple per cache of tuple of present keys
    vkinds = case[2] if len(case) > 2 else (0,) * len(states)
    n = len(states)
    log = []
    caches = [Scripted(i, set(st), log, vk) for i, (st, vk) in enumerate(zip(states, vkinds))]
    fc = FallbackClient(caches)
    keys = [K1, K2]
    try:
        if op in ("get", "gets"):
            r = getattr(fc, op)(K1)
        else:
            r = getattr(fc, op)(keys)
    except Exception as e:  # noqa: BLE001
        raise Violation(["read-raises", op], "%s raised %r for cache states %r" % (op, e, states))
    if op in ("get", "gets"):
        answering = next((i for i, st in enumerate(states) if K1 in st), None)
    else:
        answering = next((i for i, st in enumerate(states) if st), None)
    consulted = [i for i, name, _ in log]
    want = list(range(n if answering is None else answering + 1))
    desc = "%s with cache states %r" % (op, states) + (" hit values %r" % ([FALSY[v] if v else "truthy" for v in vkinds],) if any(vkinds) else "")
    if any(name != op for _, name, _ in log):
        raise Violation(["read-wrong-method", op], "%s: called %r" % (desc, [x[1] for x in log]))
    if consulted != want:
        raise Violation(["read-consulted", op], "%s consulted caches %r, expected %r" % (desc, consulted, want))
    for i, name, b in log:
        if op in ("get", "gets") and b["key"] != K1:
            raise Violation(["read-args", op], "%s: cache %d asked for %r" % (desc, i, b["key"]))
        if op in ("get_many", "gets_many") and list(b["keys"]) != keys:
            raise Violation(["read-args", op], "%s: cache %d asked for %r" % (desc, i, b["keys"]))
    if answering is None:
        if not _is_miss(op, r):
            raise Violation(["read-allmiss", op], "%s returned %r, not a miss" % (desc, r))
    else:
        c = caches[answering]
        if op == "get":
            exp = c._val(K1)
        elif op == "gets":
            exp = (c._val(K1), b"%d" % (100 + answering))
        elif op == "get_many":
            exp = {k: c._val(k) for k in keys if k in c.present}
        else:
            exp = {k: (c._val(k), b"%d" % (100 + answering)) for k in keys if k in c.present}
        if r != exp:
            raise Violation(["read-result", op], "%s returned %r, expected cache %d's answer %r" % (desc, r, answering, exp))
    return (n >= 2 and answering not in (0,)) or any(vkinds), ["read", op, "n=%d" % n,
                                                 "answer=" + ("none" if answering is None else str(answering))]


def read_cases(tier, seed):
    for n in (1, 2, 3, 4):
        for st in itertools.product([(), (K1,)], repeat=n):
            for op in ("get", "gets"):
                yield (op, st)
        for st in itertools.product([(), (K1,), (K2,), (K1, K2)], repeat=n):
            for op in ("get_many", "gets_many"):
                yield (op, st)
    # hits whose value is falsy (b"", 0, "", False, [], {}) are hits: no fall-through past them
    for n in (1, 2, 3):
        for st in itertools.product([(), (K1,)], repeat=n):
            if not any(st):
                continue
            for vk in itertools.product(range(len(FALSY)), repeat=n):
                if not any(v and s_ for v, s_ in zip(vk, st)):
                    continue
                for op in ("get", "gets", "get_many", "gets_many"):
                    yield (op, st, vk)


# ---- long key lists -----------------------------------------------------------

def long_read_cases(tier, seed):
    sizes = [2, 100, 1023, 1024, 1025, 1500, 2049] + ([4096, 5000, 10001] if tier == "thorough" else [])
    for n in sizes:
        spots = sorted({0, n // 2, n - 1, min(n - 1, 1400 % n), min(n - 1, 1024)})
        for op in ("get_many", "gets_many"):
            for coll in ("list", "tuple"):
                for where in spots:
                    # the primary holds one key only, the older caches hold everything / the middle cache holds one key
                    yield {"op": op, "n": n, "coll": coll, "present": [[where], "all"]}
                    yield {"op": op, "n": n, "coll": coll, "present": [[], [where], "all"]}
                yield {"op": op, "n": n, "coll": coll, "present": [[], "all"]}
                yield {"op": op, "n": n, "coll": coll, "present": ["all", "all"]}
                yield {"op": op, "n": n, "coll": coll, "present": [[], []]}


def check_read_long(case):
    op, n = case["op"], case["n"]
    keys = ["key-%05d" % i for i in range(n)]
    arg = keys if case["coll"] == "list" else tuple(keys)
    log = []
    caches = [Scripted(i, set(keys) if pr == "all" else {keys[j] for j in pr}, log) for i, pr in enumerate(case["present"])]
    fc = FallbackClient(caches)
    desc = "%s over a %s of %d keys; caches hold %r" % (op, case["coll"], n, case["present"])
    try:
        r = getattr(fc, op)(arg)
    except Exception as e:  # noqa: BLE001
        raise Violation(["read-raises", op, "long"], "%s raised %r" % (desc, e))
    answering = next((i for i, c in enumerate(caches) if c.present), None)
    consulted = [i for i, _name, _b in log]
    want = list(range(len(caches) if answering is None else answering + 1))
    if consulted != want:
        raise Violation(["read-consulted", op, "long"], "%s consulted caches %r, expected %r" % (desc, consulted, want))
    for i, name, b in log:
        if name != op or list(b["keys"]) != keys:
            raise Violation(["read-args", op, "long"], "%s: cache %d was asked %s for %d keys (%r...), not for the caller's keys" % (desc, i, name, len(b["keys"]), list(b["keys"])[:2]))
    if answering is None:
        if not _is_miss(op, r):
            raise Violation(["read-allmiss", op, "long"], "%s returned %d entries, not a miss" % (desc, len(r)))
    else:
        c = caches[answering]
        exp = {k: (c._val(k) if op == "get_many" else (c._val(k), b"%d" % (100 + answering))) for k in keys if k in c.present}
        if r != exp:
            raise Violation(["read-result", op, "long"], "%s returned %d entries (%r...), expected cache %d's answer of %d entries" % (desc, len(r), sorted(r.items())[:2], answering, len(exp)))
    return n > 1000, ["read-long", op, "n>1024" if n > 1024 else "n<=1024"]


# ---- kinds of keys and shapes of key collections ---------------------------------

KEY_KINDS = {
    "ascii": ["alpha", "beta", "gamma"],
    "unicode": ["\u043a\u043b\u044e\u0447-1", "cl\u00e9-2", "\u9375-3"],          # legal where unicode keys are enabled
    "bytes-high": [b"\xff\xfe-1", b"caf\xc3\xa9-2", b"\x80-3"],
    "mixed": ["alpha", b"beta", "cl\u00e9-3"],
}


def key_shape_cases(tier, seed):
    for kind in KEY_KINDS:
        for shape in ("list", "tuple", "iter", "generator", "map", "dictview", "wrapper"):
            for op in ("get_many", "gets_many"):
                for present in ([[], "all"], [[1], "all"], [[], [], [0, 2]], ["all"], [[], []], [[], [2], "all"]):
                    yield {"op": op, "kind": kind, "shape": shape, "present": present}
        for op in ("get", "gets"):
            for present in ([[], "all"], [[0], "all"], [[], [], [0]], [[], []]):
                yield {"op": op, "kind": kind, "shape": "single", "present": present}


def check_key_shapes(case):
    from vlib.ops import _keys_as
    op = case["op"]
    keys = list(KEY_KINDS[case["kind"]])
    log = []
    caches = [Scripted(i, set(keys) if pr == "all" else {keys[j] for j in pr}, log) for i, pr in enumerate(case["present"])]
    fc = FallbackClient(caches)
    desc = "%s with %s keys %r given as %s; caches hold %r" % (op, case["kind"], keys, case["shape"], case["present"])
    single = op in ("get", "gets")
    try:
        r = getattr(fc, op)(keys[0]) if single else getattr(fc, op)(_keys_as(list(keys), case["shape"]))
    except Exception as e:  # noqa: BLE001
        raise Violation(["read-raises", op, "key-kinds"], "%s raised %r" % (desc, e))
    if single:
        answering = next((i for i, c in enumerate(caches) if keys[0] in c.present), None)
    else:
        answering = next((i for i, c in enumerate(caches) if c.present), None)
    consulted = [i for i, _n, _b in log]
    want = list(range(len(caches) if answering is None else answering + 1))
    if consulted != want:
        raise Violation(["read-consulted", op, "key-kinds"], "%s consulted caches %r, expected %r" % (desc, consulted, want))
    for i, name, b in log:
        asked = [b["key"]] if single else list(b["keys"])
        if name != op or asked != (keys[:1] if single else keys):
            raise Violation(["read-args", op, "key-kinds"], "%s: cache %d was asked %s for %r, not for the caller's keys" % (desc, i, name, asked))
    if answering is None:
        if not _is_miss(op, r):
            raise Violation(["read-allmiss", op, "key-kinds"], "%s returned %r, not a miss" % (desc, r))
    else:
        c = caches[answering]
        if op == "get":
            exp = c._val(keys[0])
        elif op == "gets":
            exp = (c._val(keys[0]), b"%d" % (100 + answering))
        else:
            exp = {k: (c._val(k) if op == "get_many" else (c._val(k), b"%d" % (100 + answering))) for k in keys if k in c.present}
        if r != exp:
            raise Violation(["read-result", op, "key-kinds"], "%s returned %r, expected cache %d's answer %r" % (desc, r, answering, exp))
    return answering not in (0,) and len(caches) > 1, ["key-kinds", case["kind"], case["shape"], op]


# ---- writes ----------------------------------------------------------------

# op -> ordered FallbackClient parameters after the leading ones, with FallbackClient's documented defaults
WRITE_SIG = {
    "set": (["key", "value"], [("expire", 0), ("noreply", True)]),
    "add": (["key", "value"], [("expire", 0), ("noreply", True)]),
    "replace": (["key", "value"], [("expire", 0), ("noreply", True)]),
    "append": (["key", "value"], [("expire", 0), ("noreply", True)]),
    "prepend": (["key", "value"], [("expire", 0), ("noreply", True)]),
    "cas": (["key", "value", "cas"], [("expire", 0), ("noreply", True)]),
    "delete": (["key"], [("noreply", True)]),
    "incr": (["key", "value"], [("noreply", True)]),
    "decr": (["key", "value"], [("noreply", True)]),
    "touch": (["key"], [("expire", 0), ("noreply", True)]),
    "flush_all": ([], [("delay", 0), ("noreply", True)]),
}
REQ_VALUES = {"key": "the-key", "value": b"payload", "cas": b"123"}
OPT_VALUES = {"expire": [0, 7, -1, 2592001], "noreply": [True, False, None], "delay": [0, 3]}


def write_cases(tier, seed):
    for n in (1, 2, 3):
        for op, (req, opt) in WRITE_SIG.items():
            # each optional: omitted / positional / keyword, with each grid value
            choices = []
            for name, _default in opt:
                c = [("omit", None)]
                for v in OPT_VALUES[name]:
                    c.append(("pos", v))
                    c.append(("kw", v))
                choices.append(c)
            for combo in itertools.product(*choices):
                # positional arguments must form a prefix
                modes = [m for m, _ in combo]
                ok = True
                seen_nonpos = False
                for m in modes:
                    if m != "pos":
                        seen_nonpos = True
                    elif seen_nonpos:
                        ok = False
                if ok:
                    yield (op, n, tuple(combo))
    # required arguments at the edge of their range and falsy: cas token 0 (int, bytes, text) and 2**64-1, an empty value, the
    # value 0, a delta of 0
    for n in (1, 2):
        for op, (req, opt) in WRITE_SIG.items():
            for name, variants in (("cas", [0, b"0", "0", 2 ** 64 - 1, b"18446744073709551615"]), ("value", [b"", 0, "", False, 0.0])):
                if name not in req:
                    continue
                for vi in range(len(variants)):
                    for combo in ((("omit", None),) * len(opt), tuple(("pos", OPT_VALUES[o][-1]) for o, _d in opt), tuple(("kw", OPT_VALUES[o][1]) for o, _d in opt)):
                        yield (op, n, combo, name, vi)


def check_write(case):
    op, n, combo = case[:3]
    req, opt = WRITE_SIG[op]
    log = []
    caches = [Scripted(i, {K1}, log) for i in range(n)]
    fc = FallbackClient(caches)
    args = [(5 if (op in ("incr", "decr") and r == "value") else REQ_VALUES[r]) for r in req]
    if len(case) > 3:
        variants = {"cas": [0, b"0", "0", 2 ** 64 - 1, b"18446744073709551615"], "value": [b"", 0, "", False, 0.0]}[case[3]]
        args[req.index(case[3])] = variants[case[4]]
    kwargs = {}
    intended = dict(zip(req, args))
    for (name, default), (mode, v) in zip(opt, combo):
        if mode == "omit":
            intended[name] = default
        elif mode == "pos":
            args.append(v)
            intended[name] = v
        else:
            kwargs[name] = v
            intended[name] = v
    desc = "%s(*%r, **%r) over %d caches" % (op, args, kwargs, n)
    try:
        getattr(fc, op)(*args, **kwargs)
    except Exception as e:  # noqa: BLE001
        raise Violation(["write-raises", op], "%s raised %r" % (desc, e))
    if len(log) != 1 or log[0][0] != 0 or log[0][1] != op:
        raise Violation(["write-calls", op], "%s produced calls %r, expected exactly one %s on cache 0"
                        % (desc, [(i, nm) for i, nm, _ in log], op))
    bound = log[0][2]
    for name, v in intended.items():
        if bound.get(name) != v or type(bound.get(name)) is not type(v):
            raise Violation(["write-args", op, name], "%s: cache 0 received %s=%r, caller meant %r (all: %r)"
                            % (desc, name, bound.get(name), v, bound))
    if bound.get("flags") is not None:
        raise Violation(["write-args", op, "flags"], "%s: cache 0 received flags=%r nobody passed" % (desc, bound.get("flags")))
    return True, ["write", op, "n=%d" % n]


# ---- a cache whose read raises -------------------------------------------------------------------------------------

class Raising(Scripted):
    """a cache (not configured to ignore errors) whose read fails: an undeserialisable item, a protocol error, a broken pipe"""

    def __init__(self, idx, present, log, exc):
        Scripted.__init__(self, idx, present, log)
        self.exc = exc

    def _fail(self, name, **b):
        self._rec(name, **b)
        raise self.exc("cache %d cannot answer" % self.idx)

    def get(self, key, default=None):
        self._fail("get", key=key, default=default)

    def gets(self, key, default=None, cas_default=None):
        self._fail("gets", key=key, default=default, cas_default=cas_default)

    def get_many(self, keys):
        self._fail("get_many", keys=list(keys))

    def gets_many(self, keys):
        self._fail("gets_many", keys=list(keys))


def _raising_excs():
    import socket
    import ssl
    from pymemcache.exceptions import (MemcacheError, MemcacheUnknownError, MemcacheIllegalInputError, MemcacheServerError, MemcacheUnexpectedCloseError,
                                       MemcacheUnknownCommandError, MemcacheClientError)
    return [TypeError, ValueError, KeyError, AttributeError, UnicodeDecodeError.__mro__[1], OSError, MemcacheError, MemcacheUnknownError, MemcacheIllegalInputError, LookupError, EOFError,
            # what a cache that is down, unreachable or confused raises: no class of them makes a failure a miss
            ConnectionRefusedError, ConnectionResetError, ConnectionAbortedError, BrokenPipeError, TimeoutError, socket.timeout, socket.gaierror, socket.herror, ssl.SSLError,
            InterruptedError, BlockingIOError, FileNotFoundError, PermissionError, MemcacheServerError, MemcacheUnexpectedCloseError, MemcacheUnknownCommandError, MemcacheClientError,
            RuntimeError, IndexError, StopIteration, AssertionError, NotImplementedError, Exception]


def raising_cases(tier, seed):
    from pymemcache.exceptions import MemcacheError, MemcacheUnknownError, MemcacheIllegalInputError
    excs = _raising_excs()
    for ei in range(len(excs)):
        for n in (2, 3):
            for at in range(n):
                for before_hits in (False, True):
                    for op in ("get", "gets", "get_many", "gets_many"):
                        yield (ei, n, at, before_hits, op)


def check_raising(case):
    """caches before the failing one miss (or one of them hits); the failing cache's error is the caller's to see - it is not a
    miss: no later cache is consulted on its account"""
    from pymemcache.exceptions import MemcacheError, MemcacheUnknownError, MemcacheIllegalInputError
    excs = _raising_excs()
    ei, n, at, before_hits, op = case
    exc = excs[ei]
    log = []
    caches = []
    for i in range(n):
        if i == at:
            caches.append(Raising(i, {K1, K2}, log, exc))
        else:
            caches.append(Scripted(i, {K1, K2} if (i > at or (before_hits and i == at - 1)) else set(), log))
    fc = FallbackClient(caches)
    desc = "%s; cache %d of %d raises %s, %s" % (op, at, n, exc.__name__, "the cache before it holds the keys" if before_hits and at else "the caches before it miss")
    try:
        r = ("ok", getattr(fc, op)(K1) if op in ("get", "gets") else getattr(fc, op)([K1, K2]))
    except Exception as e:  # noqa: BLE001
        r = ("exc", e)
    consulted = [i for i, _n, _b in log]
    hit_first = before_hits and at > 0
    if hit_first:
        want_consulted = list(range(at))
        if consulted != want_consulted or r[0] != "ok":
            raise Violation(["raising-cache", "not-reached", op], "%s: consulted %r, outcome %r - the hit in cache %d answers" % (desc, consulted, r, at - 1))
        return True, ["raising-cache", "hit-before"]
    if consulted != list(range(at + 1)):
        raise Violation(["raising-cache", "consulted", op], "%s: consulted caches %r, expected %r" % (desc, consulted, list(range(at + 1))))
    if not (r[0] == "exc" and type(r[1]) is exc):
        raise Violation(["raising-cache", "swallowed", op], "%s: the call returned %r instead of passing the cache's error on" % (desc, r))
    return True, ["raising-cache", exc.__name__]


# ---- the object is used again after close() -------------------------------------------------------------------------

def after_close_cases(tier, seed):
    for n in (2, 3, 4):
        for st_ in itertools.product([(), (K1,), (K1, K2)], repeat=n):
            if not any(st_):
                continue
            for closes in (1, 2, 3):
                yield (st_, closes)


def check_after_close(case):
    """close() closes every cache once and changes nothing else: afterwards reads consult the caches in the configured order
    and writes go to the first one, exactly as before (a Client re-opens its connection on the next call)"""
    states, closes = case
    n = len(states)
    log = []
    caches = [Scripted(i, set(s_), log) for i, s_ in enumerate(states)]
    fc = FallbackClient(caches)
    desc = "cache states %r, %d close() call(s)" % (states, closes)

    def judge(when):
        del log[:]
        r = fc.get(K1)
        ans = next((i for i, s_ in enumerate(states) if K1 in s_), None)
        if [i for i, _n, _b in log] != list(range(n if ans is None else ans + 1)) or r != (None if ans is None else caches[ans]._val(K1)):
            raise Violation(["after-close", "read", when], "%s: get consulted caches %r and returned %r (first hit is in cache %r): %s" % (when, [i for i, _n, _b in log], r, ans, desc))
        del log[:]
        rm = fc.get_many([K1, K2])
        ansm = next((i for i, s_ in enumerate(states) if s_), None)
        if [i for i, _n, _b in log] != list(range(n if ansm is None else ansm + 1)) or rm != {k: caches[ansm]._val(k) for k in (K1, K2) if k in states[ansm]}:
            raise Violation(["after-close", "read-many", when], "%s: get_many consulted caches %r and returned %r (first answer is cache %r): %s" % (when, [i for i, _n, _b in log], rm, ansm, desc))
        for opn, args in (("set", (K1, b"v")), ("delete", (K2,)), ("incr", (K1, 1)), ("touch", (K1, 5))):
            del log[:]
            getattr(fc, opn)(*args)
            if [(i, nm) for i, nm, _b in log] != [(0, opn)]:
                raise Violation(["after-close", "write", when], "%s: %s produced calls %r, expected exactly one on cache 0: %s" % (when, opn, [(i, nm) for i, nm, _b in log], desc))
    judge("before close()")
    for c_ in range(closes):
        del log[:]
        fc.close()
        closed = sorted(i for i, nm, _b in log if nm == "close")
        if closed != list(range(n)) or any(nm != "close" for _i, nm, _b in log):
            raise Violation(["after-close", "close-calls"], "close() number %d produced calls %r, expected one close per cache: %s" % (c_ + 1, [(i, nm) for i, nm, _b in log], desc))
        judge("after close() number %d" % (c_ + 1))
    return True, ["after-close", "n=%d" % n, "closes=%d" % closes]


def reconfig_cases(tier, seed):
    for how in ("insert-front", "reassign", "reverse", "pop-front", "append"):
        for op in list(WRITE_SIG) + ["get", "gets", "get_many", "gets_many"]:
            for n in (2, 3):
                yield (how, op, n)


def check_reconfig(case):
    """`caches` is the class's only configuration: after it is changed on a live object (a new primary promoted, the
    list reassigned) reads follow the new order and writes go to the new first cache"""
    how, op, n = case
    log = []
    caches = [Scripted(i, {K1} if i == n - 1 else set(), log) for i in range(n)]
    fc = FallbackClient(list(caches))
    fc.get(K1)                       # some traffic before the change
    fresh = Scripted(99, set(), log)
    if how == "insert-front":
        fc.caches.insert(0, fresh)
    elif how == "reassign":
        fc.caches = [fresh] + caches[::-1]
    elif how == "reverse":
        fc.caches.reverse()
    elif how == "pop-front":
        fc.caches.pop(0)
    else:
        fc.caches.append(fresh)
    order = [c.idx for c in fc.caches]
    del log[:]
    desc = "%s after `caches` was changed by %s (order now %r)" % (op, how, order)
    if op in WRITE_SIG:
        req, _opt = WRITE_SIG[op]
        args = [(5 if (op in ("incr", "decr") and r == "value") else REQ_VALUES[r]) for r in req]
        getattr(fc, op)(*args)
        if [i for i, _n, _b in log] != [order[0]]:
            raise Violation(["reconfig-write"], "%s wrote to caches %r, the first cache is %r" % (desc, [i for i, _n, _b in log], order[0]))
    else:
        r = getattr(fc, op)(K1) if op in ("get", "gets") else getattr(fc, op)([K1, K2])
        holder = next((c.idx for c in fc.caches if K1 in c.present), None)
        want = order if holder is None else order[:order.index(holder) + 1]
        if [i for i, _n, _b in log] != want:
            raise Violation(["reconfig-read"], "%s consulted %r, expected %r" % (desc, [i for i, _n, _b in log], want))
    return True, ["reconfigured", how]


def fresh_container_cases(tier, seed):
    for op in ("get_many", "gets_many"):
        for n in (1, 2, 3):
            yield (op, n)


def check_fresh_container(case):
    """a caller may do what it likes with a returned container (e.g. collect read-through results into it): that must
    not change what later reads - on this or any other FallbackClient - return"""
    op, n = case
    log = []
    a = FallbackClient([Scripted(i, set(), log) for i in range(n)])
    r = getattr(a, op)([K1, K2])
    try:
        if isinstance(r, list):
            r.append(("polluted", 1))
        elif isinstance(r, dict):
            r["polluted"] = 1
    except Exception:  # noqa: BLE001
        pass
    holder = Scripted(7, {K1}, log)
    b = FallbackClient([FallbackClient([Scripted(5, set(), log), Scripted(6, set(), log)]), holder])
    del log[:]
    r2 = getattr(b, op)([K1, K2])
    if 7 not in [i for i, _n, _b in log]:
        raise Violation(["stale-container"], "%s: after a caller mutated the container an earlier all-miss read returned, a later all-miss read answered %r and the cache holding the key was never consulted" % (op, r2))
    r3 = getattr(a, op)([K1, K2])
    if not _is_miss(op, r3):
        raise Violation(["stale-container"], "%s: an all-miss read returned %r (left over from a container handed to an earlier caller)" % (op, r3))
    return True, ["fresh-container", op]


# ---- real Clients over the fake network ---------------------------------------------------


def _real_env(n, states=None, vkinds=None, ignore_exc=False):
    from vlib.harness import Env
    from vlib.mcserver import Item
    env = Env(nservers=n)
    caches = []
    for i, srv in enumerate(env.servers):
        if states is not None:
            for k in states[i]:
                val = b"" if (vkinds and vkinds[i]) else b"v%d-%s" % (i, k.encode())
                srv.store[k.encode()] = Item(val, 0, 0, srv._next_cas(), srv.clock.now)
        caches.append(Client(env.addrs[i], socket_module=env.net, ignore_exc=ignore_exc))
    return env, caches


def check_read_real(case):
    op, states = case[0], case[1]
    vkinds = case[2] if len(case) > 2 else (0,) * len(states)
    n = len(states)
    env, caches = _real_env(n, states, vkinds)
    fc = FallbackClient(caches)
    r = env.call(getattr(fc, op), K1) if op in ("get", "gets") else env.call(getattr(fc, op), [K1, K2])
    desc = "%s over real Clients with cache states %r%s" % (op, states, " (empty-bytes values)" if any(vkinds) else "")
    if r[0] == "exc":
        raise Violation(["read-raises", op, "real"], "%s raised %r" % (desc, r[1]))
    if op in ("get", "gets"):
        answering = next((i for i, st in enumerate(states) if K1 in st), None)
    else:
        answering = next((i for i, st in enumerate(states) if st), None)
    consulted = [i for i, srv in enumerate(env.servers) if srv.log]
    want = list(range(n if answering is None else answering + 1))
    if consulted != want:
        raise Violation(["read-consulted", op, "real"], "%s: servers %r received commands, expected %r" % (desc, consulted, want))
    for i in consulted:
        if len(env.servers[i].log) != 1:
            raise Violation(["read-consulted-twice", op, "real"], "%s: server %d received %r" % (desc, i, env.servers[i].log))
    if answering is None:
        if not _is_miss(op, r[1]):
            raise Violation(["read-allmiss", op, "real"], "%s returned %r, not a miss" % (desc, r[1]))
    else:
        def val(k):
            return b"" if vkinds[answering] else b"v%d-%s" % (answering, k.encode())
        present = [k for k in (K1, K2) if k in states[answering]]
        if op == "get":
            exp = val(K1)
        elif op == "gets":
            exp = (val(K1), b"%d" % (1 + sorted(states[answering]).index(K1)))
        elif op == "get_many":
            exp = {k: val(k) for k in present}
        else:
            exp = {k: (val(k), b"%d" % (1 + list(states[answering]).index(k))) for k in present}
        if r[1] != exp:
            raise Violation(["read-result", op, "real"], "%s returned %r, expected server %d's answer %r" % (desc, r[1], answering, exp))
    return (n >= 2 and answering not in (0,)) or any(vkinds), ["read-real", op, "n=%d" % n]


def read_real_cases(tier, seed):
    for c in read_cases(tier, seed):
        if len(c) > 2:
            if all(v in (0, 1) for v in c[2]):
                yield c
        elif len(c[1]) <= 3 or tier == "thorough":
            yield c


def check_write_real(case):
    op, n, combo = case[:3]
    req, opt = WRITE_SIG[op]
    args = [(5 if (op in ("incr", "decr") and r == "value") else REQ_VALUES[r]) for r in req]
    if len(case) > 3:
        variants = {"cas": [0, b"0", "0", 2 ** 64 - 1, b"18446744073709551615"], "value": [b"", 0, "", False, 0.0]}[case[3]]
        args[req.index(case[3])] = variants[case[4]]
        if op in ("incr", "decr") and type(args[req.index(case[3])]) is not int:
            return False, ["n/a"]
    kwargs = {}
    for (name, default), (mode, v) in zip(opt, combo):
        if mode == "pos":
            args.append(v)
        elif mode == "kw":
            kwargs[name] = v
    env, caches = _real_env(n, [(K1,)] * n)
    fc = FallbackClient(caches)
    r = env.call(getattr(fc, op), *args, **kwargs)
    desc = "%s(*%r, **%r) over %d real Clients" % (op, args, kwargs, n)
    if r[0] == "exc":
        raise Violation(["write-raises", op, "real"], "%s raised %r" % (desc, r[1]))
    # reference: what a plain Client sends for the same call, with FallbackClient's documented defaults filled in
    full = dict(zip(req, args[:len(req)]))
    for (name, default), (mode, v) in zip(opt, combo):
        full[name] = default if mode == "omit" else v
    renv, rc = _real_env(1, [(K1,)])
    rr = renv.call(getattr(rc[0], op), **full)
    if rr[0] == "exc":
        raise Violation(["reference-raises", op], "plain Client raised %r for %r" % (rr[1], full))
    if env.servers[0].log != renv.servers[0].log:
        raise Violation(["write-command", op, "real"], "%s: primary received %r, a plain Client sends %r" % (desc, env.servers[0].log, renv.servers[0].log))
    for i in range(1, n):
        if env.servers[i].log:
            raise Violation(["write-to-fallback", op, "real"], "%s: fallback server %d received %r" % (desc, i, env.servers[i].log))
    return True, ["write-real", op, "n=%d" % n]


def long_life_cases(tier, seed):
    """one FallbackClient used for thousands of reads: runs of misses everywhere, of primary hits, of fallback hits, mixed"""
    n = 3000 if tier == "quick" else 30000
    for ncaches in (1, 2, 3):
        for pattern in ("all-miss", "primary", "last", "mixed", "miss-then-hit"):
            yield {"n": n, "caches": ncaches, "pattern": pattern}


def check_long_life(case):
    n, nc, pattern = case["n"], case["caches"], case["pattern"]
    log = []
    keys = ["k%d" % i for i in range(7)]
    present = {"all-miss": [set()] * nc, "primary": [set(keys)] + [set()] * (nc - 1), "last": [set()] * (nc - 1) + [set(keys)],
               "mixed": [set(keys[i::nc]) for i in range(nc)], "miss-then-hit": [set()] * nc}[pattern]
    caches = [Scripted(i, set(present[i]), log) for i in range(nc)]
    fc = FallbackClient(caches)
    x = (n * 31 + nc * 7 + len(pattern)) & 0x7FFFFFFF
    for i in range(n):
        x = (x * 1103515245 + 12345) & 0x7FFFFFFF
        op = ("get", "gets", "get_many", "gets_many")[(x >> 16) % 4]
        k = keys[(x >> 8) % len(keys)]
        if pattern == "miss-then-hit" and i == n - 50:
            caches[-1].present = set(keys)
        held = [i_ for i_, c_ in enumerate(caches) if k in c_.present]
        del log[:]
        try:
            r = getattr(fc, op)(k) if op in ("get", "gets") else getattr(fc, op)([k])
        except Exception as e:  # noqa: BLE001
            raise Violation(["long-life", "raises", type(e).__name__], "read number %d (%s(%r)) on one FallbackClient over %d caches (%s) raised %r" % (i + 1, op, k, nc, pattern, e))
        consulted = [i_ for i_, nm, _b in log]
        want = list(range(held[0] + 1)) if held else list(range(nc))
        if consulted != want:
            raise Violation(["long-life", "consulted"], "read number %d (%s(%r)) consulted caches %r, expected %r (%d caches, %s)" % (i + 1, op, k, consulted, want, nc, pattern))
        miss = {"get": None, "gets": (None, None), "get_many": {}, "gets_many": {}}[op]
        if (not held) and r != miss and r != [] :
            raise Violation(["long-life", "miss-shape"], "read number %d (%s(%r)) returned %r for a miss everywhere" % (i + 1, op, k, r))
        if held and (r == miss or r == []):
            raise Violation(["long-life", "hit-lost"], "read number %d (%s(%r)) returned %r although cache %d holds the key" % (i + 1, op, k, r, held[0]))
    return True, ["long-life", pattern, "caches=%d" % nc]


# ---- a write after a read on the same object ----------------------------------------------------------------------------

READS_BEFORE = ("get", "gets", "get_many", "gets_many")


def write_after_read_cases(tier, seed):
    """one FallbackClient: a read of the key that is answered by cache j (or by none), once or twice, then every mutating
    operation on that key and on another one - whichever cache has just answered, the write goes to the first"""
    for n in (2, 3):
        for holder in list(range(n)) + [None]:
            for rd in READS_BEFORE:
                for times in (1, 2):
                    for op in WRITE_SIG:
                        for same in (True, False):
                            yield {"n": n, "holder": holder, "read": rd, "times": times, "op": op, "same_key": same}


def check_write_after_read(case):
    n, holder, rd, op = case["n"], case["holder"], case["read"], case["op"]
    req, opt = WRITE_SIG[op]
    log = []
    key = REQ_VALUES["key"]
    caches = [Scripted(i, {key} if i == holder else set(), log) for i in range(n)]
    fc = FallbackClient(caches)
    for _ in range(case["times"]):
        r = getattr(fc, rd)(key) if rd in ("get", "gets") else getattr(fc, rd)([key, "another"])
    token = b"123"
    if rd == "gets" and holder is not None:
        token = r[1]                       # the application hands back the token it was given
    elif rd == "gets_many" and holder is not None:
        token = r[key][1]
    del log[:]
    wkey = key if case["same_key"] else "another"
    vals = {"key": wkey, "value": 5 if op in ("incr", "decr") else b"payload", "cas": token}
    args = [vals[r_] for r_ in req]
    desc = "%s(%r) answered by %s%s, then %s(*%r) on the same FallbackClient over %d caches" % (
        rd, key, "cache %d" % holder if holder is not None else "no cache", " (twice)" if case["times"] == 2 else "", op, args, n)
    try:
        getattr(fc, op)(*args)
    except Exception as e:  # noqa: BLE001
        raise Violation(["write-after-read", "raises", op], "%s raised %r" % (desc, e))
    if len(log) != 1 or log[0][0] != 0 or log[0][1] != op:
        raise Violation(["write-after-read", "calls", op], "%s produced calls %r, expected exactly one %s on cache 0" % (desc, [(i, nm) for i, nm, _ in log], op))
    bound = log[0][2]
    for name, v in zip(req, args):
        if bound.get(name) != v or type(bound.get(name)) is not type(v):
            raise Violation(["write-after-read", "args", op, name], "%s: cache 0 received %s=%r, caller meant %r" % (desc, name, bound.get(name), v))
    for name, default in opt:
        if bound.get(name) != default:
            raise Violation(["write-after-read", "args", op, name], "%s: cache 0 received %s=%r, the caller left it at its default %r" % (desc, name, bound.get(name), default))
    return holder not in (0, None), ["write-after-read", op, rd, "holder=%s" % holder]


PARTS = [
    Part("long-lives", "enum", check_long_life, cases=long_life_cases, shards={"quick": 5, "thorough": 15}),
    Part("reads-scripted", "enum", check_read, cases=read_cases, shards={"quick": 2, "thorough": 2}, exhaustive=True),
    Part("writes-after-reads", "enum", check_write_after_read, cases=write_after_read_cases, shards={"quick": 2, "thorough": 2}, exhaustive=True),
    Part("writes-scripted", "enum", check_write, cases=write_cases, shards={"quick": 2, "thorough": 2}, exhaustive=True),
    Part("reads-key-kinds-and-shapes", "enum", check_key_shapes, cases=key_shape_cases, shards={"quick": 2, "thorough": 2}, exhaustive=True),
    Part("reads-long-key-lists", "enum", check_read_long, cases=long_read_cases, shards={"quick": 4, "thorough": 8}, exhaustive=True),
    Part("a-cache-that-raises", "enum", check_raising, cases=raising_cases, shards={"quick": 2, "thorough": 2}, exhaustive=True),
    Part("used-again-after-close", "enum", check_after_close, cases=after_close_cases, shards={"quick": 2, "thorough": 2}, exhaustive=True),
    Part("reconfigured-cache-list", "enum", check_reconfig, cases=reconfig_cases, shards={"quick": 1, "thorough": 1}, exhaustive=True),
    Part("returned-containers", "enum", check_fresh_container, cases=fresh_container_cases, shards={"quick": 1, "thorough": 1}, exhaustive=True),
    Part("reads-real", "enum", check_read_real, cases=read_real_cases, shards={"quick": 4, "thorough": 4}, exhaustive=True),
    Part("writes-real", "enum", check_write_real, cases=write_cases, shards={"quick": 4, "thorough": 4}, exhaustive=True),
]

"""C03 - reply parsing does not depend on how the byte stream is split."""
import itertools

from hypothesis import strategies as st

from vlib import mcserver, ops
from vlib.harness import Env
from vlib.mcserver import Item
from vlib.runner import Part, Violation

PROPERTY = "C03"
LEVEL = "exploration"
# parts repeated in a child interpreter started with -O and with warnings turned into errors (vlib/runner.py, MODES)
MODE_PARTS = {"OW": ['all-cut-subsets', 'after-a-history']}
RULE = ("scenario = (items preloaded in the memcached model, client configuration, one call); its reply stream is "
        "recorded with unsplit delivery, then the same scenario is re-run with the stream cut at given positions "
        "(optionally an EINTR before every piece, reported in rotation as InterruptedError, as a socket wrapper's own OSError subclass with errno EINTR, and as ssl.SSLError with errno EINTR). Corpus: get/gets/gat/gats hits and misses; values containing CR LF, "
        "END, VALUE lines, a lone CR at the end, empty values; multi-key replies; value sizes 0,1,4090..4100,8190..8194,"
        "100000; store/delete/incr/touch/version/flush lines; set_many/delete_many multi-line replies, also with mixed outcomes (NOT_STORED between STORED lines, a SERVER_ERROR refusal in the middle or at the end of a batch); stats (also "
        "cachedump ITEM lines and valueless STATs); raw_command with end tokens CRLF, END CRLF, LF CR LF END CR LF and "
        "a token whose prefix occurs inside the body, pipelines of several commands through one raw_command (replies that start with STORED / DELETED / OK / TOUCHED / a number and run on to the last command's end token), and ERROR / CLIENT_ERROR / SERVER_ERROR lines sent in answer to raw_command with each of these end tokens (also one that ends the error line itself); plus Hypothesis-drawn values/keys; and the same calls after a history of 1-24 earlier fetches (empty, small, large values) on the same client object, also with the connection closed / quit / dropped after an error in between, so that the reply under test arrives on the client's second or third connection. Segmentations: every subset "
        "of cut positions for streams <= 14 bytes (thorough 16); all 1-, 2- (and thorough 3-) cut segmentations for "
        "streams <= 64 bytes; all-single-byte; for long streams cuts at 4096k-1/4096k/4096k+1, in the last 8 bytes, "
        "and exact 4096-byte pieces. Oracle (metamorphic): result (value incl. type, or exception class) equals the "
        "unsplit result, which itself equals the expected value computed from what was stored; the receive queue is "
        "empty afterwards; nothing blocks. Non-trivial: a cut falls inside a CR LF, directly after one (line / data "
        "block boundary), or inside the last 8 bytes (end token), or EINTR is injected. Also multi-key reads through a deserializer that fails on the first / middle / last returned value, with and without ignore_exc, on all client stacks and after an earlier failed read. A Client subclass overriding _extract_value (every stack) must add the same thing under every segmentation. Several readers: two or three users of one pooled client, replies in pieces of 1-7 bytes, turns taken at every socket call - each call returns what it returns alone and unsplit. Reply dialects (items reordered, deduplicated, repeated or unasked for, a cas field not asked for, blanks or a tab in the VALUE line, odd VERSION and STAT lines) are reply streams like any other: cut anywhere, the result is the same. Many pieces: one value trickling in over 1000 to 10 000 recv() results (pieces of 1, 2, 3, 7 bytes), the last cut before, inside and after the closing CR LF.")
MANIFEST = {
    "category": "exploration",
    "technique": "metamorphic testing over enumerated segmentations (all cut subsets for short reply streams, all 1-3 cut combinations for medium ones, receive-size-aligned cuts for long ones) of a scenario corpus produced by a memcached model, plus Hypothesis-drawn values and cut lists",
    "text": "For every scenario the reply stream a faithful server model sends is delivered under every enumerated division into recv() pieces (with and without EINTR); the call's result must equal the unsplit result, which is cross-checked against the stored value. Exhaustive over cut subsets for short streams and over 1-3 cuts for streams up to 64 bytes: the reader functions carry at most one byte of state across pieces (a trailing CR), so 1-3 cuts reach every carry-over state; longer streams are sampled at the 4096-byte receive size boundaries.",
    "note": "The fake recv never returns more than requested; unsolicited extra bytes after a complete reply are not generated (DESIGN.md 5).",
    "design_ref": "DESIGN.md 3/C03",
}
ASSUMPTIONS = [
    "reply streams come from vlib/mcserver.py (checked against the outcomes the repository's live-server tests pin)",
    "a recv() result never exceeds the requested size",
]

HUGE = 1 << 30


def _env(scn, schedule):
    env = Env()
    env.net.schedule = schedule
    srv = env.server
    for k, v, f in scn.get("store", ()):
        srv.store[k] = Item(v, f, 0, srv._next_cas(), srv.clock.now)
    if scn.get("cluster") is not None:
        srv.cluster_config = scn["cluster"]
    if scn.get("dialect"):
        srv.dialect = set(scn["dialect"])
    if scn.get("refuse"):
        srv.refuse.update({k.encode() if isinstance(k, str) else k: v for k, v in scn["refuse"].items()})
    return env


class FailingSerde:
    """values pass through; reading back the value of one of the named keys fails (an old pickle, foreign data)"""

    def __init__(self, names):
        self.names = [n.encode() for n in names]

    def serialize(self, key, value):
        return value, 0

    def deserialize(self, key, value, flags):
        k = key if isinstance(key, bytes) else str(key).encode()
        if any(k.endswith(n) for n in self.names):
            raise ValueError("cannot deserialize the value of %r" % (key,))
        return value


def _call(env, scn):
    cfg = dict(scn.get("cfg", {}))
    if "fail_on" in cfg:
        cfg["serde"] = FailingSerde(cfg.pop("fail_on"))
    if "client_class" in cfg:
        from vlib import subclasses
        cfg["client_class"] = subclasses.CLIENT_CLASSES[cfg["client_class"]]
    c = env.client(scn.get("kind", "client"), **cfg)
    r = scn["op"]
    # optional history: earlier calls on the SAME client object, delivered unsplit in both runs (their replies are
    # not part of the stream under test); state a reader carries from call to call must not change the result
    if scn.get("history"):
        saved, env.net.schedule, env.net._pi = env.net.schedule, [HUGE], 0
        for h in scn["history"]:
            env.call(ops.invoke, c, h)
        env.net.schedule, env.net._pi = saved, 0
    if r["op"] == "raw_command":
        return env.call(c.raw_command, r["command"], r["end"])
    return env.call(ops.invoke, c, r)


_BASE = {}


def baseline(scn):
    key = repr(scn)
    if key in _BASE:
        return _BASE[key]
    env = _env(scn, [HUGE])
    res = _call(env, scn)
    # re-run with a tap on recv to learn the reply stream itself
    env2 = _env(scn, [HUGE])
    tap = []
    from vlib.fakenet import FakeSocket
    real_recv = FakeSocket.recv

    def tapped(self, n):
        d = real_recv(self, n)
        tap.append(d)
        return d
    FakeSocket.recv = tapped
    try:
        res2 = _call(env2, scn)
    finally:
        FakeSocket.recv = real_recv
    stream = b"".join(tap)
    if _norm(res) != _norm(res2):
        raise AssertionError("baseline is not deterministic: %r vs %r" % (res, res2))
    left = any(s.rx for s in env.net.sockets if not s.closed)
    out = (res, stream, left, list(env.net.flags))
    if len(_BASE) > 2000:
        _BASE.clear()
    _BASE[key] = out
    return out


def _env_sockets(scn):
    """sockets of a fresh unsplit run (to see bytes the call left unread)"""
    env = _env(scn, [HUGE])
    _call(env, scn)
    return env.net.sockets


def _norm(res):
    if res[0] == "ok":
        return ("ok", repr(res[1]), type(res[1]).__name__)
    return ("exc", type(res[1]).__name__)


def schedule_for(cuts, total, eintr):
    sizes = []
    prev = 0
    for c in cuts:
        sizes.append(c - prev)
        prev = c
    sizes.append(HUGE)
    if eintr:
        out = []
        for s in sizes:
            out += ["EINTR", s]
        return out
    return sizes


def check(case):
    scn, cuts, eintr = case["scn"], case["cuts"], case.get("eintr", False)
    base, stream, left, flags = baseline(scn)
    desc = "%r with reply %r" % (_short(scn["op"]), _short(stream))
    if scn["op"]["op"] == "raw_command":
        end = scn["op"]["end"]
        end = end.encode() if isinstance(end, str) else end
        # the whole stream the server sent (left-over included) is what a caller of raw_command gets to see
        full = stream + b"".join(b"".join(x for x, _ in s.rx) for s in _env_sockets(scn))
        if full.startswith((b"ERROR", b"CLIENT_ERROR", b"SERVER_ERROR")) and base[0] == "exc":
            pass          # an error line instead of the reply: the unsplit run raised the memcached error, every segmentation has to as well
        elif full.find(end) + len(end) != len(full) or full.find(end) < 0:
            return False, ["scenario-skipped:end-token-not-final"]
        else:
            scn = dict(scn, expect=full[:full.find(end)])
    if "expect" in scn and _norm(base) != _norm(("ok", scn["expect"])):
        raise Violation(["unsplit-result-wrong", scn["op"]["op"]], "unsplit delivery returned %r, expected %r: %s" % (_short(base), _short(scn["expect"]), desc))
    if left or flags:
        raise Violation(["unsplit-leftover", scn["op"]["op"]], "unsplit delivery left bytes unread or blocked (%r): %s" % (flags, desc))
    cuts = sorted(set(c for c in cuts if 0 < c < len(stream)))
    env = _env(scn, schedule_for(cuts, len(stream), eintr))
    res = _call(env, scn)
    where = "cuts=%r%s" % (cuts if len(cuts) < 30 else (cuts[:10], "...", len(cuts)), " +EINTR" if eintr else "")
    if any(f[0] == "blocks-forever" for f in env.net.flags):
        raise Violation(["blocks", scn["op"]["op"]], "waits for bytes that will never come under %s (unsplit result %r): %s" % (where, _short(base), desc))
    if _norm(res) != _norm(base):
        raise Violation(["result-differs", scn["op"]["op"]], "under %s the call gave %r, unsplit %r: %s" % (where, _short(res), _short(base), desc))
    if any(s.rx for s in env.net.sockets if not s.closed) or env.net.flags:
        raise Violation(["leftover", scn["op"]["op"]], "under %s bytes were left unread / flags %r: %s" % (where, env.net.flags, desc))
    nontrivial = eintr or any(stream[c - 1:c + 1] == b"\r\n" or stream[c - 2:c] == b"\r\n" or c >= len(stream) - 8 for c in cuts)
    labels = [scn["op"]["op"], "cuts=%s" % (len(cuts) if len(cuts) < 4 else "4+")]
    if eintr:
        labels.append("eintr")
    if any(stream[c - 1:c + 1] == b"\r\n" for c in cuts):
        labels.append("cut-inside-crlf")
    return nontrivial, labels


def _short(x):
    s = repr(x)
    return s if len(s) < 200 else s[:100] + "...(%d chars)..." % len(s) + s[-60:]


# ---- scenario corpus ----------------------------------------------------------


def S(op, store=(), expect=None, **kw):
    d = {"op": op, "store": [list(x) for x in store]}
    if expect is not None or kw.pop("expect_none", False):
        d["expect"] = expect
    d.update(kw)
    return d


def corpus(sizes=(0, 1, 4090, 4094, 4095, 4096, 4097, 4098, 8190, 8192, 8194, 100000)):
    out = []
    vals = [b"v", b"", b"a\r\nb", b"END\r\n", b"\r\nEND\r\n", b"VALUE k 0 1\r\nx\r\nEND", b"tail\r", b"\r", b"\n", b"\r\n", b"END", b"x\r\nEND\r"]
    for v in vals:
        out.append(S({"op": "get", "key": "k"}, [(b"k", v, 0)], expect=v))
        out.append(S({"op": "gets", "key": "k"}, [(b"k", v, 0)], expect=(v, b"1")))
        out.append(S({"op": "gat", "key": "k", "expire": 5}, [(b"k", v, 0)], expect=v))
        out.append(S({"op": "gats", "key": "k", "expire": 5}, [(b"k", v, 0)], expect=(v, b"1")))
    out.append(S({"op": "get", "key": "k"}, [], expect_none=True))
    out.append(S({"op": "gets", "key": "k"}, [], expect=(None, None)))
    out.append(S({"op": "get_many", "keys": ["a", "b", "c"]}, [(b"a", b"1\r\n", 0), (b"c", b"END\r\n3", 5)], expect={"a": b"1\r\n", "c": b"END\r\n3"}))
    out.append(S({"op": "gets_many", "keys": ["a", "b", "c"]}, [(b"a", b"", 0), (b"b", b"\r", 0), (b"c", b"3", 5)],
                 expect={"a": (b"", b"1"), "b": (b"\r", b"2"), "c": (b"3", b"3")}))
    out.append(S({"op": "get_many", "keys": ["a", "b"]}, [], expect={}))
    for n in sizes:
        v = (b"0123456789\r\n" * (n // 12 + 1))[:n]
        out.append(S({"op": "get", "key": "big"}, [(b"big", v, 0)], expect=v))
        if n >= 4090:
            out.append(S({"op": "raw_command", "command": b"get big", "end": b"\r\nEND\r\n"}, [(b"big", v, 0)]))
        if n in (4094, 4096, 8192):
            out.append(S({"op": "get_many", "keys": ["big", "z"]}, [(b"big", v, 0), (b"z", b"zz", 0)], expect={"big": v, "z": b"zz"}))
            out.append(S({"op": "gets", "key": "big"}, [(b"big", v[:-1] + b"\r" if n else v, 0)], expect=((v[:-1] + b"\r" if n else v), b"1")))
    for op, exp in (("set", True), ("add", False), ("replace", True), ("append", True), ("prepend", True)):
        out.append(S({"op": op, "key": "k", "value": b"v", "noreply": False}, [(b"k", b"old", 0)], expect=exp))
    out.append(S({"op": "cas", "key": "k", "value": b"v", "cas": 1, "noreply": False}, [(b"k", b"old", 0)], expect=True))
    out.append(S({"op": "cas", "key": "k", "value": b"v", "cas": 9, "noreply": False}, [(b"k", b"old", 0)], expect=False))
    out.append(S({"op": "cas", "key": "nokey", "value": b"v", "cas": 9, "noreply": False}, [], expect_none=True))
    out.append(S({"op": "delete", "key": "k", "noreply": False}, [(b"k", b"old", 0)], expect=True))
    out.append(S({"op": "delete", "key": "k", "noreply": False}, [], expect=False))
    out.append(S({"op": "incr", "key": "n", "delta": 5}, [(b"n", b"37", 0)], expect=42))
    out.append(S({"op": "decr", "key": "n", "delta": 5}, [(b"n", b"18446744073709551615", 0)], expect=18446744073709551610))
    out.append(S({"op": "incr", "key": "n", "delta": 5}, [], expect_none=True))
    out.append(S({"op": "incr", "key": "n", "delta": 5}, [(b"n", b"abc", 0)]))        # CLIENT_ERROR line
    out.append(S({"op": "touch", "key": "k", "expire": 3, "noreply": False}, [(b"k", b"v", 0)], expect=True))
    out.append(S({"op": "touch", "key": "k", "expire": 3, "noreply": False}, [], expect=False))
    out.append(S({"op": "version"}, [], expect=b"1.6.21"))
    out.append(S({"op": "flush_all", "noreply": False}, [], expect=True))
    out.append(S({"op": "set_many", "values": {"a": b"1", "b": b"2", "c": b"3"}, "noreply": False}, [], expect=[]))
    out.append(S({"op": "delete_many", "keys": ["a", "b", "c"], "noreply": False}, [(b"b", b"x", 0)], expect=True))
    out.append(S({"op": "stats"}, []))
    out.append(S({"op": "stats", "args": ["settings"]}, []))
    out.append(S({"op": "stats", "args": ["cachedump", "1", "2"]}, [(b"k1", b"v", 0), (b"k2", b"vv", 0)]))
    out.append(S({"op": "raw_command", "command": b"version", "end": b"\r\n"}, [], expect=b"VERSION 1.6.21"))
    out.append(S({"op": "raw_command", "command": "version", "end": "\r\n"}, [], expect=b"VERSION 1.6.21"))
    out.append(S({"op": "raw_command", "command": b"stats", "end": b"END\r\n"}, []))
    out.append(S({"op": "raw_command", "command": b"get k", "end": b"END\r\n"}, [(b"k", b"v", 0)], expect=b"VALUE k 0 1\r\nv\r\n"))
    out.append(S({"op": "raw_command", "command": b"get k", "end": b"\r\nEND\r\n"}, [(b"k", b"EN\r\nE", 0)], expect=b"VALUE k 0 5\r\nEN\r\nE"))
    out.append(S({"op": "raw_command", "command": b"get k", "end": b"END\r\n"}, [(b"k", b"ENENDEN\r", 0)]))
    out.append(S({"op": "raw_command", "command": b"get k", "end": b"\r\nEND\r\n"}, [(b"k", b"\r\nEN\r\nEND\r", 0)]))
    out.append(S({"op": "raw_command", "command": b"get k", "end": b"D\r\n"}, [(b"k", b"DD\rD\r\rDD", 0)]))
    out.append(S({"op": "raw_command", "command": b"config get cluster", "end": b"\n\r\nEND\r\n"}, [],
                 cluster=b"12\nh1.example.com|10.0.0.1|11211 h2.example.com|10.0.0.2|11211\n",
                 expect=b"CONFIG cluster 0 65\r\n12\nh1.example.com|10.0.0.1|11211 h2.example.com|10.0.0.2|11211"))
    out.append(S({"op": "raw_command", "command": b"get big", "end": b"END\r\n"}, [(b"big", b"y" * 5000, 0)], expect=b"VALUE big 0 5000\r\n" + b"y" * 5000 + b"\r\n"))
    # batches with mixed outcomes: runs of equal reply lines broken by a different one, a refusal in the middle
    ns = {"b": "not-stored"}
    out.append(S({"op": "set_many", "values": {"a": b"1", "b": b"2", "c": b"3"}, "noreply": False}, [], expect=["b"], refuse=ns))
    out.append(S({"op": "set_many", "values": {"b": b"2", "a": b"1", "c": b"3", "d": b"4"}, "noreply": False}, [], expect=["b"], refuse=ns))
    out.append(S({"op": "set_many", "values": {"a": b"1", "c": b"3", "b": b"2"}, "noreply": False}, [], expect=["b"], refuse=ns))
    out.append(S({"op": "set_many", "values": {"a": b"1", "b": b"2", "e": b"5", "c": b"3"}, "noreply": False}, [], expect=["b", "e"], refuse={"b": "not-stored", "e": "not-stored"}))
    out.append(S({"op": "set_many", "values": {"a": b"1", "b": b"2", "c": b"3"}, "noreply": False}, [], refuse={"b": "too-large"}))
    out.append(S({"op": "set_many", "values": {"a": b"1", "b": b"2", "c": b"3"}, "noreply": False}, [], refuse={"c": "oom"}))
    out.append(S({"op": "delete_many", "keys": ["a", "b", "c", "d"], "noreply": False}, [(b"a", b"x", 0), (b"c", b"x", 0)], expect=True))
    # a deserializer that fails on one of the values of a multi-key read, first / in the middle / last, with and without ignore_exc
    three = [(b"a", b"1", 0), (b"b", b"two\r\nEND\r\n", 0), (b"c", b"333", 5)]
    for bad in ("a", "b", "c"):
        for ie in (True, False):
            for kind in ("client", "pooled", "hash"):
                cfg = {"fail_on": [bad], "ignore_exc": ie}
                out.append(S({"op": "get_many", "keys": ["a", "b", "c"]}, three, cfg=cfg, kind=kind))
                if kind == "client":
                    out.append(S({"op": "gets_many", "keys": ["c", "b", "a"]}, three, cfg=dict(cfg, key_prefix=b"p:")))
                    out.append(S({"op": "get", "key": bad}, three, cfg=cfg))
                    out.append(S({"op": "get_many", "keys": ["a", "b", "c"]}, three, cfg=cfg, history=[{"op": "get", "key": bad}]))
    # a Client subclass that overrides the documented extension point _extract_value (every value comes back with its flags),
    # used directly and as the client_class of the pooled and hash stacks: what it adds must not depend on the segmentation
    for kind in ("client", "pooled", "hash", "hash-pooled"):
        for how in ("assign", "classattr"):
            cfg = {"client_class": "flags", "client_class_how": how}
            out.append(S({"op": "get", "key": "c"}, three, cfg=cfg, kind=kind))
            out.append(S({"op": "gets", "key": "b"}, three, cfg=cfg, kind=kind))
            out.append(S({"op": "get_many", "keys": ["a", "b", "c"]}, three, cfg=cfg, kind=kind))
            if kind in ("client", "pooled"):
                out.append(S({"op": "gets_many", "keys": ["c", "zz", "a"]}, three, cfg=dict(cfg, key_prefix=b"p:"), kind=kind))
                out.append(S({"op": "gat", "key": "c", "expire": 5}, three, cfg=cfg, kind=kind))
                out.append(S({"op": "get", "key": "big"}, [(b"big", b"x" * 5000, 7)], cfg=cfg, kind=kind))
    # reply dialects - what another server version or a proxy may legally send: items in another order, a key answered once
    # although asked twice, a cas field nobody asked for, a blank before CR LF, an item repeated, an item nobody asked for,
    # an empty or very long VERSION, STAT values that are negative, huge, empty or contain blanks
    for dia in ("reverse", "dedupe", "cas-always", "value-trailing-blank", "value-tab", "value-double-blank", "repeat-first", "unasked"):
        for kind in ("client", "hash"):
            out.append(S({"op": "get_many", "keys": ["a", "b", "c", "a"]}, three, dialect=[dia], kind=kind))
            out.append(S({"op": "get", "key": "b"}, three, dialect=[dia], kind=kind))
        out.append(S({"op": "gets_many", "keys": ["c", "a"]}, three, dialect=[dia]))
        out.append(S({"op": "gats", "key": "c", "expire": 4}, three, dialect=[dia], cfg={"ignore_exc": True}))
        out.append(S({"op": "get_many", "keys": ["a", "c"]}, three, dialect=[dia, "reverse"], cfg={"ignore_exc": True}, kind="pooled"))
    for dia in ("version-empty", "version-long"):
        out.append(S({"op": "version"}, [], dialect=[dia]))
        out.append(S({"op": "raw_command", "command": b"version", "end": b"\r\n"}, [], dialect=[dia]))
    for kind in ("client", "pooled", "hash"):
        out.append(S({"op": "stats"}, [], dialect=["stats-odd"], kind=kind))
    # several commands sent through one raw_command: the reply starts with a one-line answer (STORED, DELETED, OK, TOUCHED,
    # a number ...) and goes on until the end token of the last command
    out.append(S({"op": "raw_command", "command": b"set k 0 0 1\r\nv\r\nget k", "end": b"END\r\n"}, [], expect=b"STORED\r\nVALUE k 0 1\r\nv\r\n"))
    out.append(S({"op": "raw_command", "command": b"delete k\r\nget k j", "end": b"END\r\n"}, [(b"k", b"v", 0), (b"j", b"w", 0)], expect=b"DELETED\r\nVALUE j 0 1\r\nw\r\n"))
    out.append(S({"op": "raw_command", "command": b"flush_all\r\nget k", "end": b"END\r\n"}, [(b"k", b"v", 0)], expect=b"OK\r\n"))
    out.append(S({"op": "raw_command", "command": b"touch k 5\r\nincr n 2\r\ngets k", "end": b"END\r\n"}, [(b"k", b"v", 0), (b"n", b"40", 0)]))
    out.append(S({"op": "raw_command", "command": b"delete nokey\r\nadd k 0 0 1\r\nx\r\nstats settings", "end": b"END\r\n"}, [(b"k", b"v", 0)]))
    out.append(S({"op": "raw_command", "command": b"get k\r\nversion", "end": b"1.6.21\r\n"}, [(b"k", b"END\r\n", 0)]))
    # error lines where a reply with another end token was expected
    for end in (b"END\r\n", b"\n\r\nEND\r\n", b"\r\n", b"OR\r\n"):
        out.append(S({"op": "raw_command", "command": b"bogus", "end": end}, []))                                  # ERROR
        out.append(S({"op": "raw_command", "command": b"incr n 5", "end": end}, [(b"n", b"abc", 0)]))             # CLIENT_ERROR ...
        out.append(S({"op": "raw_command", "command": b"config get cluster", "end": end}, []))                    # no cluster configuration: ERROR
        out.append(S({"op": "raw_command", "command": b"set big 0 0 2000000", "end": end}, []))                    # SERVER_ERROR object too large
    return out


def _with_stream(scn):
    return scn, baseline(scn)[1]


def subsets_cases(tier, seed):
    limit = 14 if tier == "quick" else 18
    for scn in corpus(sizes=(0, 1)):
        stream = baseline(scn)[1]
        L = len(stream)
        if L < 2 or L > limit:
            continue
        for mask in range(1 << (L - 1)):
            cuts = [i + 1 for i in range(L - 1) if mask >> i & 1]
            yield {"scn": scn, "cuts": cuts, "eintr": bool(mask & 1) and (mask % 5 == 1)}


def kcut_cases(tier, seed):
    maxk = 2 if tier == "quick" else 3
    for scn in corpus(sizes=(0, 1)):
        stream = baseline(scn)[1]
        L = len(stream)
        if L < 2:
            continue
        if L <= 64:
            for k in range(1, maxk + 1):
                if k == 3 and L > 48 and tier == "quick":
                    continue
                for cuts in itertools.combinations(range(1, L), k):
                    yield {"scn": scn, "cuts": list(cuts), "eintr": False}
            for c in range(1, L):
                yield {"scn": scn, "cuts": [c], "eintr": True}
        else:
            # longer streams of the small corpus: every single cut, and pairs around every CR LF
            for c in range(1, L):
                yield {"scn": scn, "cuts": [c], "eintr": (c % 3 == 0)}
            crlf = [i + 1 for i in range(L - 1) if stream[i:i + 2] == b"\r\n"]
            for a in crlf:
                for b in crlf:
                    if a < b:
                        yield {"scn": scn, "cuts": [a, b], "eintr": False}
                        yield {"scn": scn, "cuts": [a - 1, a, a + 1, b - 1, b, b + 1], "eintr": False}
        yield {"scn": scn, "cuts": list(range(1, L)), "eintr": False}           # all single bytes
        if L <= 600:
            yield {"scn": scn, "cuts": list(range(1, L)), "eintr": True}
            yield {"scn": scn, "cuts": list(range(2, L, 2)), "eintr": False}
            yield {"scn": scn, "cuts": list(range(1, L, 2)), "eintr": False}


def history_cases(tier, seed):
    """the same segmentations after 1..24 earlier fetches (small, empty and large values) on the same client object"""
    store = [(b"k", b"tail\r", 0), (b"e", b"", 0), (b"s", b"xy", 0), (b"big", b"0123456789\r\n" * 400, 0)]
    hists = []
    for n in (1, 3, 8, 13, 14, 20, 24):
        hists.append([{"op": "get", "key": "e"}] * n)
        hists.append([{"op": "get", "key": "s"}] * (n - 1) + [{"op": "get", "key": "e"}])
        hists.append([{"op": "get", "key": "big"}] + [{"op": "gets", "key": "s"}] * n)
        hists.append([{"op": "get_many", "keys": ["s", "e", "nokey"]}] * n)
    # the connection the reply arrives on is not the client's first one: it was closed, quit, or dropped after an error
    for ev in ({"op": "close"}, {"op": "quit"}, {"op": "disconnect_all"}, {"op": "incr", "key": "s", "delta": 1}, {"op": "get", "key": "bad key"}):
        hists.append([{"op": "get", "key": "s"}, ev])
        hists.append([{"op": "get_many", "keys": ["s", "big"]}, ev, {"op": "get", "key": "e"}, ev])
        hists.append([ev, {"op": "gets", "key": "big"}, ev])
    targets = [S({"op": "get", "key": "k"}, store, expect=b"tail\r"), S({"op": "get", "key": "e"}, store, expect=b""),
               S({"op": "gets_many", "keys": ["s", "e"]}, store, expect={"s": (b"xy", b"3"), "e": (b"", b"2")}),
               S({"op": "get", "key": "big"}, store, expect=b"0123456789\r\n" * 400)]
    for h in hists:
        for t in targets:
            scn = dict(t, history=h)
            stream = baseline(scn)[1]
            L = len(stream)
            cuts = list(range(1, L)) if L <= 80 else sorted(set(list(range(1, 40)) + list(range(L - 12, L)) + [4095, 4096, 4097]))
            for c in cuts:
                if 0 < c < L:
                    yield {"scn": scn, "cuts": [c], "eintr": False}
            yield {"scn": scn, "cuts": list(range(1, min(L, 200))), "eintr": False}


def long_cases(tier, seed):
    for scn in corpus():
        stream = baseline(scn)[1]
        L = len(stream)
        if L <= 600:
            continue
        marks = set()
        for k in range(1, L // 4096 + 2):
            for d in (-2, -1, 0, 1, 2):
                marks.add(4096 * k + d)
        head = stream.find(b"\r\n") + 2
        for d in (-2, -1, 0, 1, 2):
            marks.add(head + d)
        for d in range(1, 9):
            marks.add(L - d)
        marks = sorted(m for m in marks if 0 < m < L)
        for m in marks:
            yield {"scn": scn, "cuts": [m], "eintr": False}
            yield {"scn": scn, "cuts": [m], "eintr": True}
        for a, b in itertools.combinations(marks, 2):
            if tier == "thorough" or (a + b) % 3 == 0:
                yield {"scn": scn, "cuts": [a, b], "eintr": False}
        yield {"scn": scn, "cuts": list(range(4096, L, 4096)), "eintr": False}       # exact receive-size pieces
        yield {"scn": scn, "cuts": list(range(4095, L, 4095)), "eintr": True}
        yield {"scn": scn, "cuts": list(range(1, min(L, 9000))), "eintr": False}     # single bytes across two buffers
        yield {"scn": scn, "cuts": [L - 8, L - 7, L - 6, L - 5, L - 4, L - 3, L - 2, L - 1], "eintr": False}


def many_pieces_cases(tier, seed):
    """one value that trickles in over a thousand and more recv() results: byte by byte, or in pieces of a few bytes, with the
    last cut before, inside and after the CR LF that ends the data block - sizes chosen so that the number of pieces passes
    1000, 1024, 2000, 4096 and 10000 exactly, one less and one more"""
    for kind in ("client", "pooled"):
        for p in (1, 2, 3, 7):
            for target in (1000, 1024, 2000, 4096, 10000):
                if tier == "quick" and (target > 4096 or (p > 1 and target not in (1000, 2000))):
                    continue
                for d in (-2, -1, 0, 1):
                    n = p * target + d
                    if n <= 0:
                        continue
                    v = (b"0123456789ab" * (n // 12 + 1))[:n]
                    for op in (({"op": "get", "key": "big"},) if tier == "quick" or kind == "pooled" else ({"op": "get", "key": "big"}, {"op": "gets", "key": "big"}, {"op": "get_many", "keys": ["big", "z"]})):
                        scn = S(op, [(b"big", v, 0), (b"z", b"zz", 0)], kind=kind)
                        head = len(baseline(scn)[1]) - n - (7 if op["op"] != "get_many" else 7 + len(b"VALUE z 0 2\r\nzz\r\n"))      # where the data block starts
                        cuts = list(range(head + p, head + n, p))
                        for tail in ([head + n], [head + n + 1], [head + n, head + n + 1], []):
                            yield {"scn": scn, "cuts": sorted(set(cuts + tail)), "eintr": False}


def random_strategy(tier):
    tricky = st.sampled_from([b"\r\n", b"END\r\n", b"\r", b"\n", b"VALUE k 0 1\r\n", b"END", b"STORED\r\n", b"E", b"\r\nEND"])
    value = st.one_of(st.binary(max_size=40), st.lists(st.one_of(tricky, st.binary(max_size=6)), max_size=8).map(b"".join),
                      st.integers(4080, 4110).flatmap(lambda n: st.binary(min_size=n, max_size=n)))
    key = st.text(st.characters(min_codepoint=0x21, max_codepoint=0x7E), min_size=1, max_size=20)
    flags = st.sampled_from([0, 1, 2 ** 32 - 1])

    def one(k, v, f, opn):
        store = [[k.encode(), v, f]]
        if opn == "get":
            return S({"op": "get", "key": k}, store, expect=v)
        if opn == "gets":
            return S({"op": "gets", "key": k}, store, expect=(v, b"1"))
        if opn == "get_many":
            return S({"op": "get_many", "keys": [k, k + "x"]}, store + [[(k + "x").encode(), v[::-1], 0]], expect={k: v, k + "x": v[::-1]})
        if opn == "raw-get":
            return S({"op": "raw_command", "command": b"get " + k.encode(), "end": b"\r\nEND\r\n"}, store)
        return S({"op": "raw_command", "command": b"get " + k.encode(), "end": (v[:3] or b"Z") + b"\r\nEND\r\n"}, store)
    scn = st.builds(one, key, value, flags, st.sampled_from(["get", "gets", "get_many", "raw-get", "raw-tail"]))
    cuts = st.lists(st.integers(1, 4400), max_size=12)
    tailcuts = st.lists(st.integers(1, 40), max_size=6)
    return st.builds(lambda s, c, t, e: {"scn": s, "cuts": c, "tail": t, "eintr": e}, scn, cuts, tailcuts, st.booleans()).map(_resolve_tail)


def _resolve_tail(case):
    # cuts counted from the end of the stream are resolved against the actual stream
    L = len(baseline(case["scn"])[1])
    cuts = list(case["cuts"]) + [L - t for t in case.pop("tail")]
    case["cuts"] = sorted(set(c for c in cuts if 0 < c < L))
    return case


# ---- coverage-guided tier (atheris / libFuzzer), thorough only -----------------------------------


def fuzz_cases(tier, seed):
    for shard in range(16):
        yield {"fuzz_shard": shard, "runs": 250000, "seed": seed * 100 + shard + 1}


def check_fuzz(case):
    """runs one libFuzzer campaign in a subprocess; a saved inner case (from a violation) is replayed directly"""
    import json
    import os
    import shutil
    import subprocess
    import sys
    from vlib.runner import from_json
    if "scn" in case:
        return check(case)
    root = os.path.dirname(os.path.dirname(os.path.abspath(__file__)))
    try:
        sys.path.insert(1, os.path.join(root, ".deps"))
        import atheris  # noqa: F401
    except Exception:  # noqa: BLE001
        return False, ["atheris-unavailable"]
    work = os.path.join(root, ".build", "fuzz-c03", "%d-%d" % (case["seed"], os.getpid()))
    shutil.rmtree(work, ignore_errors=True)
    os.makedirs(os.path.join(work, "corpus"))
    # empty corpus for even shards, a few small valid inputs for odd ones
    if case["fuzz_shard"] % 2:
        for i, b in enumerate([b"\x00\x03abc\x00\x05hello\x02\x05\x09\x01\x02\x01", b"\x03\x01k\x00\x08END\r\n\r\n\x03\x01\x02\x03\x02\x01\x02",
                               b"\x02\x02kk\x01\x10" + b"\r" * 16 + b"\x04\x10\x20\x30\x40\x00\x01"]):
            open(os.path.join(work, "corpus", "seed%d" % i), "wb").write(b)
    out, stats = os.path.join(work, "violation.json"), os.path.join(work, "stats.json")
    env = dict(os.environ, PYTHONHASHSEED="0")
    r = subprocess.run([sys.executable, os.path.join(root, "tools", "fuzz_c03.py"), out, stats, "-runs=%d" % case["runs"], "-seed=%d" % case["seed"],
                        "-max_len=256", "-timeout=60", os.path.join(work, "corpus")], capture_output=True, text=True, env=env, cwd=work)
    try:
        if os.path.exists(out):
            body = json.load(open(out))
            v = Violation(body["signature"], body["message"] + " [found by atheris shard %d]" % case["fuzz_shard"])
            v.case = from_json(body["case"])
            raise v
        if r.returncode != 0:
            raise RuntimeError("fuzz target crashed (status %d): %s" % (r.returncode, (r.stderr or "")[-600:]))
        st_ = json.load(open(stats)) if os.path.exists(stats) else {"runs": 0, "nontrivial": 0}
        cov = [ln for ln in (r.stderr or "").splitlines() if "DONE" in ln]
        sdir = os.path.join(root, ".build", "fuzz-c03", "stats")
        os.makedirs(sdir, exist_ok=True)
        json.dump({"shard": case["fuzz_shard"], "executions": st_["runs"], "nontrivial": st_["nontrivial"], "libfuzzer": cov[-1][:120] if cov else ""},
                  open(os.path.join(sdir, "%d.json" % case["fuzz_shard"]), "w"))
        return True, ["atheris-shard", "atheris-executions~%dk" % (st_["runs"] // 1000)]
    finally:
        shutil.rmtree(work, ignore_errors=True)


def extra_coverage(tier):
    import glob
    import json
    import os
    root = os.path.dirname(os.path.dirname(os.path.abspath(__file__)))
    if tier != "thorough":
        return {"atheris": "not part of the quick tier"}
    rows = [json.load(open(p)) for p in sorted(glob.glob(os.path.join(root, ".build", "fuzz-c03", "stats", "*.json")))]
    if not rows:
        return {"atheris": "skipped (atheris not importable)"}
    return {"atheris": {"shards": len(rows), "executions": sum(r["executions"] for r in rows), "nontrivial_executions": sum(r["nontrivial"] for r in rows),
                        "libfuzzer_last_status": [r["libfuzzer"] for r in rows][:4]}}


# ---- several readers at once ---------------------------------------------------------------------------------------

READER_OPS = [
    {"op": "get", "key": "t"}, {"op": "get_many", "keys": ["t", "n", "zz"]}, {"op": "gets", "key": "n"}, {"op": "set", "key": "k1", "value": b"v", "noreply": False},
    {"op": "add", "key": "t", "value": b"x", "noreply": False}, {"op": "incr", "key": "n2", "delta": 3}, {"op": "delete", "key": "gone", "noreply": False},
    {"op": "touch", "key": "t", "expire": 9, "noreply": False}, {"op": "set_many", "values": {"m1": b"1", "m2": b"2"}, "noreply": False}, {"op": "version"},
]


def readers_cases(tier, seed):
    for kind in ("pooled", "hash-pooled"):
        for pieces in ([1], [2], [3], [5, 1], [7]):
            for a, b in itertools.combinations(range(len(READER_OPS)), 2):
                if kind == "hash-pooled" and "version" in (READER_OPS[a]["op"], READER_OPS[b]["op"]):
                    continue
                if tier == "quick" and (a + b + len(pieces) + pieces[0]) % 3 and kind == "hash-pooled":
                    continue
                yield {"kind": kind, "pieces": pieces, "ops": [a, b], "first": (a + b) % 2}
            for tri in ((0, 3, 4), (1, 2, 8), (0, 1, 2)):
                if kind == "pooled" or "version" not in [READER_OPS[i]["op"] for i in tri]:
                    yield {"kind": kind, "pieces": pieces, "ops": list(tri), "first": pieces[0] % 3}


def check_readers(case):
    """two or three users of one pooled client, each on its own connection, their replies arriving cut into small pieces and
    the users taking turns at every socket call: each call returns what it returns when it runs alone with its reply in one
    piece - how one reply is segmented, and what another connection is in the middle of, changes nothing"""
    from vlib import interleave, faultlab
    from vlib.harness import Env, virtual_time
    recs = [READER_OPS[i] for i in case["ops"]]

    def fresh(pieces):
        env = Env()
        faultlab.preload(env.server, b"")
        env.server.store[b"n2"] = Item(b"40", 0, 0, env.server._next_cas(), env.clock.now)
        if pieces:
            env.net.schedule = list(pieces)
        return env
    alone = []
    for r in recs:
        env = fresh(None)
        with virtual_time(env.clock):
            c = env.client(case["kind"], max_pool_size=len(recs), default_noreply=False)
            alone.append(env.call(ops.invoke, c, r))
    env = fresh(case["pieces"])
    with virtual_time(env.clock):
        c = env.client(case["kind"], max_pool_size=len(recs), default_noreply=False)
        got, sc = interleave.run(env.net, [lambda r=r: ops.invoke(c, r) for r in recs], first=case.get("first", 0))
        c.close()
    for r, a, g in zip(recs, alone, got):
        if _norm(a) != _norm(g):
            raise Violation(["several-readers", r["op"]], "%r gave %r while %r ran on the same %s client (replies in pieces of %r, turns taken at every socket call); alone and unsplit it gives %r"
                            % (r, _short(g), [x for x in recs if x is not r], case["kind"], case["pieces"], _short(a)))
    return sc.switches > 2, ["several-readers", case["kind"], "switches>=10" if sc.switches >= 10 else "switches<10"]


PARTS = [
    Part("several-readers", "enum", check_readers, cases=readers_cases, exhaustive=True),
    Part("all-cut-subsets", "enum", check, cases=subsets_cases, exhaustive=True),
    Part("k-cuts", "enum", check, cases=kcut_cases, exhaustive=True),
    Part("long-streams", "enum", check, cases=long_cases),
    Part("many-pieces", "enum", check, cases=many_pieces_cases),
    Part("after-a-history", "enum", check, cases=history_cases),
    Part("random", "hyp", check, strategy=random_strategy,
         examples={"quick": 400, "thorough": 12000}, shards={"quick": 4, "thorough": 16}),
    Part("atheris", "enum", check_fuzz, cases=fuzz_cases, tiers=("thorough",), shards={"quick": 1, "thorough": 16}),
]


def selftest():
    mcserver.selftest()

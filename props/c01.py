"""C01 - a call only ever consumes the server's reply to its own request."""
from hypothesis import strategies as st

from vlib import faultlab, mcserver
from vlib.faultlab import interpret, op_library
from vlib.runner import Part, Violation, ddmin_list

PROPERTY = "C01"
LEVEL = "fault_enumeration"
# parts repeated in a child interpreter started with -O and with warnings turned into errors (vlib/runner.py, MODES)
MODE_PARTS = {"OW": ['rejected-batches', 'deserialiser-failures', 'single-fault-sweep']}
RULE = ("systematic sweep: for every public data operation (single- and multi-key, noreply unset/True/False) x client "
        "stack (Client, PooledClient max 1, PooledClient max 2, HashClient, pooled HashClient) x ignore_exc off/on x "
        "cold/warm connection, a fault-free dry run lists every socket event the operation performs and every reply "
        "the server produces; one case is generated for every applicable fault at every one of those events "
        "(getaddrinfo/socket/settimeout/connect errors; sendall reset/timeout/broken pipe with the server having "
        "received nothing, the first command, or everything; recv timeout with the reply still in flight, reset, EOF, "
        "error) and for every reply tampering (ERROR / CLIENT_ERROR / SERVER_ERROR / garbage line; truncation at "
        "byte 0, 1, middle, last followed by EOF or silence), each followed by two further calls on the same object. "
        "The operation library includes raw_command (single-line commands and storage commands with their data block, blocks ending in CR LF among them) and, beside the default arguments, the optional arguments away from their defaults. Rejected batches: a multi-item call refused on the client side because of one item (illegal key, unencodable value) placed after 0-200 KiB of good items or 999-3000 small ones, then two further calls. Deserialiser failures: ten exception types raised part-way through a reply. "
        "Random part: Hypothesis histories of 1-12 calls with faults drawn per event kind, reply segmentation and "
        "EINTR, 1-3 servers for HashClient with clock advances. Oracle (from the fake network's log): every byte a "
        "call receives was sent in answer to that call's own commands (reply tags); no recv that can never be "
        "satisfied; no reply left unread on a connection that stays open; the follow-up store and fetch return the "
        "right answers. Non-trivial: a fault actually fired (taken from the log) and a later call used the object. The operation library also spells noreply / default_noreply as non-bool values (1, 'yes', 2, 1.0 / 0, '', 'no' is truthy), judged by their truth value. Stacks built around Client subclasses (default_noreply settled after the base constructor, connecting in the constructor, keys mapped into a namespace) and the ElastiCache subclass run through the same sweeps; calls nested in calls (a serializer or deserializer that uses the same pooled client) must each get the answer to their own command. Every call made through vlib/ops.invoke also has to leave the caller's argument objects unchanged and return containers that were not handed out before. Long lives: 1200 (thorough 4000) calls over the whole library on one object, every ninth hit by a fault; batches with megabytes of good items, or ten thousand keys, before the one the client refuses."
        + ' Rounds 15-17: a key that is legal alone and too long only with the key prefix (values that spell commands) must be refused before anything is sent; every fault sweep has a send interrupted by EINTR after nothing / the first command / everything went out.'
        + " The operation library (shared with C06, C07, C09, C10) also spells noreply=None explicitly for incr, decr, cas, set, set_many, delete, delete_many, touch and flush_all: the operation's documented default.")
MANIFEST = {
    "category": "fault_enumeration",
    "technique": "systematic single-fault enumeration at every socket event and every server reply of every operation (positions taken from a fault-free dry run) + Hypothesis multi-fault histories; reply-ownership oracle over a tagged fake connection",
    "text": "Every reply the memcached model produces is tagged with the public call whose bytes caused it; the fake socket checks the tag of every byte a recv hands out, flags reads that can never be satisfied and replies left on an open connection at the end of a call. Faults are placed at every socket event and every reply of every operation on every client stack, then two more calls follow. This is exhaustive over single faults per operation shape and sampled for multi-fault histories.",
    "note": "Faults replace or truncate replies, they never append unsolicited bytes; whether a fault fired is read from the fake's log. BaseException interruptions are C10's.",
    "design_ref": "DESIGN.md 3/C01",
}
ASSUMPTIONS = [
    "a recv timeout leaves the reply in flight (it arrives later); reset/EOF drop it",
    "reply-level faults are applied when the server produces the reply, never to a half-delivered one",
]

FOLLOW = [{"op": {"op": "set", "key": "follow", "value": b"fv", "noreply": False}, "advance": 5},
          {"op": {"op": "get", "key": "follow"}}]


def observer_factory(case, state):
    def obs(run, i, call, out):
        flags = run.env.net.flags
        new = flags[state["seen"]:]
        state["seen"] = len(flags)
        if new:
            name, at_call, detail = new[0]
            raise Violation([name, case["kind"], call["op"]["op"]],
                            "%s during call %d %r (outcome %r): %r; history %r on %s cfg %r"
                            % (name, i, call["op"], _short(out), detail, _hist(case), case["kind"], case.get("cfg")))
    return obs


def check(case):
    state = {"seen": 0}
    run = interpret(case, observer_factory(case, state))
    env = run.env
    fired_calls = sorted({f["fault"].get("call", -1) for f in env.net.fired})
    # functional follow-up: the last two calls of a sweep case are a store and a fetch that must work
    if case.get("follow"):
        a, b = run.outcomes[-2], run.outcomes[-1]
        if a != ("ok", True) or b != ("ok", b"fv"):
            raise Violation(["follow-up", case["kind"]], "after the faulted call the follow-up set/get returned %r / %r; history %r on %s cfg %r"
                            % (_short(a), _short(b), _hist(case), case["kind"], case.get("cfg")))
    n = len(case["calls"])
    nontrivial = any(fc < n - 1 for fc in fired_calls if fc >= 0)
    labels = [case["kind"]]
    for f in env.net.fired:
        ff = f["fault"]
        labels.append("fired:" + (ff.get("tamper") and "reply-" + ff["tamper"] or "%s-%s" % (ff.get("kind"), ff.get("what"))))
    if not env.net.fired:
        labels.append("no-fault-fired")
    return nontrivial, labels


def _hist(case):
    return [(c["op"], c.get("faults")) for c in case["calls"]]


def _short(x):
    s = repr(x)
    return s if len(s) < 160 else s[:100] + "...(%d chars)" % len(s)


STACKS = [("client", {}), ("pooled", {"max_pool_size": 1}), ("pooled", {"max_pool_size": 2}), ("hash", {}), ("hash-pooled", {"max_pool_size": 1}),
          # default_noreply given as a truthy value that is not a bool
          ("client", {"default_noreply": 1}), ("pooled", {"max_pool_size": 1, "default_noreply": "yes"}), ("hash", {"default_noreply": 1}),
          # stacks built around a Client subclass (vlib/subclasses.py): one that settles default_noreply after the base constructor,
          # one that connects in its constructor, one that maps keys into a namespace
          ("client", {"client_class": "late-noreply"}), ("pooled", {"max_pool_size": 1, "client_class": "late-noreply"}), ("hash", {"client_class": "late-noreply"}),
          ("pooled", {"max_pool_size": 1, "client_class": "eager"}), ("hash-pooled", {"max_pool_size": 1, "client_class": "eager", "client_class_how": "classattr"}),
          ("pooled", {"max_pool_size": 2, "client_class": "namespace", "client_class_how": "classattr"}),
          # the ElastiCache subclass of HashClient over one node
          ("aws", {}), ("aws-pooled", {"max_pool_size": 1})]


def sweep_cases(tier, seed, interrupts=False, lib=None):
    lib = lib or op_library()
    for kind, extra in STACKS:
        for ie in (False, True):
            for warm in (False, True):
                for oi, r in enumerate(lib):
                    if ie and r["op"] not in faultlab.READ_OPS and tier == "quick" and (oi % 3):
                        continue       # ignore_exc only matters for reads; thin out the rest in the quick tier
                    if kind.startswith("aws") and tier == "quick" and (oi + ie + warm) % 2:
                        continue
                    if "client_class" in extra and (ie or (tier == "quick" and oi % 2 and extra["client_class"] != "late-noreply")
                                                    or (extra["client_class"] == "late-noreply" and "noreply" in r)):
                        continue
                    if "default_noreply" in extra and ("noreply" in r or r["op"] in faultlab.READ_OPS or ie or not warm):
                        continue       # the spelled default only matters where the call relies on it
                    cfg = dict(extra, ignore_exc=ie)
                    pre = [{"op": {"op": "get", "key": "warmup"}}] if warm else []
                    # replies of one call arrive as separate segments (the hostile case: what a call does not read
                    # stays queued); every third operation shape is also run with everything coalesced into one segment
                    base = {"kind": kind, "cfg": cfg, "calls": pre + [{"op": r}] + FOLLOW, "follow": True,
                            "coalesce": bool(oi % 3 == 0 and warm)}
                    t = len(pre)
                    dry = interpret(base)
                    for ev_kind, nth in dry.events_by_call[t]:
                        for f in faultlab.faults_for_event(ev_kind, nth, interrupts):
                            calls = [dict(c) for c in base["calls"]]
                            calls[t] = dict(calls[t], faults=[f])
                            yield dict(base, calls=calls)
                    if not interrupts:
                        for j, ln in enumerate(faultlab.reply_lengths(base, t)):
                            for f in faultlab.tampers_for_reply(j, ln, every_byte=(tier == "thorough" and kind in ("client", "hash"))):
                                calls = [dict(c) for c in base["calls"]]
                                calls[t] = dict(calls[t], faults=[f])
                                yield dict(base, calls=calls)


def rejected_batch_cases(tier, seed):
    """a multi-item call that is refused on the client side because of ONE item - an illegal key, a value the encoding
    cannot express - placed after 0 ... 200 KiB of good items; the same object is then used again"""
    big = b"x" * 30000
    for kind, extra in STACKS:
        for ie in (False, True):
            for nr in (False, True):
                for n_good in (0, 1, 3, 7):
                    good = {"good-%d" % j: big for j in range(n_good)}
                    for bad_k, bad_v in (("bad key", b"v"), ("fine", "not-ascii-\u00e9"), ("k" * 251, b"v"), ("", b"v")):
                        batch = dict(good)
                        batch[bad_k] = bad_v
                        ops_ = [{"op": "set_many", "values": batch, "noreply": nr}]
                        if isinstance(bad_v, bytes):
                            ops_ += [{"op": "delete_many", "keys": list(batch), "noreply": nr}, {"op": "get_many", "keys": list(batch)}]
                        for r in ops_:
                            if kind.startswith(("hash", "aws")) and r["op"] != "set_many":
                                continue
                            for warm in (False, True):
                                pre = [{"op": {"op": "get", "key": "warmup"}}] if warm else []
                                yield {"kind": kind, "cfg": dict(extra, ignore_exc=ie), "calls": pre + [{"op": r}] + FOLLOW, "follow": True, "coalesce": False}
    # a key prefix: a key that is legal on its own and too long (or blank) only together with the prefix is refused on the client
    # side like any other illegal key - were it sent, a server answers the command line and then reads the data block as a command
    for kind, extra in (STACKS[0], STACKS[1], STACKS[3], STACKS[4]):
        for pfx in (b"PREFIX/10:", "p" * 6):
            for nr in (None, True, False):
                for key in ("k" * 245, "k" * 250):
                    for val in (b"get warmup", b"flush_all noreply", b"v" * 300):
                        for r in ({"op": "set", "key": key, "value": val}, {"op": "add", "key": key, "value": val}, {"op": "append", "key": key, "value": val},
                                  {"op": "set_many", "values": {"fine": b"1", key: val}}):
                            if val != b"get warmup" and r["op"] not in ("set", "set_many"):
                                continue
                            r = dict(r, **({} if nr is None else {"noreply": nr}))
                            yield {"kind": kind, "cfg": dict(extra, ignore_exc=False, key_prefix=pfx), "calls": [{"op": {"op": "get", "key": "warmup"}}, {"op": r}] + FOLLOW,
                                   "follow": True, "coalesce": False}
    # megabytes of good items before the refused one (1.2, 2.5 and 5 MB in items of 100 and 300 KB), and very many keys before it
    for kind, extra in (STACKS[0], STACKS[1], STACKS[3]):
        for item, count in ((100000, 12), (300000, 8), (100000, 50)) if tier == "thorough" else ((100000, 12), (300000, 8)):
            for nr in (False, True):
                batch = {"good-%d" % j: b"z" * item for j in range(count)}
                batch["bad key"] = b"v"
                yield {"kind": kind, "cfg": dict(extra, ignore_exc=False, default_noreply=nr), "calls": [{"op": {"op": "get", "key": "warmup"}}, {"op": {"op": "set_many", "values": batch}}] + FOLLOW,
                       "follow": True, "coalesce": bool(count % 2)}
        for n in (10001, 25000):
            keys = ["key-%d" % j for j in range(n)] + ["bad key"]
            yield {"kind": kind, "cfg": dict(extra, ignore_exc=False), "calls": [{"op": {"op": "get_many", "keys": keys}}] + FOLLOW, "follow": True, "coalesce": False}
    # very many small items, the refused one far down the list
    for kind, extra in STACKS[:2]:
        for n in (999, 3000):
            keys = ["key-%d" % j for j in range(n)] + ["bad key"]
            for r in ({"op": "set_many", "values": {k: b"v" * 40 for k in keys}, "noreply": False}, {"op": "delete_many", "keys": keys, "noreply": False}, {"op": "get_many", "keys": keys}):
                yield {"kind": kind, "cfg": dict(extra, ignore_exc=False), "calls": [{"op": r}] + FOLLOW, "follow": True, "coalesce": False}


def serde_failure_cases(tier, seed):
    """a deserialiser that raises (any exception type) part-way through a reply: the rest of that reply must not be
    left on a connection that stays in use"""
    reads = [{"op": "get", "key": "t"}, {"op": "gets", "key": "n"}, {"op": "get_many", "keys": ["t", "n", "x4"]}, {"op": "gets_many", "keys": ["n", "t"]},
             {"op": "gat", "key": "t", "expire": 5}, {"op": "gats", "key": "x4", "expire": 0}, {"op": "get_many", "keys": ["x4", "t"]}]
    for kind, extra in STACKS:
        for ie in (False, True):
            for exc in sorted(faultlab.FailingSerde.EXC):
                for r in reads:
                    for keys in (None, ["t"], ["n"], ["x4"]):
                        for co in (False, True):
                            yield {"kind": kind, "cfg": dict(extra, ignore_exc=ie, failing_serde={"exc": exc, "keys": keys}), "coalesce": co,
                                   "pieces": None if co else [4096],
                                   "calls": [{"op": r}, {"op": {"op": "set", "key": "follow", "value": b"fv", "noreply": False}, "advance": 5},
                                             {"op": {"op": "delete", "key": "follow", "noreply": False}}, {"op": {"op": "version"}}]}


def check_serde_failure(case):
    state = {"seen": 0}
    run = interpret(case, observer_factory(case, state))
    a, b = run.outcomes[1], run.outcomes[2]
    if a != ("ok", True) or b != ("ok", True):
        raise Violation(["follow-up", case["kind"]], "after a failing deserialiser the follow-up set/delete returned %r / %r; history %r on %s cfg %r"
                        % (_short(a), _short(b), _hist(case), case["kind"], case.get("cfg")))
    first = run.outcomes[0]
    return True, [case["kind"], "deserialiser:" + case["cfg"]["failing_serde"]["exc"], "first=" + ("raised" if first[0] == "exc" else "returned")]


def minimise(case, still_fails):
    if case.get("follow"):
        return case
    calls = ddmin_list(case["calls"], lambda cs: still_fails(dict(case, calls=cs)))
    return dict(case, calls=calls)


def fault_strategy(interrupts=False):
    def sock(kind, whats):
        d = {"kind": st.just(kind), "nth": st.integers(0, 3), "what": st.sampled_from(whats)}
        if kind == "sendall":
            d["delivered"] = st.sampled_from(["none", "first", "all"])
        return st.fixed_dictionaries(d)
    if interrupts:
        alts = [sock(k, faultlab.INTERRUPTS) for k in ("connect", "sendall", "recv", "recv", "sendall", "settimeout", "getaddrinfo", "socket")]
    else:
        alts = [sock(k, w) for k, w in faultlab.SOCK_FAULTS.items() if k not in ("wrap", "setsockopt")]
        alts += [sock("recv", faultlab.SOCK_FAULTS["recv"]), sock("sendall", faultlab.SOCK_FAULTS["sendall"])]
        alts.append(st.fixed_dictionaries({"reply": st.integers(0, 3), "tamper": st.sampled_from(faultlab.TAMPERS)}))
        alts.append(st.fixed_dictionaries({"reply": st.integers(0, 3), "tamper": st.just("trunc"), "at": st.integers(0, 40),
                                           "then": st.sampled_from(["eof", "silence"])}))
    return st.one_of(*alts)


def history_strategy(tier, interrupts=False):
    lib = op_library()
    call = st.builds(lambda r, f, adv: dict({"op": r}, **({"faults": f} if f else {}), **({"advance": adv} if adv else {})),
                     st.sampled_from(lib),
                     st.one_of(st.just([]), st.just([]), st.lists(fault_strategy(interrupts), min_size=1, max_size=2)),
                     st.sampled_from([0, 0, 0, 0.5, 1.5, 61, 200]))
    kinds = st.sampled_from([("client", 1), ("pooled", 1), ("pooled", 1), ("hash", 1), ("hash", 2), ("hash", 3), ("hash-pooled", 2)])
    cfg = st.fixed_dictionaries({"default_noreply": st.sampled_from([True, False, True, False, 1, "yes", 0, ""]), "ignore_exc": st.booleans(),
                                 "max_pool_size": st.sampled_from([1, 2, None]), "retry_attempts": st.sampled_from([0, 1, 2])})
    pieces = st.one_of(st.none(), st.lists(st.sampled_from([1, 2, 3, 7, 4096, 1 << 30]), min_size=1, max_size=4))
    return st.builds(lambda kn, c, calls, p, e, co: {"kind": kn[0], "nservers": kn[1], "cfg": c, "calls": calls, "pieces": p, "eintr": e, "coalesce": co},
                     kinds, cfg, st.lists(call, min_size=1, max_size=12), pieces, st.sampled_from([None, None, [False, True]]), st.booleans())


def soak_cases(tier, seed):
    """one object used for a long time: a thousand and more calls over the whole operation library on one client, every few of
    them hit by a fault, clock advances in between - each call still consumes its own replies only"""
    lib = op_library()
    n = 1200 if tier == "quick" else 4000
    faults = [{"kind": "recv", "nth": 0, "what": "reset"}, {"kind": "recv", "nth": 0, "what": "timeout"}, {"reply": 0, "tamper": "garbage"}, {"reply": 0, "tamper": "error"},
              {"kind": "sendall", "nth": 0, "what": "pipe", "delivered": "none"}, {"reply": 0, "tamper": "trunc", "at": 2, "then": "eof"}, {"kind": "connect", "nth": 0, "what": "refused"}]
    for ki, (kind, ns_) in enumerate((("client", 1), ("pooled", 1), ("hash", 2), ("hash-pooled", 2), ("aws", 1))):
        for ie in (False, True):
            x = (seed * 3571 + ki * 13 + ie + 1) & 0x7FFFFFFF
            calls = []
            for i in range(n):
                x = (x * 1103515245 + 12345) & 0x7FFFFFFF
                c = {"op": lib[(x >> 12) % len(lib)]}
                if (x >> 3) % 9 == 0:
                    c["faults"] = [faults[(x >> 7) % len(faults)]]
                if (x >> 5) % 17 == 0:
                    c["advance"] = (0.5, 1.5, 61)[(x >> 20) % 3]
                calls.append(c)
            yield {"kind": kind, "nservers": ns_, "cfg": {"default_noreply": bool(ki % 2), "ignore_exc": ie, "max_pool_size": 2, "retry_attempts": ki % 3},
                   "calls": calls, "pieces": [None, [3], [1, 4096]][ki % 3], "coalesce": bool(ki % 2)}


def nested_cases(tier, seed):
    """a call made on the same pooled client from inside another call (by the deserializer that decodes the outer reply, by
    the serializer before the outer command is sent): see props/c09.py for the harness"""
    from props import c09
    for case in c09.reentrant_cases(tier, seed):
        if case["inner_fault"] is None or case["when"] == "deserialize":
            yield case


def check_nested(case):
    """each of the two calls consumes the reply to its own command only: the outer call's unread VALUE / END lines are not the
    nested call's, and the nested call's reply is not the outer call's"""
    from props import c09
    return c09.check_reentrant(case)


PARTS = [
    Part("calls-nested-in-calls", "enum", check_nested, cases=nested_cases, exhaustive=True),
    Part("long-lives", "enum", check, cases=soak_cases, shards={"quick": 10, "thorough": 10}),
    Part("single-fault-sweep", "enum", check, cases=sweep_cases, exhaustive=True),
    Part("rejected-batches", "enum", check, cases=rejected_batch_cases, exhaustive=True),
    Part("deserialiser-failures", "enum", check_serde_failure, cases=serde_failure_cases, exhaustive=True),
    Part("random-histories", "hyp", check, strategy=history_strategy, minimise=None,
         examples={"quick": 400, "thorough": 15000}, shards={"quick": 6, "thorough": 16}),
]


def selftest():
    mcserver.selftest()

"""C20 - key validation accepts exactly the documented legal keys."""
import itertools

from hypothesis import strategies as st

from vlib.harness import Env
from vlib.runner import Part, Violation

from pymemcache.client.base import Client, PooledClient, check_key_helper
from pymemcache.exceptions import MemcacheIllegalInputError

PROPERTY = "C20"
LEVEL = "exploration"
# parts repeated in a child interpreter started with -O and with warnings turned into errors (vlib/runner.py, MODES)
MODE_PARTS = {"OW": ['key-objects', 'class-exhaustive', 'every-position', 'length-boundaries', 'same-object-histories', 'server-unreachable', 'full-alphabet-short']}
RULE = ("case = (key, prefix, allow_unicode_keys, path); path in helper (check_key_helper) / client "
        "(Client.check_key) / pooled (PooledClient.check_key) / wire-client, wire-pooled, wire-hash (a get over the "
        "fake network; the memcached model's parsed command must carry exactly prefix+encoded key). Enumerated: all "
        "bytes keys of length 1-3 over 16 representatives (the 7 forbidden bytes, a, 0x01, 0x1c, 0x1f, 0x7f, 0x80, "
        "0x85, 0xa0, 0xff); all keys of length 1-2 over the full byte alphabet (bytes, and str over code points "
        "0-255 + U+0100/2028/3000/20AC/1F600); str keys that are not in a Unicode normal form (combining sequences, compatibility characters, a leading U+FEFF; also exactly 250 bytes long) together with their UTF-8 bytes spelling; every byte at every position of keys of length 5 and 250; byte lengths "
        "248..252 from 1/2/3/4-byte UTF-8 characters; prefix lengths 0..250 crossing 250 at every split; str and "
        "bytes prefixes. Hypothesis: random keys/prefixes. Oracle: an independent predicate (encode, prepend, <=250 "
        "bytes, none of the 7 forbidden bytes); accepted => returned/transmitted key == prefix+encoded; rejected => "
        "MemcacheIllegalInputError - also with ignore_exc=True on Client and HashClient, whose key check sits outside the handlers that turn failures into misses (PooledClient's read wrappers swallow every exception under ignore_exc by design, so that combination is not generated). The client's data `encoding` option (ascii/utf-8/latin-1) is varied as well: it must not influence which keys are legal. Keys whose prefixed form is empty are excluded (C02 covers them). Server unreachable: twelve operations (stores, reads, multi-key) with legal and illegal keys while the server refuses connections or times out - an illegal key is still rejected with MemcacheIllegalInputError, before anything is written. Same-object histories: sequences of 2-3 validations on ONE client object, each token used as a key (client's prefix) or as a `stats` argument (validated with an empty prefix), through Client.check_key(key, prefix) and over the wire on Client/PooledClient/HashClient - the verdict may depend on the token and the prefix only, not on what the object validated before. Non-trivial: "
        "the key contains a forbidden or non-ASCII byte, or prefix+key is within 2 bytes of 250. allow_unicode_keys is also given as a truthy / falsy non-bool (1, 'yes', 2, 1.0 / 0, '', None), which must behave as True / False. The ElastiCache subclass is a path like HashClient. Key objects of bytes / str subclasses with their own ==, != or truth value are judged by their content. One illegal key among 1 to 1000 (thorough 5000) legal ones in get_many / gets_many / delete_many / set_many, first, in the middle or last."
        + ' Illegal keys together with a value the serializer refuses (a raising serializer, pickle of a lambda) through every store command: the key is judged first.'
        + " Server unreachable also covers a HashClient whose only server has been given up (retry_attempts=0, one failed call; ignore_exc off and on): with nothing in rotation an illegal key is still rejected with MemcacheIllegalInputError - not 'all servers down', not a miss - and a legal one is not.")
MANIFEST = {
    "category": "exploration",
    "technique": "bounded-exhaustive enumeration over byte-class representatives and the full byte alphabet for short keys + Hypothesis random keys/prefixes, decided by an independent validity predicate (specification oracle) and by the wire key seen by a strict server model",
    "text": "The accept/reject verdict and the resulting wire key are compared with an independent statement of the rule for every key of length 1-2 over all 256 bytes, length 1-3 over class representatives, every byte at every position of 5- and 250-byte keys, all boundary lengths with multi-byte UTF-8, and every prefix length, through check_key_helper, Client, PooledClient and HashClient (the latter three also over the fake network). Exhaustive on the class-projected domain; the rule depends only on byte classes and total length, so this projection is the whole decision space.",
    "note": "Well-formed Unicode only (lone surrogates excluded); keys whose prefixed form is empty are out of this property's scope.",
    "design_ref": "DESIGN.md 3/C20",
}
ASSUMPTIONS = [
    "the documented rule is: <=250 bytes after prefixing, no space/TAB/CR/LF/VT/FF/NUL; str keys ASCII unless allow_unicode_keys (then UTF-8)",
    "lone surrogates are outside the domain (well-formed Unicode only)",
]

FORBIDDEN = b" \t\r\n\x0b\x0c\x00"
REPS = [0x20, 0x09, 0x0D, 0x0A, 0x0B, 0x0C, 0x00, 0x61, 0x01, 0x1C, 0x1F, 0x7F, 0x80, 0x85, 0xA0, 0xFF]
EXTRA_CP = [0x100, 0x2028, 0x3000, 0x20AC, 0x1F600]
# str keys that are legal but not in a Unicode normal form: the wire key is the UTF-8 of the code points as given
NON_NORMAL = ["cafe\u0301", "\u212b", "\u2126", "\u1100\u1161", "\ufb01", "\u0958" * 83 + "a", "e\u0301" * 83 + "e", "\ufeffk", "A\u030a\u0327", "\u1e9b\u0323", "\u2000k".replace("\u2000", "\u00a0")]


# the allow_unicode_keys option is used by its truth value; equivalent spellings of on and off
AU_SPELLINGS = (1, "yes", 2, 1.0, 0, "", None)


def spec(key, prefix, au):
    """Independent statement of the rule: returns the wire key, or None if the key must be rejected."""
    if isinstance(prefix, str):
        prefix = prefix.encode("ascii")
    if isinstance(key, str):
        try:
            enc = key.encode("utf-8" if au else "ascii")
        except UnicodeEncodeError:
            return None
    else:
        enc = key
    full = prefix + enc
    if len(full) > 250:
        return None
    if any(b in FORBIDDEN for b in full):
        return None
    return full


def _nontrivial(key, prefix, au):
    enc = key.encode("utf-8", "surrogatepass") if isinstance(key, str) else key
    n = len(prefix) + len(enc)
    return any(b in FORBIDDEN or b >= 0x80 for b in enc) or 248 <= n <= 252


def _wire(kind, key, prefix, au, ignore_exc=False, encoding="ascii"):
    env = Env()
    c = env.client(kind, key_prefix=prefix, allow_unicode_keys=au, ignore_exc=ignore_exc, encoding=encoding)
    mark = len(env.net.log)          # (the ElastiCache subclass has talked to its configuration endpoint by now)
    r = env.call(c.get, key)
    srv = env.server
    sent = any(e[3] == "sendall" for e in env.net.log[mark:])
    return r, srv, sent, env


def check(case):
    key, prefix, au, path = case[:4]
    encoding = case[4] if len(case) > 4 else "ascii"       # the *data* encoding: must not change which keys are legal
    want = spec(key, prefix, au)
    bprefix = prefix.encode("ascii") if isinstance(prefix, str) else prefix
    enc_len_zero = (isinstance(key, (bytes, str)) and len(key) == 0 and len(bprefix) == 0)
    if enc_len_zero:
        return False, ["empty-excluded"]
    labels = [path, "accept" if want is not None else "reject"]
    desc = "key=%r prefix=%r allow_unicode_keys=%r encoding=%r via %s" % (key if len(key) < 40 else (key[:20], "...", len(key)),
                                                           prefix if len(prefix) < 40 else (prefix[:10], "...", len(prefix)), au, encoding, path)
    if path in ("helper", "client", "pooled"):
        try:
            if path == "helper":
                got = check_key_helper(key, au, bprefix)
            elif path == "client":
                got = Client(("h", 1), allow_unicode_keys=au, key_prefix=prefix, encoding=encoding).check_key(key, bprefix)
            else:
                got = PooledClient(("h", 1), allow_unicode_keys=au, key_prefix=prefix, encoding=encoding).check_key(key)
            exc = None
        except Exception as e:  # noqa: BLE001
            got, exc = None, e
        if want is None:
            if exc is None:
                raise Violation(["accepted-illegal", path], "illegal key accepted (returned %r): %s" % (got, desc))
            if not isinstance(exc, MemcacheIllegalInputError):
                raise Violation(["wrong-exception", path, type(exc).__name__], "rejected with %r instead of MemcacheIllegalInputError: %s" % (exc, desc))
        else:
            if exc is not None:
                raise Violation(["rejected-legal", path, type(exc).__name__], "legal key rejected with %r: %s" % (exc, desc))
            if got != want or type(got) is not bytes:
                raise Violation(["wrong-wire-key", path], "returned %r, expected %r: %s" % (got, want, desc))
    else:
        kind = {"wire-client": "client", "wire-pooled": "pooled", "wire-hash": "hash", "wire-hash-pooled": "hash-pooled", "wire-aws": "aws", "wire-aws-pooled": "aws-pooled",
                "wire-client-ie": "client", "wire-hash-ie": "hash", "wire-hash-pooled-ie": "hash-pooled"}[path]
        try:
            r, srv, sent, env = _wire(kind, key, prefix, au, ignore_exc=path.endswith("-ie"), encoding=encoding)
        except Exception as e:  # noqa: BLE001   constructor refused the configuration
            raise Violation(["constructor", path, type(e).__name__], "constructing the client raised %r: %s" % (e, desc))
        if want is None:
            if r[0] == "ok":
                raise Violation(["accepted-illegal", path], "illegal key accepted (server parsed %r, errors %r): %s" % (srv.log, srv.errors, desc))
            if not isinstance(r[1], MemcacheIllegalInputError):
                raise Violation(["wrong-exception", path, type(r[1]).__name__], "rejected with %r instead of MemcacheIllegalInputError: %s" % (r[1], desc))
            if sent:
                raise Violation(["sent-before-reject", path], "bytes were written although the key is illegal: %s" % desc)
        else:
            if r[0] == "exc":
                raise Violation(["rejected-legal", path, type(r[1]).__name__], "legal key rejected with %r: %s" % (r[1], desc))
            if srv.errors or len(srv.log) != 1 or srv.log[0].get("verb") != b"get" or srv.log[0].get("keys") != [want]:
                raise Violation(["wrong-wire-key", path], "server parsed %r (errors %r), expected get %r: %s" % (srv.log, srv.errors, want, desc))
    return _nontrivial(key, bprefix, au), labels


# ---- key objects that answer ==, != and bool() in their own way ---------------------------------------------------------

class BlankEqKey(bytes):
    """equal to anything that differs only by surrounding blanks"""

    def __eq__(self, o):
        return isinstance(o, (bytes, bytearray)) and bytes(self).strip() == bytes(o).strip()

    def __ne__(self, o):
        return not self.__eq__(o)

    __hash__ = bytes.__hash__


class StrictKey(bytes):
    """equal only to keys of its own kind (a tenant-tagged key)"""

    def __eq__(self, o):
        return type(o) is StrictKey and bytes(self) == bytes(o)

    def __ne__(self, o):
        return not self.__eq__(o)

    __hash__ = bytes.__hash__


class FalsyKey(bytes):
    def __bool__(self):
        return False


class FalsyStrKey(str):
    def __bool__(self):
        return False


class BlankEqStrKey(str):
    def __eq__(self, o):
        return isinstance(o, str) and str(self).strip() == str(o).strip()

    def __ne__(self, o):
        return not self.__eq__(o)

    __hash__ = str.__hash__


KEY_WRAPS = {"blank-eq": BlankEqKey, "strict": StrictKey, "falsy": FalsyKey, "falsy-str": FalsyStrKey, "blank-eq-str": BlankEqStrKey}
WRAP_KEYS = [b"abc", b" abc", b"abc ", b"\tabc\r\n", b"a b", b"a", b"\x00", b"k" * 250, b"k" * 251, b"caf\xc3\xa9", b"abc\r\nflush_all"]


def key_object_cases(tier, seed):
    for wrap in KEY_WRAPS:
        for kb in WRAP_KEYS:
            for prefix in (b"", b"p:"):
                for au in (False, True):
                    for path in _paths_cheap() + ["wire-client", "wire-pooled", "wire-hash", "wire-hash-pooled", "wire-client-ie", "wire-aws"]:
                        yield {"key": kb, "wrap": wrap, "prefix": prefix, "au": au, "path": path}


def check_key_object(case):
    """what decides is the key's content (its bytes, or its text encoded): a key object of a bytes / str subclass with its own
    ==, != or truth value is accepted, rejected and transmitted exactly like a plain key with the same content"""
    klass = KEY_WRAPS[case["wrap"]]
    kb = case["key"]
    if issubclass(klass, str):
        try:
            plain = kb.decode("ascii")
        except UnicodeDecodeError:
            plain = kb.decode("utf-8")
    else:
        plain = kb
    try:
        nt, labels = check((klass(plain), case["prefix"], case["au"], case["path"]))
    except Violation as v:
        raise Violation(["key-object", case["wrap"]] + v.signature, "key object of class %s (%s): %s" % (klass.__name__, klass.__doc__ or "its own truth value", v))
    return True, labels + ["key-object", case["wrap"]]


# ---- an illegal key among many legal ones ------------------------------------------------------------------------------

BAD_IN_LIST = [b"bad\r\n", b" lead", b"trail ", b"a\tb", b"mid dle", b"nul\x00", b"k" * 251, "caf\u00e9", b"\r\nflush_all", b"vt\x0b", b"trail\n"]


def list_cases(tier, seed):
    for n in (1, 2, 127, 128, 129, 1000) if tier == "quick" else (1, 2, 3, 64, 127, 128, 129, 255, 256, 1000, 5000):
        for bi in range(len(BAD_IN_LIST)):
            for pos in ("first", "middle", "last"):
                for kind in ("client", "pooled", "hash"):
                    for op in ("get_many", "gets_many", "delete_many", "set_many"):
                        if tier == "quick" and (bi + n + len(pos) + len(op)) % 3 and n not in (128, 129):
                            continue
                        yield {"n": n, "bad": bi, "pos": pos, "kind": kind, "op": op, "prefix": b"" if (bi + n) % 2 else b"p:"}


def check_list(case):
    """a multi-key call with n keys of which exactly one is illegal, wherever it stands and however long the list is, is refused
    with MemcacheIllegalInputError - and on Client and PooledClient nothing at all is sent"""
    n, bad, kind, op = case["n"], BAD_IN_LIST[case["bad"]], case["kind"], case["op"]
    keys = ["key-%d" % i for i in range(n)]
    i = {"first": 0, "middle": n // 2, "last": n - 1}[case["pos"]]
    keys[i] = bad
    env = Env()
    c = env.client(kind, key_prefix=case["prefix"], default_noreply=False)
    mark = len(env.net.log)
    r = env.call(getattr(c, op), {k: b"v" for k in keys}) if op == "set_many" else env.call(getattr(c, op), keys)
    desc = "%s of %d keys on %s (prefix %r) with the illegal key %r %s" % (op, n, kind, case["prefix"], bad, case["pos"])
    if r[0] == "ok":
        raise Violation(["list", "accepted-illegal", op], "accepted (returned %s; the server parsed %r, errors %r): %s" % (repr(r[1])[:80], env.server.log[-2:], env.server.errors[:2], desc))
    if not isinstance(r[1], MemcacheIllegalInputError):
        raise Violation(["list", "wrong-exception", type(r[1]).__name__], "rejected with %r instead of MemcacheIllegalInputError: %s" % (r[1], desc))
    if kind != "hash" and any(e[3] == "sendall" for e in env.net.log[mark:]):
        raise Violation(["list", "sent-before-reject", op], "bytes were written although one key is illegal: %s" % desc)
    return True, ["list", op, "n=%d" % n]


def _paths_cheap():
    return ["helper", "client", "pooled"]


def class_cases(tier, seed):
    """all keys of length 1-3 over the 16 representatives, as bytes and as str, every path"""
    wire = ["wire-client", "wire-pooled", "wire-hash", "wire-client-ie", "wire-hash-ie", "wire-hash-pooled-ie"]
    for n in (1, 2, 3):
        for t in itertools.product(REPS, repeat=n):
            kb = bytes(t)
            ks = kb.decode("latin-1")
            for au in (False, True):
                for prefix in (b"", b"p:"):
                    for path in _paths_cheap():
                        yield (kb, prefix, au, path)
                        yield (ks, prefix, au, path)
                    if n <= 2 or tier == "thorough":
                        for path in wire:
                            yield (kb, prefix, au, path)
                        yield (ks, prefix, au, wire[(t[0] + n) % 6])


def full_alphabet_cases(tier, seed):
    """all keys of length 1-2 over the full byte alphabet"""
    for a in range(256):
        kb = bytes([a])
        for au in (False, True):
            for path in _paths_cheap() + ["wire-client", "wire-pooled", "wire-hash", "wire-hash-pooled"] + (["wire-aws"] if a in REPS or a >= 0x7F else []):
                yield (kb, b"", au, path)
                yield (chr(a), b"", au, path)
                yield (kb, "pre", au, path)
    # the data encoding option (utf-8 / latin-1) must not make non-ASCII str keys legal
    for enc in ("utf-8", "latin-1"):
        for cp in (0x61, 0x7F, 0x80, 0xE9, 0xFF, 0x100, 0x20AC, 0x20, 0x0A):
            for au in (False, True) + AU_SPELLINGS:
                for path in ("client", "pooled", "wire-client", "wire-pooled", "wire-hash", "wire-hash-pooled"):
                    yield (chr(cp), b"", au, path, enc)
                    yield ("k" + chr(cp) + "k", b"p:", au, path, enc)
                    yield (bytes([cp & 0xFF]), b"", au, path, enc)
    for k in NON_NORMAL:
        for au in (False, True) + AU_SPELLINGS:
            for prefix in (b"", b"p:", "pre"):
                for path in _paths_cheap() + ["wire-client", "wire-pooled", "wire-hash", "wire-hash-pooled", "wire-client-ie", "wire-aws", "wire-aws-pooled"]:
                    yield (k, prefix, au, path)
                    yield (k.encode("utf-8"), prefix, au, path)
    for cp in EXTRA_CP:
        for au in (False, True):
            for path in _paths_cheap() + ["wire-client", "wire-hash"]:
                yield (chr(cp), b"", au, path)
                yield ("a" + chr(cp), b"p", au, path)
                yield (chr(cp) + "\n", b"", au, path)
    for a in range(256):
        for b in range(256):
            kb = bytes([a, b])
            yield (kb, b"", False, "helper")
            yield (kb, b"", True, "client" if (a + b) % 2 else "pooled")
            if tier == "thorough" or (a in REPS or b in REPS):
                yield (kb.decode("latin-1"), b"", True, "helper")
                yield (kb.decode("latin-1"), b"", False, "helper")


def position_cases(tier, seed):
    """every byte value at every position of keys of length 5 and 250"""
    for length in (5, 250):
        positions = range(length) if length == 5 or tier == "thorough" else [0, 1, 2, 124, 247, 248, 249]
        for pos in positions:
            for b in (range(256) if length == 5 or tier == "thorough" else REPS):
                kb = b"k" * pos + bytes([b]) + b"k" * (length - pos - 1)
                path = ["helper", "client", "pooled", "wire-client", "wire-pooled", "wire-hash"][(pos + b) % 6]
                if length == 250 and path.startswith("wire") and b not in REPS:
                    path = "helper"
                yield (kb, b"", bool(b & 1), path)


def boundary_cases(tier, seed):
    """byte lengths 248..252 built from 1-,2-,3-,4-byte UTF-8 characters, and every prefix split"""
    chars = ["a", "é", "€", "\U0001F600"]
    for ch in chars:
        w = len(ch.encode("utf-8"))
        for total in range(246, 255):
            n, pad = divmod(total, w)
            key = ch * n + "a" * pad
            for au in (False, True):
                for path in _paths_cheap() + ["wire-client", "wire-pooled", "wire-hash"]:
                    yield (key, b"", au, path)
                    yield (key.encode("utf-8"), b"", au, path)
            # with a prefix that takes some of the room
            for plen in (1, 2, 7, 100):
                if total - plen > 0:
                    n2, pad2 = divmod(total - plen, w)
                    key2 = ch * n2 + "a" * pad2
                    for path in ("helper", "client", "pooled", "wire-client", "wire-hash"):
                        yield (key2, b"P" * plen, True, path)
    for plen in range(0, 251):
        for total in (249, 250, 251):
            klen = total - plen
            if klen < 1:
                continue
            path = ["helper", "client", "pooled", "wire-client", "wire-pooled", "wire-hash"][plen % 6]
            yield (b"k" * klen, b"P" * plen, False, path)
            yield ("k" * klen, "P" * plen, bool(plen & 1), ["client", "pooled", "wire-client", "wire-pooled", "wire-hash"][plen % 5])


# ---- an illegal key is an illegal key whatever state the server is in ------------------------------------------------

DOWN_OPS = ["get", "set", "add", "delete", "incr", "touch", "gets", "append", "cas", "set_many", "get_many", "delete_many"]


def down_cases(tier, seed):
    keys = [b"bad key", "bad key", b"k\r\nflush_all", b"x" * 251, "\u00e9", b"k\x00", b"\t", "fine", b"fine", "k" * 250]
    for key in keys:
        for kind in ("client", "pooled", "hash", "hash-pooled"):
            for opn in DOWN_OPS:
                for how in ("refused", "timeout") + (("given-up", "given-up-ie") if kind.startswith("hash") else ()):
                    for pfx in (b"", b"p:"):
                        yield (key, kind, opn, how, pfx)


def check_down(case):
    key, kind, opn, how, pfx = case
    env = Env()
    if how.startswith("given-up"):
        # a HashClient whose only server has been given up (retry_attempts=0, one failed call): nothing is in rotation. The
        # verdict on a key does not depend on that - with ignore_exc an illegal key is not a miss either
        env.server.down = "refused"
        c = env.client(kind, key_prefix=pfx, default_noreply=False, retry_attempts=0, ignore_exc=how.endswith("-ie"))
        env.call(c.get, "fine")
        del env.net.log[:]
    else:
        env.server.down = how
        c = env.client(kind, key_prefix=pfx, default_noreply=False)
    want = spec(key, pfx, False)
    args = {"get": (key,), "gets": (key,), "delete": (key,), "set": (key, b"v"), "add": (key, b"v"), "append": (key, b"v"), "incr": (key, 1), "touch": (key, 5),
            "cas": (key, b"v", b"1"), "set_many": ({"good": b"1", key: b"2"},), "get_many": (["good", key],), "delete_many": (["good", key],)}[opn]
    if kind.startswith("hash") and opn in ("get_many", "delete_many", "set_many") and want is None:
        return False, ["hash-multi-skipped"]        # (HashClient works key by key: C02's carve-out)
    r = env.call(getattr(c, opn), *args)
    desc = "%s(%r%s) on %s with prefix %r while the server is unreachable (%s)" % (opn, key if len(key) < 30 else (key[:5], len(key)), ", ..." if len(args) > 1 else "", kind, pfx, how)
    sent = any(e[3] == "sendall" and e[4] for e in env.net.log)
    if want is None:
        if not (r[0] == "exc" and isinstance(r[1], MemcacheIllegalInputError)):
            raise Violation(["server-down", "wrong-rejection", opn, type(r[1]).__name__ if r[0] == "exc" else "returned"], "an illegal key was answered with %r, not with MemcacheIllegalInputError: %s" % (r, desc))
        if sent:
            raise Violation(["server-down", "sent-before-reject", opn], "bytes were written although the key is illegal: %s" % desc)
    elif r[0] == "exc" and isinstance(r[1], MemcacheIllegalInputError):
        raise Violation(["server-down", "rejected-legal", opn], "a legal key was rejected with %r: %s" % (r[1], desc))
    return want is None, ["server-down", opn, "reject" if want is None else "legal"]


# ---- the verdict on a key does not depend on what the same object validated before ------------------------------------

H_TOKENS = ["items", b"items", "k" * 245, b"k" * 241, "k\u00e9y", "bad key", b"x" * 250]


def history_cases(tier, seed):
    syms = [(t, role) for t in H_TOKENS for role in ("key", "arg")]
    for prefix in (b"ns:", b"0123456789"):
        for au in (False, True, 1, ""):
            for path in ("check_key", "wire-client", "wire-pooled", "wire-hash"):
                for n in (2, 3):
                    for seq in itertools.product(range(len(syms)), repeat=n):
                        if n == 3 and (tier == "quick" or path != "check_key") and (sum(seq) + len(prefix) + bool(au)) % 5:
                            continue
                        yield {"prefix": prefix, "au": au, "path": path, "seq": [syms[i] for i in seq]}


def check_history(case):
    """One client object, a sequence of validations in two roles: as a key (with the client's prefix) and as an argument of
    `stats` (validated with an empty prefix). Each verdict must be what the rule gives for that token and that prefix."""
    prefix, au, path = case["prefix"], case["au"], case["path"]
    roles = {}
    mixed = False
    if path == "check_key":
        c = Client(("h", 1), allow_unicode_keys=au, key_prefix=prefix)
        env = None
    else:
        env = Env()
        c = env.client({"wire-client": "client", "wire-pooled": "pooled", "wire-hash": "hash"}[path], key_prefix=prefix, allow_unicode_keys=au)
    for i, (tok, role) in enumerate(case["seq"]):
        p = prefix if role == "key" else b""
        want = spec(tok, p, au)
        tb = tok.encode("utf-8") if isinstance(tok, str) else tok
        if roles.setdefault(tb, role) != role:
            mixed = True
        desc = "step %d (%r as %s) of %r on one object, prefix=%r allow_unicode_keys=%r via %s" % (
            i, tok if len(tok) < 30 else (tok[:5], len(tok)), role, [(t if len(t) < 30 else (t[:5], len(t)), r) for t, r in case["seq"]], prefix, au, path)
        if env is None:
            try:
                got, exc = c.check_key(tok, p), None
            except Exception as e:  # noqa: BLE001
                got, exc = None, e
        else:
            lm = len(env.server.log)
            r = env.call(c.get, tok) if role == "key" else env.call(c.stats, tok)
            exc = r[1] if r[0] == "exc" and isinstance(r[1], (MemcacheIllegalInputError, TypeError, ValueError, UnicodeError)) else None
            new = env.server.log[lm:]
            got = None
            if exc is None:
                got = (new[0].get("keys") or new[0].get("args") or [None])[0] if len(new) == 1 else new
        if want is None:
            if exc is None:
                raise Violation(["history", "accepted-illegal", path], "illegal key accepted (%r): %s" % (got, desc))
            if not isinstance(exc, MemcacheIllegalInputError):
                raise Violation(["history", "wrong-exception", path, type(exc).__name__], "rejected with %r: %s" % (exc, desc))
        else:
            if exc is not None:
                raise Violation(["history", "rejected-legal", path], "legal key rejected with %r: %s" % (exc, desc))
            if got != want:
                raise Violation(["history", "wrong-wire-key", path], "validated/transmitted as %r, the rule gives %r: %s" % (got, want, desc))
    return mixed, [path, "history", "len=%d" % len(case["seq"])] + (["token-in-two-roles"] if mixed else [])


def random_strategy(tier):
    forb = st.sampled_from([chr(b) for b in FORBIDDEN])
    chars = st.one_of(st.characters(min_codepoint=0x21, max_codepoint=0x7E),
                      st.characters(min_codepoint=0, max_codepoint=0xFF),
                      st.characters(exclude_categories=["Cs"]), forb)
    combining = st.sampled_from(["\u0301", "\u0327", "\u030a", "\u0323", "\u212b", "\u2126", "\ufb01", "\u0958", "\ufeff", "\u1161"])
    skey = st.one_of(st.text(chars, min_size=1, max_size=260), st.lists(st.one_of(st.characters(min_codepoint=0x41, max_codepoint=0x7A), combining), min_size=1, max_size=90).map("".join))
    bkey = st.binary(min_size=1, max_size=260)
    longk = st.integers(240, 256).flatmap(lambda n: st.one_of(
        st.binary(min_size=n, max_size=n),
        st.text(st.characters(min_codepoint=0x21, max_codepoint=0x7E), min_size=n, max_size=n)))
    prefix = st.one_of(st.just(b""), st.binary(max_size=12),
                       st.integers(0, 250).map(lambda n: b"P" * n),
                       st.text(st.characters(min_codepoint=0x21, max_codepoint=0x7E), max_size=10))
    path = st.sampled_from(["helper", "client", "pooled", "wire-client", "wire-pooled", "wire-hash", "wire-hash-pooled",
                            "wire-client-ie", "wire-hash-ie", "wire-hash-pooled-ie", "wire-aws", "wire-aws-pooled"])
    return st.tuples(st.one_of(skey, bkey, longk), prefix, st.one_of(st.booleans(), st.booleans(), st.sampled_from(AU_SPELLINGS)), path,
                     st.sampled_from(["ascii", "ascii", "utf-8", "latin-1"]))


# ---- stores whose value the serializer refuses --------------------------------------------------------------------------

class _RefusingSerde:
    """a serializer that cannot serialize what it is given (as pickle cannot a lambda, json not a set)"""

    def __init__(self):
        self.keys_seen = []

    def serialize(self, key, value):
        self.keys_seen.append(key)
        raise TypeError("cannot serialize %r" % type(value).__name__)

    def deserialize(self, key, value, flags):
        return value


def refused_value_cases(tier, seed):
    bad = [" ", "a b", "k\r\n", "tab\there", b"nul\x00", "k" * 251, "caf\u00e9", b"\x0bvt", "end\n"]
    for key in bad:
        for prefix in (b"", b"p:"):
            for kind in ("client", "pooled", "hash", "hash-pooled"):
                for op in ("set", "add", "replace", "append", "prepend", "cas", "set_many", "setitem"):
                    for sd in ("refusing", "pickle-lambda"):
                        for pair in (False, True):
                            if pair and not kind.startswith("hash"):
                                continue
                            if op == "setitem" and kind.startswith("hash"):
                                continue
                            yield (key, prefix, kind, op, sd, pair)


def check_refused_value(case):
    """an illegal key is refused as an illegal key (MemcacheIllegalInputError, nothing sent) whatever the value is - also a value
    the configured serializer cannot serialize: the key is judged first"""
    key, prefix, kind, op, sd, pair = case
    from pymemcache import serde as S_
    env = Env()
    ser = _RefusingSerde() if sd == "refusing" else S_.pickle_serde
    value = (lambda: None) if sd == "pickle-lambda" else {"a", "set"}
    c = env.client(kind, key_prefix=prefix, serde=ser)
    k = ("routing-key", key) if pair else key
    mark = len(env.net.log)
    if op == "set_many":
        r = env.call(c.set_many, {k: value}, noreply=False)
    elif op == "cas":
        r = env.call(c.cas, k, value, b"1")
    elif op == "setitem":
        r = env.call(c.__setitem__, k, value)
    else:
        r = env.call(getattr(c, op), k, value, noreply=False)
    sent = any(e[3] == "sendall" for e in env.net.log[mark:])
    desc = "%s(%r, <a value the serializer refuses: %s>) prefix=%r on %s" % (op, k, sd, prefix, kind)
    if r[0] == "ok":
        raise Violation(["accepted-illegal", "refused-value", op], "illegal key accepted: %s" % desc)
    if not isinstance(r[1], MemcacheIllegalInputError):
        raise Violation(["wrong-exception", "refused-value", op, type(r[1]).__name__], "rejected with %r instead of MemcacheIllegalInputError: %s" % (r[1], desc))
    if sent:
        raise Violation(["sent-before-reject", "refused-value", op], "bytes were written although the key is illegal: %s" % desc)
    return True, ["refused-value", kind, op]


PARTS = [
    Part("illegal-keys-with-values-the-serializer-refuses", "enum", check_refused_value, cases=refused_value_cases, exhaustive=True),
    Part("an-illegal-key-among-many", "enum", check_list, cases=list_cases, exhaustive=True),
    Part("key-objects", "enum", check_key_object, cases=key_object_cases, exhaustive=True),
    Part("class-exhaustive", "enum", check, cases=class_cases, exhaustive=True),
    Part("full-alphabet-short", "enum", check, cases=full_alphabet_cases, exhaustive=True),
    Part("every-position", "enum", check, cases=position_cases, exhaustive=True),
    Part("length-boundaries", "enum", check, cases=boundary_cases, exhaustive=True),
    Part("server-unreachable", "enum", check_down, cases=down_cases, exhaustive=True),
    Part("same-object-histories", "enum", check_history, cases=history_cases, exhaustive=True),
    Part("random", "hyp", check, strategy=random_strategy,
         examples={"quick": 1500, "thorough": 60000}, shards={"quick": 4, "thorough": 16}),
]

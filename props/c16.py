"""C16 - PooledClient, single-server HashClient and RetryingClient behave like Client."""
from hypothesis import strategies as st

from props import c04, c15
from vlib import mcserver, ops
from vlib.harness import Env
from vlib.mcserver import Item
from vlib.runner import Part, Violation

from pymemcache.client.base import KeepaliveOpts
from pymemcache.client.retrying import RetryingClient

PROPERTY = "C16"
LEVEL = "exploration"
# parts repeated in a child interpreter started with -O and with warnings turned into errors (vlib/runner.py, MODES)
MODE_PARTS = {"OW": ['grid', 'sequences', 'life-cycle']}
RULE = ("case = (shared configuration {key_prefix bytes/str, default_noreply, encoding, allow_unicode_keys, serde in "
        "none/json/pickle/compressed, connect_timeout, timeout, no_delay, socket_keepalive, TLS}, server state in "
        "hit/numeric-hit/miss/a hit whose value is falsy (b'' without a serializer, None as the serializer stores it with one), one key-addressed call: required arguments positionally, optional ones (expire, noreply, "
        "flags, default, cas_default) by keyword, get's default also positionally; cas with matching / stale token; "
        "incr on numeric / non-numeric / missing; optional arguments passed by keyword or by position (in the order Client documents); multi-key calls with repeated keys and with the key collection given as tuple, dict view or a one-shot iterable (iterator, generator, map object); illegal keys; str values only some encodings can encode). The call is "
        "run on a fresh stack of each kind - Client (reference), PooledClient, HashClient([server]) with use_pooling "
        "off and on, RetryingClient(Client, attempts=1), and attempts=3 when the reference call succeeds - each over "
        "its own fake network and memcached model in the same state. Oracle (differential): identical parsed command "
        "stream at the server (packetisation ignored) and parse errors; equal result of identical type or the same "
        "exception class; identical socket option / timeout / TLS-wrap / connect events on the connection that did the "
        "work. Non-trivial: the configuration differs from the defaults in an option other than key_prefix, or the "
        "call passes an optional argument. Server spellings (ip / name without port, name:port with capitals, [v6]:port, [v6], unix:path, path, tuple with a text port) are part of the configuration for every stack. Stacks may be built around a Client subclass (reference: that subclass used directly) and include the ElastiCache subclass; a serializer object that is falsy; key collections that can be iterated once without being their own iterator. Sequences in which the server refuses a storage command line (a number out of range) and then reads the data block as a command, with every reply line in a packet of its own, and with a server that hangs up after error lines."
        + ' Keys with rendezvous score 0, 1, 2**31, 2**32-1 for the one server under every server spelling; lone-surrogate keys (where every other argument is valid); configurations the plain Client refuses at construction (a non-ASCII str key prefix) must be refused by every stack alike, and a configuration it accepts by none.')
MANIFEST = {
    "category": "exploration",
    "technique": "differential testing of five client stacks against the plain Client over identical generated (configuration, server state, call) triples; enumerated option x call grid + Hypothesis",
    "text": "Every generated call is executed on a plain Client and on each wrapper stack, each against its own memcached model in the same state; the server-side parsed command stream, the result (value and type, or exception class) and the socket-level configuration events must be identical. An enumerated grid covers each configuration option alone x each call shape x each server state; Hypothesis mixes them.",
    "note": "Optional arguments are passed by keyword (positionally only for get's default, whose signature is common); RetryingClient is compared with attempts=1 in error states; non-key-addressed calls are out of scope.",
    "design_ref": "DESIGN.md 3/C16",
}
ASSUMPTIONS = [
    "optional arguments by keyword (HashClient.gat(key, 10) binds 10 to default, Client to expire - DESIGN.md 5)",
    "each stack talks to its own server model initialised to the same state",
]

# "aws": the ElastiCache subclass of HashClient (it re-implements the constructor), its one node learnt from a configuration endpoint
STACKS = ["pooled", "hash", "hash-pooled", "retry1", "aws", "aws-pooled"]


def _stacks_for(cfg):
    # (an ElastiCache cluster advertises host|ip|port triples: no server spellings; and it is not built around a client_class here)
    return [s_ for s_ in STACKS if not (s_.startswith("aws") and (cfg.get("server") or cfg.get("client_class")))]


# equivalent spellings of the server in the configuration: name -> (the address the server listens on, how the client is told)
SERVER_SPELLINGS = {
    "ip-no-port": (("127.0.0.1", 11211), "127.0.0.1"), "name-no-port": (("localhost", 11211), "localhost"), "name:port": (("mc1", 11211), "mc1:11211"),
    "Name:port": (("Cache-A.Example.COM", 11212), "Cache-A.Example.COM:11212"), "[v6]:port": (("::1", 11311), "[::1]:11311"), "[v6]": (("fe80::A", 11211), "[fe80::A]"),
    "unix:path": ("/tmp/mc.sock", "unix:/tmp/mc.sock"), "path": ("/var/run/mc.sock", "/var/run/mc.sock"), "tuple-text-port": (("mc1", 11211), ("mc1", "11211")),
}


def _env(cfg):
    if cfg.get("server"):
        addr, spec = SERVER_SPELLINGS[cfg["server"]]
        env = Env(addrs=[addr], spec=spec)
    else:
        env = Env()
    if cfg.get("coalesce") is False:
        env.net.coalesce = False          # every reply line in a packet (a recv) of its own
    if cfg.get("dialect"):
        env.server.dialect = set(cfg["dialect"])   # the server answers in a dialect (vlib/mcserver.py)
    return env


def build_kwargs(cfg, env):
    kw = {}
    for k in ("key_prefix", "default_noreply", "encoding", "allow_unicode_keys", "connect_timeout", "timeout", "no_delay"):
        if k in cfg:
            kw[k] = cfg[k]
    if cfg.get("serde") is not None:
        kw["serde"] = c04.make_serde(cfg["serde"])
    if cfg.get("legacy"):
        # the deprecated function arguments, alone or together
        if cfg["legacy"] in ("both", "serializer"):
            kw["serializer"] = _legacy_ser
        if cfg["legacy"] in ("both", "deserializer"):
            kw["deserializer"] = _legacy_deser
    if cfg.get("keepalive"):
        kw["socket_keepalive"] = KeepaliveOpts(*cfg["keepalive"])
    if cfg.get("tls"):
        kw["tls_context"] = env.tls()
    if cfg.get("client_class"):
        # the stacks are built around a Client subclass (vlib/subclasses.py); the reference is that subclass used directly
        from vlib import subclasses
        kw["client_class"] = subclasses.CLIENT_CLASSES[cfg["client_class"]]
        kw["client_class_how"] = cfg.get("client_class_how", "assign")
    return kw


def _legacy_ser(key, value):
    if isinstance(value, bytes):
        return value, 0
    return ("L:" + str(value)).encode("utf-8"), 9


def _legacy_deser(key, value, flags):
    return ("deser", flags, value)


def preload(env, cfg, state):
    srv = env.server
    p = cfg.get("key_prefix", b"")
    p = p.encode("utf-8") if isinstance(p, str) else p      # (a str prefix is ASCII in every configuration the library accepts)
    if state in ("hit", "numeric", "none"):
        # "none": the item exists and its value is falsy - b"" without a serializer, None (as the serializer stores it) with one
        val = b"10" if state == "numeric" else b"value" if state == "hit" else b""
        flags = 0
        spec = cfg.get("serde")
        if spec is not None:
            payload, flags = c04.make_serde(spec).serialize("k", "value" if state == "hit" else 10 if state == "numeric" else None)
            val = payload if isinstance(payload, bytes) else str(payload).encode("ascii")
            if state == "numeric":
                val, flags = b"10", flags    # counters live as text
        srv.store[p + b"k"] = Item(val, flags, 0, srv._next_cas(), srv.clock.now)
        srv.store[p + b"j"] = Item(b"other", 0, 0, srv._next_cas(), srv.clock.now)


class Refused(Exception):
    """the stack's constructor raised (args[0]: what it raised)"""


def run_stack(stack, cfg, state, r):
    if cfg.get("serde") is not None and cfg.get("legacy"):
        cfg = {k: v for k, v in cfg.items() if k != "legacy"}
    env = _env(cfg)
    kw = build_kwargs(cfg, env)
    try:
        if stack in ("client", "retry1", "retry3"):
            c = env.client("client", **kw)
            if stack != "client":
                c = RetryingClient(c, attempts=1 if stack == "retry1" else 3)
        else:
            c = env.client(stack, **kw)
    except Exception as e:  # noqa: BLE001
        raise Refused(e)
    preload(env, cfg, state)
    if "pos_default" in r:
        rr = dict(r)
        d = rr.pop("pos_default")
        res = env.call(lambda: c.get(rr["key"], d))
    elif stack.startswith("retry") and r["op"] in ("getitem", "setitem", "delitem"):
        res = env.call(ops.invoke, c, r)
    else:
        res = env.call(ops.invoke, c, r)
    sockev = [(e[3], e[4]) for e in env.net.log if e[3] in ("socket", "setsockopt", "settimeout", "wrap", "connect")]
    # only the first connection (the one that did the work)
    # (for the ElastiCache subclass: not the discovery connection to the configuration endpoint)
    disc = {e[2] for e in env.net.log if e[3] == "connect" and isinstance(e[4], tuple) and e[4][0] == "cfg.example.com"}
    first_sock = next((e[2] for e in env.net.log if e[3] == "socket" and e[2] not in disc), None)
    sockev = [(e[3], e[4]) for e in env.net.log if e[2] == first_sock and e[3] in ("socket", "setsockopt", "settimeout", "wrap", "connect")]
    return res, env.server.log, env.server.errors, sockev, env


def run_sequence(stack, cfg, state, seq):
    """several calls on ONE stack object: -> [(result, commands the server parsed during this call)], env"""
    if cfg.get("serde") is not None and cfg.get("legacy"):
        cfg = {k: v for k, v in cfg.items() if k != "legacy"}
    env = _env(cfg)
    kw = build_kwargs(cfg, env)
    if stack in ("client", "retry1"):
        c = env.client("client", **kw)
        if stack != "client":
            c = RetryingClient(c, attempts=1)
    else:
        c = env.client(stack, **kw)
    preload(env, cfg, state)
    out = []
    for r in seq:
        n0 = len(env.server.log)
        if "pos_default" in r:
            rr = dict(r)
            d = rr.pop("pos_default")
            res = env.call(lambda rr=rr, d=d: c.get(rr["key"], d))
        else:
            res = env.call(ops.invoke, c, r)
        out.append((res, env.server.log[n0:]))
    return out, env


def check_sequence(case):
    cfg, state, seq = case["cfg"], case["state"], case["ops"]
    base, _ = run_sequence("client", cfg, state, seq)
    for stack in _stacks_for(cfg):
        if stack.startswith(("hash", "aws")) and any(r["op"] in ("getitem", "setitem", "delitem") for r in seq):
            continue
        got, env = run_sequence(stack, cfg, state, seq)
        for i, ((res, log), (bres, blog)) in enumerate(zip(got, base)):
            desc = "%s vs Client at step %d of %r, state %s, cfg %r" % (stack, i, seq, state, cfg)
            if not same_result(res, bres):
                raise Violation(["sequence-result", stack, seq[i]["op"]], "returned %r, Client %r: %s" % (_short(res), _short(bres), desc))
            if log != blog:
                raise Violation(["sequence-wire", stack, seq[i]["op"]], "server parsed %r, with Client %r: %s" % (_short(log), _short(blog), desc))
        if env.net.flags:
            raise Violation(["net-flags", stack], "fake network flagged %r after %r" % (env.net.flags[:2], seq))
    errors = sum(1 for res, _ in base if res[0] == "exc")
    return errors > 0 and len(seq) > 1, ["sequence", "len=%d" % len(seq), "errors=%d" % min(errors, 3)]


# ---- life cycle: what an object does the SECOND time ---------------------------------------------------------------

LIFE_EVENTS = ["none", "close", "quit", "disconnect_all", "close-twice", "error-call", "outage", "outage-reset-recv", "outage-twice", "idle"]
LIFE_POST = [
    {"op": "set", "key": "k", "value": "v"}, {"op": "set", "key": "j", "value": "w", "noreply": False, "expire": 5}, {"op": "get", "key": "k"},
    {"op": "gets", "key": "j"}, {"op": "set_many", "values": {"a": "1", "b": "2"}}, {"op": "get_many", "keys": ["a", "k", "zz"]},
    {"op": "delete", "key": "a"}, {"op": "touch", "key": "k", "expire": 9}, {"op": "add", "key": "k", "value": "x"}, {"op": "get", "key": "k"},
    {"op": "incr", "key": "n", "delta": 2}, {"op": "gat", "key": "k", "expire": 3, "default": "D"},
]
DECOY = {"key_prefix": b"decoy:", "default_noreply": False, "allow_unicode_keys": True, "encoding": "latin-1"}


def _make_stack(stack, env, kw):
    if stack in ("client", "retry1"):
        c = env.client("client", **kw)
        return RetryingClient(c, attempts=1) if stack != "client" else c
    return env.client(stack, **kw)


def run_lifecycle(stack, cfg, event, decoy):
    from vlib.harness import virtual_time
    if cfg.get("serde") is not None and cfg.get("legacy"):
        cfg = {k: v for k, v in cfg.items() if k != "legacy"}
    env = _env(cfg)
    srv = env.server
    with virtual_time(env.clock):
        c = _make_stack(stack, env, build_kwargs(cfg, env))
        if decoy:
            # another object of the same kind with different options, built later and used once: none of its business
            d = _make_stack(stack, env, dict(DECOY, **({"default_noreply": True} if cfg.get("default_noreply") is False else {})))
            env.call(d.get, "decoy-warm")
        preload(env, cfg, "hit")
        p = cfg.get("key_prefix", b"")
        p = p.encode("ascii") if isinstance(p, str) else p
        srv.store[p + b"n"] = Item(b"40", 0, 0, srv._next_cas(), srv.clock.now)
        env.call(c.get, "warm")                      # a connection / inner clients exist before the event

        def outage(kind):
            srv.down = kind
            for _ in range(6):
                env.call(c.get, "k")                 # failures: not compared (the stacks legitimately differ while a server is out)
                env.clock.advance(1.5)
            srv.down = None
            env.clock.advance(61)
            env.call(c.get, "warm")                  # first call after the outage (revives the server in a HashClient)
        if event in ("close", "close-twice"):
            c.close()
            if event == "close-twice":
                env.call(c.get, "warm")
                c.close()
        elif event == "quit":
            c.quit()
        elif event == "disconnect_all":
            c.disconnect_all()
        elif event == "error-call":
            env.call(c.incr, "k", 1)                 # CLIENT_ERROR from the server: the connection is dropped
        elif event == "outage":
            outage("refused")
        elif event == "outage-reset-recv":
            outage("reset-recv")
        elif event == "outage-twice":
            outage("timeout")
            outage("refused")
        elif event == "idle":
            env.clock.advance(3600)
        mark = len(env.net.log)
        out = []
        for r in LIFE_POST:
            n0 = len(srv.log)
            out.append((env.call(ops.invoke, c, dict(r, default=OBJ_D) if r.get("default") == "D" else r), srv.log[n0:]))
        last_sock = [e[2] for e in env.net.log if e[3] == "socket"][-1:]
        sockev = [(e[3], e[4]) for e in env.net.log if last_sock and e[2] == last_sock[0] and e[3] in ("socket", "setsockopt", "settimeout", "wrap", "connect")]
        reconnected = any(e[3] == "socket" for e in env.net.log[mark:]) or event not in ("none", "idle")
    return out, sockev, reconnected, env


OBJ_D = "the-default"


def lifecycle_cases(tier, seed):
    for cfg in CFGS:
        for event in LIFE_EVENTS:
            for decoy in (False, True):
                yield {"cfg": cfg, "event": event, "decoy": decoy}


def check_lifecycle(case):
    cfg, event, decoy = case["cfg"], case["event"], case["decoy"]
    base, bsock, _r, _e = run_lifecycle("client", cfg, event, decoy)
    for stack in _stacks_for(cfg):
        got, sock, reconnected, env = run_lifecycle(stack, cfg, event, decoy)
        for i, ((res, log), (bres, blog)) in enumerate(zip(got, base)):
            desc = "%s vs Client at call %d (%r) after the event %r%s, cfg %r" % (stack, i, LIFE_POST[i], event, " (another %s with other options was built and used in between)" % stack if decoy else "", cfg)
            if not same_result(res, bres):
                raise Violation(["lifecycle-result", stack, event, LIFE_POST[i]["op"]], "returned %r, Client %r: %s" % (_short(res), _short(bres), desc))
            if log != blog:
                raise Violation(["lifecycle-wire", stack, event, LIFE_POST[i]["op"]], "server parsed %r, with Client %r: %s" % (_short(log), _short(blog), desc))
        if sock and bsock and _sock_norm(sock) != _sock_norm(bsock):
            raise Violation(["lifecycle-socket-config", stack, event], "the connection in use after the event %r was set up as %r, Client's as %r; cfg %r" % (event, sock, bsock, cfg))
        if env.net.flags:
            raise Violation(["net-flags", stack], "fake network flagged %r after event %r, cfg %r" % (env.net.flags[:2], event, cfg))
    return event != "none", ["lifecycle", event] + (["decoy"] if decoy else [])


def norm(res):
    if res[0] == "ok":
        return ("ok", res[1])
    return ("exc", type(res[1]).__name__)


def same_result(a, b):
    if a[0] != b[0]:
        return False
    if a[0] == "exc":
        return type(a[1]) is type(b[1])
    return c15.same(a[1], b[1])


def check(case):
    cfg, state, r = case["cfg"], case["state"], case["op"]
    try:
        base, blog, berr, bsock, _ = run_stack("client", cfg, state, r)
    except Refused as ref:
        # a configuration the plain Client refuses (a str key prefix that is not ASCII): every stack refuses it alike
        e = ref.args[0]
        for stack in _stacks_for(cfg):
            try:
                run_stack(stack, cfg, state, r)
            except Refused as ref2:
                e2 = ref2.args[0]
                if type(e2) is not type(e):
                    raise Violation(["construction-differs", stack, type(e2).__name__], "Client refuses the configuration %r with %r, %s with %r" % (cfg, e, stack, e2))
                continue
            raise Violation(["construction-differs", stack, "accepted"], "Client refuses the configuration %r with %r, %s accepts it" % (cfg, e, stack))
        return False, ["configuration-refused-by-all"]
    stacks = _stacks_for(cfg)
    if base[0] == "ok":
        stacks.append("retry3")
    for stack in stacks:
        if r["op"] in ("getitem", "setitem", "delitem") and stack.startswith(("hash", "aws")):
            continue
        desc = "%s vs Client: call %r, state %s, cfg %r" % (stack, r, state, cfg)
        try:
            res, log, err, sock, env = run_stack(stack, cfg, state, r)
        except Refused as ref:
            raise Violation(["construction", stack, type(ref.args[0]).__name__], "constructing the stack raised %r (the plain Client accepts the configuration): %s" % (ref.args[0], desc))
        except Exception as e:  # noqa: BLE001
            raise Violation(["construction", stack, type(e).__name__], "constructing the stack raised %r: %s" % (e, desc))
        if not same_result(res, base):
            raise Violation(["result", stack, r["op"]], "returned %r, Client %r: %s" % (_short(res), _short(base), desc))
        if log != blog or [e["error"] for e in err] != [e["error"] for e in berr]:
            raise Violation(["wire", stack, r["op"]], "server parsed %r (errors %r), with Client %r (errors %r): %s" % (_short(log), err[:2], _short(blog), berr[:2], desc))
        if sock and bsock and _sock_norm(sock) != _sock_norm(bsock):
            raise Violation(["socket-config", stack], "connection set up as %r, Client's as %r: %s" % (sock, bsock, desc))
        if env.net.flags:
            raise Violation(["net-flags", stack], "fake network flagged %r: %s" % (env.net.flags[:2], desc))
    nondefault = any(k != "key_prefix" and cfg.get(k) not in (None, False) and not (k == "default_noreply" and cfg[k] is True)
                     and not (k == "encoding" and cfg[k] == "ascii") for k in cfg)
    optional = any(k in r for k in ("expire", "noreply", "flags", "default", "cas_default", "pos_default"))
    labels = [r["op"], "state=" + state] + (["nondefault-config"] if nondefault else []) + (["optional-arg"] if optional else [])
    return nondefault or optional, labels


def _sock_norm(ev):
    # (a port learnt from a cluster configuration is text: the same address)
    return [(k, (i[0], int(i[1])) + tuple(i[2:]) if k == "connect" and isinstance(i, tuple) and len(i) >= 2 else i) for k, i in ev]


def _short(x):
    s = repr(x)
    return s if len(s) < 220 else s[:120] + "...(%d chars)..." % len(s) + s[-60:]


CALLS = [
    {"op": "set", "key": "k", "value": "v"},
    {"op": "set", "key": "k", "value": "é", "noreply": False},
    {"op": "set", "key": "ké", "value": "v", "noreply": False},
    {"op": "set", "key": "k", "value": 5, "expire": 7, "flags": 9, "noreply": False},
    {"op": "set", "key": b"k", "value": b"\r\nbytes", "flags": 0},
    {"op": "add", "key": "k", "value": "v", "expire": 3},
    {"op": "add", "key": "new", "value": "v", "noreply": False},
    {"op": "replace", "key": "k", "value": "v", "noreply": False},
    {"op": "append", "key": "k", "value": "v", "noreply": False, "flags": 1},
    {"op": "prepend", "key": "k", "value": "v", "expire": 2},
    {"op": "cas", "key": "k", "value": "v", "cas": b"1", "expire": 4, "flags": 2},
    {"op": "cas", "key": "k", "value": "v", "cas": "1", "noreply": True},
    {"op": "cas", "key": "k", "value": "v", "cas": 99},
    {"op": "get", "key": "k"},
    {"op": "get", "key": "k", "pos_default": "D"},
    {"op": "get", "key": "k", "default": "D"},
    {"op": "gets", "key": "k"},
    {"op": "gets", "key": "k", "default": "D", "cas_default": "C"},
    {"op": "gets", "key": "k", "default": "D"},
    {"op": "gat", "key": "k", "expire": 5},
    {"op": "gat", "key": "k", "expire": 5, "default": "D"},
    {"op": "gats", "key": "k", "expire": 5},
    {"op": "gats", "key": "k", "expire": 5, "default": "D", "cas_default": "C"},
    {"op": "gats", "key": "k", "cas_default": "C"},
    {"op": "get_many", "keys": ["k", "j", "zz"]},
    {"op": "gets_many", "keys": ["k", "j"]},
    {"op": "get_many", "keys": []},
    {"op": "set_many", "values": {"k": "1", "j": "2"}, "noreply": False, "expire": 3, "flags": 4},
    {"op": "set_many", "values": {"k": "1"}},
    {"op": "delete", "key": "k"},
    {"op": "delete", "key": "k", "noreply": False},
    {"op": "delete_many", "keys": ["k", "j"], "noreply": False},
    {"op": "delete_many", "keys": []},
    # optional arguments by position, in the order Client documents them
    {"op": "gat", "key": "k", "expire": 60, "positional": True},
    {"op": "gat", "key": "zz", "expire": 60, "default": "D", "positional": True},
    {"op": "gats", "key": "k", "expire": 7, "positional": True},
    {"op": "gats", "key": "zz", "expire": 0, "default": "D", "cas_default": "C", "positional": True},
    {"op": "gets", "key": "zz", "default": "D", "cas_default": "C", "positional": True},
    {"op": "set", "key": "k", "value": "v", "expire": 9, "noreply": False, "flags": 3, "positional": True},
    {"op": "add", "key": "zz", "value": "v", "expire": 9, "positional": True},
    {"op": "cas", "key": "k", "value": "v", "cas": b"1", "expire": 5, "noreply": False, "positional": True},
    {"op": "touch", "key": "k", "expire": 30, "noreply": False, "positional": True},
    {"op": "delete", "key": "k", "noreply": False, "positional": True},
    {"op": "incr", "key": "k", "delta": 3, "noreply": True, "positional": True},
    {"op": "set_many", "values": {"k": "1", "j": "2"}, "expire": 3, "noreply": False, "positional": True},
    {"op": "delete_many", "keys": ["k", "j"], "noreply": False, "positional": True},
    {"op": "get_many", "keys": ["k", "j", "zz"], "keys_as": "generator"},
    {"op": "gets_many", "keys": ["k", "j"], "keys_as": "iter"},
    {"op": "get_many", "keys": ["k", "j"], "keys_as": "map"},
    {"op": "delete_many", "keys": ["k", "j"], "noreply": False, "keys_as": "generator"},
    {"op": "delete_many", "keys": ["k", "zz"], "keys_as": "iter"},
    {"op": "get_many", "keys": ["k", "j"], "keys_as": "dictview"},
    {"op": "get_many", "keys": ["k", "j"], "keys_as": "wrapper"}, {"op": "gets_many", "keys": ["j", "k"], "keys_as": "wrapper"}, {"op": "delete_many", "keys": ["k", "zz"], "keys_as": "wrapper", "noreply": False},
    {"op": "get_many", "keys": ["k", "j"], "keys_as": "tuple"},
    {"op": "delete_many", "keys": ["k", "k"], "noreply": False},
    {"op": "delete_many", "keys": ["j", "k", "j", b"k"]},
    {"op": "get_many", "keys": ["k", "k", "j", b"k"]},
    {"op": "gets_many", "keys": ["zz", "k", "zz"]},
    {"op": "incr", "key": "k", "delta": 3},
    {"op": "incr", "key": "k", "delta": 3, "noreply": True},
    {"op": "decr", "key": "k", "delta": 3},
    {"op": "decr", "key": "k", "delta": 300, "noreply": False},
    {"op": "touch", "key": "k", "expire": 9, "noreply": False},
    {"op": "touch", "key": "k"},
    {"op": "get", "key": "bad key"},
    # (str keys that no encoding can express - a lone surrogate, as os.fsdecode() makes of an undecodable file name: whatever a
    # Client does with them - an input error, or the encoder's own error when unicode keys are allowed - every stack does)
    {"op": "get", "key": "caf\udce9"},
    {"op": "set", "key": "\ud800", "value": "v"},
    {"op": "get_many", "keys": ["k", "caf\udce9"]},
    {"op": "delete", "key": "caf\udce9", "noreply": False},
    {"op": "set", "key": "bad key", "value": "v"},
    {"op": "incr", "key": "k", "delta": "x"},
    {"op": "set", "key": "k", "value": "v", "expire": "x"},
    {"op": "gat", "key": "k", "expire": None},
    {"op": "set", "key": b"caf\xe9", "value": b"v", "noreply": False},
    {"op": "get", "key": b"\xff\xfek"},
    {"op": "incr", "key": b"\x80k", "delta": 1},
    {"op": "getitem", "key": "k"},
    {"op": "setitem", "key": "k", "value": "v"},
    {"op": "delitem", "key": "k"},
]
CFGS = [
    {}, {"key_prefix": b"p:"}, {"key_prefix": "p:"}, {"default_noreply": False}, {"encoding": "utf-8"}, {"encoding": "latin-1"},
    {"allow_unicode_keys": True}, {"serde": ("falsy-json",)}, {"serde": ("falsy-json",), "key_prefix": b"p:", "default_noreply": False}, {"serde": ("pickle", 2)}, {"serde": ("compressed", 1)}, {"serde": ("json",)},
    {"legacy": "both"}, {"legacy": "serializer"}, {"legacy": "deserializer"}, {"legacy": "deserializer", "key_prefix": b"p:"},
    {"server": "ip-no-port"}, {"server": "name-no-port", "key_prefix": b"p:"}, {"server": "name:port"}, {"server": "Name:port", "default_noreply": False}, {"server": "[v6]:port"},
    {"server": "[v6]", "serde": ("pickle", 2)}, {"server": "unix:path"}, {"server": "path", "default_noreply": False}, {"server": "tuple-text-port"},
    {"client_class": "folding"}, {"client_class": "namespace", "client_class_how": "classattr", "key_prefix": b"p:"}, {"client_class": "namespace", "default_noreply": False}, {"client_class": "flags", "default_noreply": False},
    {"client_class": "flags", "client_class_how": "classattr", "serde": ("pickle", 2)}, {"client_class": "tunnel"}, {"client_class": "eager", "client_class_how": "classattr"},
    {"connect_timeout": 1.5, "timeout": 2.5}, {"timeout": 0.5}, {"no_delay": True}, {"keepalive": [2, 3, 4]}, {"tls": True},
    {"key_prefix": "ns/", "default_noreply": False, "encoding": "utf-8", "allow_unicode_keys": True, "serde": ("pickle", 0),
     "connect_timeout": 3, "timeout": 0.5, "no_delay": True, "keepalive": [1, 1, 5], "tls": True},
]


# configurations the plain Client refuses at construction (a str key prefix must be ASCII, whatever allow_unicode_keys says): every
# stack refuses them alike
REFUSED_CFGS = [{"key_prefix": "\u043a\u043b\u044e\u0447:", "allow_unicode_keys": True}, {"key_prefix": "caf\u00e9/"}, {"key_prefix": "caf\u00e9/", "allow_unicode_keys": True, "encoding": "utf-8"}]


def grid_cases(tier, seed):
    for cfg in REFUSED_CFGS:
        for r in CALLS[:6]:
            yield {"cfg": cfg, "state": "hit", "op": r}
    for cfg in CFGS:
        for state in ("hit", "numeric", "miss", "none"):
            for r in CALLS:
                yield {"cfg": cfg, "state": state, "op": r}


def extreme_score_cases(tier, seed):
    """keys whose rendezvous score for the one server is the smallest or the greatest a 32-bit hash can give (0, 1, 2**31, 2**32-1;
    found by solving the hash for its last block, vlib/refhash.py): a one-server ring still places every key on that server"""
    from vlib import refhash
    names = {None: "mc1:11211"}
    for sp, (addr, _spec) in SERVER_SPELLINGS.items():
        names[sp] = addr if isinstance(addr, str) else "%s:%s" % addr
    for sp, node in sorted(names.items(), key=repr):
        for target in (0, 1, 2 ** 31, 2 ** 32 - 1):
            key = refhash.preimage_suffix((node + "-").encode(), target).decode()
            for pfx in (b"", b"p:"):
                cfg = dict({"key_prefix": pfx}, **({"server": sp} if sp else {}))
                for state in ("hit", "miss"):
                    for r in ({"op": "get", "key": key}, {"op": "set", "key": key, "value": b"v", "noreply": False}, {"op": "get_many", "keys": [key, "k"]},
                              {"op": "set_many", "values": {key: b"1"}, "noreply": False}, {"op": "delete", "key": key, "noreply": False},
                              {"op": "incr", "key": key, "delta": 1}, {"op": "touch", "key": key, "expire": 5, "noreply": False}, {"op": "gets", "key": key}):
                        yield {"cfg": cfg, "state": state, "op": r}


def random_strategy(tier):
    cfg = st.fixed_dictionaries({}, optional={
        "key_prefix": st.sampled_from([b"", b"p:", "p:", b"\x80\xff", "x" * 100]),
        "default_noreply": st.booleans(),
        "encoding": st.sampled_from(["ascii", "utf-8", "latin-1"]),
        "allow_unicode_keys": st.booleans(),
        "serde": st.sampled_from([None, ("pickle", 0), ("pickle", 5), ("compressed", 1), ("compressed-default",), ("json",), ("falsy-json",)]),
        "legacy": st.sampled_from([None, None, "both", "serializer", "deserializer"]),
        "connect_timeout": st.sampled_from([None, 0.5, 3]),
        "timeout": st.sampled_from([None, 0.5, 3]),
        "no_delay": st.booleans(),
        "keepalive": st.sampled_from([None, [1, 1, 5], [7, 2, 3]]),
        "tls": st.booleans(),
        "server": st.sampled_from([None, None] + sorted(SERVER_SPELLINGS)),
        "client_class": st.sampled_from([None, None, None, "folding", "namespace", "flags", "tunnel", "eager"]),
        "client_class_how": st.sampled_from(["assign", "classattr"]),
    })
    key = st.sampled_from(["k", b"k", "j", "zz", "ké", "bad key", b"k\r\n", "k" * 250, "€uro", "", b"caf\xe9", b"\xff\xfe", b"\x80", "caf\xe9".encode("utf-8")])
    value = st.sampled_from(["v", b"v", "é", "€", 5, -3, b"\r\nEND\r\n", "", b"x" * 5000])
    noreply = st.sampled_from([True, False, None])
    expire = st.sampled_from([0, 5, -1, 2592001, "x", None, 1.5])
    flags = st.sampled_from([None, 0, 7, 2 ** 32 - 1])

    def opt(d):
        return st.fixed_dictionaries({}, optional=d)

    def mk(base, d):
        # the optional arguments are passed by keyword or - every third time - by position, in Client's documented order
        return st.builds(lambda b, o, pos: dict(b, **o, **({"positional": True} if pos and o else {})), base, opt(d), st.sampled_from([False, False, True]))
    store = mk(st.fixed_dictionaries({"op": st.sampled_from(list(ops.STORE_OPS)), "key": key, "value": value}),
               {"expire": expire, "noreply": noreply, "flags": flags})
    cas = mk(st.fixed_dictionaries({"op": st.just("cas"), "key": key, "value": value, "cas": st.sampled_from([b"1", "1", 1, 99, "x", b"", None])}),
             {"expire": expire, "noreply": noreply, "flags": flags})
    dflt = st.sampled_from(["D", None, 0, b""])
    get = st.one_of(mk(st.fixed_dictionaries({"op": st.just("get"), "key": key}), {"default": dflt}),
                    st.fixed_dictionaries({"op": st.just("get"), "key": key, "pos_default": dflt}))
    gets = mk(st.fixed_dictionaries({"op": st.just("gets"), "key": key}), {"default": dflt, "cas_default": dflt})
    gat = mk(st.fixed_dictionaries({"op": st.just("gat"), "key": key}), {"expire": expire, "default": dflt})
    gats = mk(st.fixed_dictionaries({"op": st.just("gats"), "key": key}), {"expire": expire, "default": dflt, "cas_default": dflt})
    # multi-key calls carry legal keys only: with an illegal member Client/PooledClient send nothing while HashClient,
    # which works key by key, has already sent the earlier ones - a difference C02's statement explicitly allows
    # (repeated keys are legal: the plain Client sends the key once per occurrence)
    keys = st.one_of(st.lists(st.sampled_from(["k", "j", "zz", b"q", "key:5"]), max_size=4, unique_by=lambda k: k if isinstance(k, bytes) else k.encode()),
                     st.lists(st.sampled_from(["k", "j", "zz", b"k", "key:5"]), min_size=2, max_size=5))
    # (the key collection may be any iterable, a one-shot one included)
    shape = st.sampled_from(["list", "list", "tuple", "iter", "generator", "map", "dictview", "wrapper"])
    many = st.fixed_dictionaries({"op": st.sampled_from(["get_many", "gets_many"]), "keys": keys, "keys_as": shape})
    delmany = mk(st.fixed_dictionaries({"op": st.just("delete_many"), "keys": keys, "keys_as": shape}), {"noreply": noreply})
    setmany = mk(st.fixed_dictionaries({"op": st.just("set_many"), "values": st.dictionaries(st.sampled_from(["k", "j", "zz"]), value, min_size=1, max_size=3)}),
                 {"expire": expire, "noreply": noreply, "flags": flags})
    delete = mk(st.fixed_dictionaries({"op": st.just("delete"), "key": key}), {"noreply": noreply})
    arith = mk(st.fixed_dictionaries({"op": st.sampled_from(["incr", "decr"]), "key": key, "delta": st.sampled_from([0, 1, 3, 2 ** 64 - 1, "x", None])}),
               {"noreply": noreply})
    touch = mk(st.fixed_dictionaries({"op": st.just("touch"), "key": key}), {"expire": expire, "noreply": noreply})
    op = st.one_of(store, cas, get, gets, gat, gats, many, delmany, setmany, delete, arith, touch)
    return st.fixed_dictionaries({"cfg": cfg, "state": st.sampled_from(["hit", "numeric", "miss", "none"]), "op": op})


ERR_CALLS = [c for c in CALLS if c["op"] in ("incr", "decr") or c.get("key") == "bad key" or c.get("expire") in ("x", None) and "expire" in c or c.get("delta") == "x"]
FOLLOW_CALLS = [CALLS[0], CALLS[13], CALLS[16], CALLS[24], CALLS[27], CALLS[30], CALLS[33], CALLS[37]]


# storage commands whose command line the server refuses (numbers out of range): the data block that was sent along is then read
# as a command of its own and answered with a second error line - in another packet when replies are not coalesced
REFUSED_LINES = [{"op": "set", "key": "k", "value": "v", "flags": 2 ** 32, "noreply": False}, {"op": "add", "key": "zz", "value": "v", "flags": 2 ** 40, "noreply": False},
                 {"op": "set", "key": "k", "value": "v", "expire": 2 ** 70, "noreply": False}, {"op": "set_many", "values": {"a": "1", "k": "2"}, "flags": 2 ** 32, "noreply": False},
                 {"op": "cas", "key": "k", "value": "v", "cas": 2 ** 64, "noreply": False}, {"op": "incr", "key": "k", "delta": 2 ** 64}]


def sequence_cases(tier, seed):
    """an error-provoking call followed by ordinary calls on the same object (state carried by the wrapper must not leak)"""
    for cfg in ({"coalesce": False}, {"coalesce": False, "key_prefix": b"p:", "default_noreply": False}, {}, {"dialect": ["hangup-after-error"]},
                {"dialect": ["hangup-after-error"], "coalesce": False}):
        for state in ("hit", "numeric"):
            for e in REFUSED_LINES + [c_ for c_ in ERR_CALLS if c_["op"] in ("incr", "decr")][:2]:
                for f in FOLLOW_CALLS[:4]:
                    yield {"cfg": cfg, "state": state, "ops": [e, f, FOLLOW_CALLS[0]]}
    for cfg in (CFGS[0], CFGS[3], CFGS[7]):
        for state in ("hit", "numeric", "miss", "none"):
            for e in ERR_CALLS:
                for f in FOLLOW_CALLS:
                    yield {"cfg": cfg, "state": state, "ops": [e, f]}
                yield {"cfg": cfg, "state": state, "ops": [CALLS[0], e, CALLS[13], CALLS[0], CALLS[33]]}


def sequence_strategy(tier):
    base = random_strategy(tier)
    return st.builds(lambda c, more: {"cfg": c["cfg"], "state": c["state"], "ops": [c["op"]] + [m["op"] for m in more]},
                     base, st.lists(base, min_size=1, max_size=4))


PARTS = [
    Part("life-cycle", "enum", check_lifecycle, cases=lifecycle_cases, exhaustive=True),
    Part("grid", "enum", check, cases=grid_cases, exhaustive=True),
    Part("keys-with-extreme-scores", "enum", check, cases=extreme_score_cases, exhaustive=True),
    Part("random", "hyp", check, strategy=random_strategy,
         examples={"quick": 300, "thorough": 10000}, shards={"quick": 6, "thorough": 16}),
    Part("sequences", "enum", check_sequence, cases=sequence_cases, exhaustive=True),
    Part("random-sequences", "hyp", check_sequence, strategy=sequence_strategy,
         examples={"quick": 150, "thorough": 6000}, shards={"quick": 6, "thorough": 16}),
]


def selftest():
    mcserver.selftest()
    # the positional calling convention used by vlib/ops.py is the one Client and PooledClient document
    import inspect
    from pymemcache.client.base import Client, PooledClient
    for op, (lead, optl) in ops.POSITIONAL.items():
        for cls in (Client, PooledClient):
            ps = list(inspect.signature(getattr(cls, op)).parameters.values())[1:]
            want = [{"delta": "value"}.get(n, n) for n in lead] + [n for n, _ in optl]
            if [p_.name for p_ in ps] != want or [p_.default for p_ in ps][len(lead):] != [d for _, d in optl]:
                raise AssertionError("%s.%s%r is not %r" % (cls.__name__, op, [p_.name for p_ in ps], want))

"""C02 - requests are well-formed memcached commands; arguments cannot inject."""
import itertools

from hypothesis import strategies as st

from vlib import mcserver, ops
from vlib.harness import Env
from vlib.runner import Part, Violation

from pymemcache.exceptions import MemcacheError, MemcacheIllegalInputError

PROPERTY = "C02"
LEVEL = "exploration"
# parts repeated in a child interpreter started with -O and with warnings turned into errors (vlib/runner.py, MODES)
MODE_PARTS = {"OW": ['subclassed-clients', 'flag-spellings', 'integers-and-values', 'multi-key', 'serde-and-flags', 'class-keys-len3', 'byte-at-position', 'raw-commands', 'bytes-like-payloads', 'unnormalised-unicode-keys']}
RULE = ("case = (client kind, configuration {key_prefix, allow_unicode_keys, encoding, default_noreply}, operation "
        "record). Enumerated: every bytes key of length 0-2 over the full byte alphabet (65 793) on get and set "
        "(thorough: every single-key operation, and str keys over code points 0-255); keys of length 3 over 15 class "
        "representatives on every single-key operation; one byte of the full alphabet at every position of longer "
        "keys; lengths 249/250/251 with and without prefix; multi-key calls with one illegal member at every "
        "position; integer arguments at range boundaries and non-integers. Hypothesis: random operations with values "
        "biased to protocol text. Oracle: the connection is a strict memcached request parser; either the call raised "
        "MemcacheIllegalInputError and not a single byte was written (no sendall event), or the parser's command log "
        "equals the independently computed intended command list (verb, prefixed key, flags, exptime, length, data "
        "block, cas, noreply) with zero parse errors and an empty pending buffer. raw_command (single-line commands and storage commands carrying their data block - blocks that are empty, end in CR LF, or contain a command line): the server must read exactly what a strict parser reads from the caller's bytes plus one CR LF. Call histories: every sequence of 2-3 calls (Hypothesis: up to 10) on ONE client object over a 15-instance alphabet in which the same tokens occur as keys and as arguments of `stats` / `cache_memlimit` (which are validated with an empty prefix), with three prefixes and all four client stacks - each call is judged like a single call. Non-trivial: the key contains a "
        "byte < 0x21, 0x7f or >= 0x80 or is at a length boundary, or the value contains CR LF, or an integer is at a "
        "range boundary or not an integer, or the call is multi-key with an illegal member. Flag spellings: per-call noreply and default_noreply given as non-bool values (1, 2, 'yes', 'no', 1.0, -1, [0], b'0' / 0, '', 0.0, [], (), b'') must put the same bytes on the wire as True resp. False, for every command that takes the flag and every stack. Subclassed clients: every command through a Client subclass that maps keys into a namespace (directly and as client_class of the pooled and hash stacks) must carry the key mapped exactly once."
        + ' The fake socket offers sendmsg() with short writes (64 bytes at a time): code that uses it must go on with the rest.')
MANIFEST = {
    "category": "exploration",
    "technique": "bounded-exhaustive key enumeration + Hypothesis-generated operations against a strict independent request parser (differential: parsed command log vs. independently computed intended commands)",
    "text": "What the client writes is parsed by an independent memcached-1.6-style tokenizer; the parsed commands must equal the intended ones field by field, or nothing at all may have been written. All 65 793 byte keys up to length 2 are enumerated, plus class-projected length-3 keys, every byte at every position of longer keys and all boundary lengths; values and integers are generated with protocol text and range boundaries. Exhaustive for short keys, sampled beyond.",
    "note": "bool arguments, non-integer flags, non-ASCII-compatible encodings and lone surrogates are outside the domain (DESIGN.md 5); raw_command and stats arguments are raw by design.",
    "design_ref": "DESIGN.md 3/C02",
}
ASSUMPTIONS = [
    "vlib/mcserver.py tokenises request lines like memcached 1.6 (single spaces, LF-terminated, optional CR, NUL ends the line)",
    "integers are generated within the protocol's ranges; non-integers must be rejected before sending",
]

REPS3 = [0x20, 0x09, 0x0D, 0x0A, 0x0B, 0x0C, 0x00, 0x61, 0x01, 0x1C, 0x7F, 0x80, 0x85, 0xA0, 0xFF]
SINGLE_OPS = ["get", "gets", "gat", "gats", "set", "add", "replace", "append", "prepend", "cas", "delete", "incr",
              "decr", "touch", "getitem", "setitem", "delitem"]
PAYLOAD = b"flush_all\r\n"


def rec_for(op, key, i=0):
    r = {"op": op, "key": key}
    if op in ops.STORE_OPS or op == "setitem":
        r["value"] = PAYLOAD
    if op == "cas":
        r["value"] = PAYLOAD
        r["cas"] = 7
    if op in ("incr", "decr"):
        r["delta"] = 1
    if op in ("gat", "gats", "touch"):
        r["expire"] = 10
    if op not in ("get", "gets", "gat", "gats", "getitem", "setitem", "delitem"):
        r["noreply"] = bool(i & 1)
    return r


def _nontrivial(r):
    def keyflag(k):
        b = k.encode("utf-8", "surrogatepass") if isinstance(k, str) else k
        return any(c < 0x21 or c == 0x7F or c >= 0x80 for c in b) or len(b) == 0 or 248 <= len(b) <= 252
    keys = []
    if "key" in r:
        keys.append(r["key"])
    keys += list(r.get("keys", ()))
    keys += list(r.get("values", {}).keys()) if isinstance(r.get("values"), dict) else []
    if any(keyflag(k) for k in keys):
        return True
    vals = [r["value"]] if "value" in r else list(r.get("values", {}).values()) if isinstance(r.get("values"), dict) else []
    for v in vals:
        if isinstance(v, bytes) and b"\r\n" in v or isinstance(v, str) and "\r\n" in v:
            return True
    for name in ("expire", "flags", "cas", "delta", "delay", "memlimit"):
        if name in r:
            v = r[name]
            if not isinstance(v, int) or isinstance(v, bool):
                return True
            if v in (0, 2 ** 32 - 1, 2 ** 63 - 1, -2 ** 63, 2 ** 64 - 1, -1):
                return True
    return False


def check(case):
    kind, cfg, r = case["kind"], case["cfg"], case["op"]
    if kind.startswith("hash") and r["op"] in ("getitem", "setitem", "delitem"):
        kind = "client" if kind == "hash" else "pooled"      # HashClient offers no item syntax
    env = Env()
    kw = {k: cfg[k] for k in ("key_prefix", "allow_unicode_keys", "encoding", "default_noreply") if k in cfg}
    if cfg.get("serde") and cfg["serde"][0] == "view":
        kw["serde"] = ViewSerde(cfg["serde"][1])
        cfg = dict(cfg, serde_obj=ViewSerde(cfg["serde"][1]))
    elif cfg.get("serde"):
        from props import c04
        kw["serde"] = c04.make_serde(tuple(cfg["serde"]))
        cfg = dict(cfg, serde_obj=c04.make_serde(tuple(cfg["serde"])))      # an independent instance computes the intended payload/flags
    r_wire = r
    if cfg.get("client_class"):
        # the stack is built around a Client subclass that maps the caller's keys into a namespace: the command on the wire
        # must be the one intended for the mapped key - mapped exactly once
        from vlib import subclasses
        kw["client_class"] = subclasses.CLIENT_CLASSES[cfg["client_class"]]
        kw["client_class_how"] = cfg.get("client_class_how", "assign")
        r_wire = dict(r)
        for f in ("key",):
            if f in r_wire and isinstance(r_wire[f], (str, bytes)):
                r_wire[f] = subclasses._ns(r_wire[f])
        if "keys" in r_wire:
            r_wire["keys"] = [subclasses._ns(x) for x in r_wire["keys"]]
        if "values" in r_wire:
            r_wire["values"] = {subclasses._ns(x): v for x, v in r_wire["values"].items()}
    try:
        c = env.client(kind, **kw)
    except Exception as e:  # noqa: BLE001
        raise Violation(["constructor", type(e).__name__], "client construction failed: %r (%r)" % (e, cfg))
    try:
        want = ops.intended(r_wire, cfg)
    except ops.CannotEncode:
        want = None
    # give conditional commands something to act on so that replies are ordinary
    res = env.call(ops.invoke, c, r)
    srv = env.server
    sent = [e for e in env.net.log if e[3] == "sendall" and e[4]]
    desc = "%s %r cfg=%r" % (kind, _short(r), cfg)
    labels = [kind, r["op"]]
    if res[0] == "exc" and isinstance(res[1], MemcacheIllegalInputError):
        if sent:
            raise Violation(["sent-then-rejected", r["op"]], "input error raised after %d bytes were written (server parsed %r): %s"
                            % (sum(e[4] for e in sent), srv.log, desc))
        labels.append("rejected")
        return _nontrivial(r), labels
    if res[0] == "exc" and not isinstance(res[1], MemcacheError):
        if r["op"] == "getitem" and isinstance(res[1], KeyError):
            pass
        else:
            raise Violation(["unexpected-exception", type(res[1]).__name__, r["op"]], "raised %r: %s" % (res[1], desc))
    if want is None:
        raise Violation(["unencodable-accepted", r["op"]], "arguments cannot form a command but the call did not raise an input error (server parsed %r, errors %r): %s"
                        % (srv.log, srv.errors, desc))
    pending = b"".join(cn.pending for cn in srv.conns)
    if srv.errors or pending or srv.log != want:
        raise Violation(["malformed-or-injected", r["op"]],
                        "server parsed %r, errors %r, pending %r; intended %r: %s" % (_short(srv.log), srv.errors[:3], pending[:40], _short(want), desc))
    labels.append("sent")
    return _nontrivial(r), labels


def _short(x):
    s = repr(x)
    return s if len(s) < 300 else s[:150] + "...(%d chars)..." % len(s) + s[-80:]


BASE_CFG = {"key_prefix": b"", "allow_unicode_keys": False, "encoding": "ascii", "default_noreply": True}


def short_key_cases(tier, seed):
    opsl = ["get", "set", "incr", "delete"] if tier == "quick" else ["get", "set", "incr", "delete", "touch", "gats", "cas", "append"]
    kinds = ["client", "pooled", "hash"]
    i = 0
    for n in (0, 1, 2):
        for t in itertools.product(range(256), repeat=n):
            kb = bytes(t)
            for op in opsl:
                i += 1
                yield {"kind": kinds[i % 3] if n < 2 else ("client" if i % 7 else kinds[i % 3]), "cfg": BASE_CFG, "op": rec_for(op, kb, i)}
            if tier == "thorough" or n < 2:
                ks = kb.decode("latin-1")
                for au in (False, True):
                    i += 1
                    yield {"kind": kinds[i % 3], "cfg": dict(BASE_CFG, allow_unicode_keys=au), "op": rec_for(opsl[i % len(opsl)], ks, i)}


def class_key_cases(tier, seed):
    """length-3 keys over class representatives x every single-key operation; prefix on/off"""
    i = 0
    for t in itertools.product(REPS3, repeat=3):
        kb = bytes(t)
        for op in SINGLE_OPS:
            i += 1
            if tier == "quick" and (i % 3):
                continue
            cfg = BASE_CFG if i % 2 else dict(BASE_CFG, key_prefix=b"pfx:")
            yield {"kind": ["client", "pooled", "hash"][i % 3], "cfg": cfg, "op": rec_for(op, kb, i)}
    # whitespace-only and empty keys, every operation, every client, with and without prefix
    for kb in [b"", b" ", b"  ", b"\t", b"\r\n", b"\n", b"\r", b" \r\n ", b"\x0b", b"\x0c", b"\x00", b"\r\nflush_all\r\n"]:
        for key in (kb, kb.decode("latin-1")):
            for op in SINGLE_OPS:
                for kind in ("client", "pooled", "hash", "hash-pooled"):
                    for pfx in (b"", b"p"):
                        i += 1
                        yield {"kind": kind, "cfg": dict(BASE_CFG, key_prefix=pfx), "op": rec_for(op, key, i)}


def position_cases(tier, seed):
    i = 0
    for length in (6, 40, 250):
        base = b"abcdefghij" * 25
        positions = sorted(set([0, 1, length // 2, length - 2, length - 1]))
        for pos in positions:
            for b in range(256):
                i += 1
                kb = base[:pos] + bytes([b]) + base[pos + 1:length]
                op = SINGLE_OPS[i % len(SINGLE_OPS)]
                yield {"kind": ["client", "pooled", "hash"][i % 3], "cfg": BASE_CFG, "op": rec_for(op, kb, i)}
    for n in (249, 250, 251):
        for pfx in (b"", b"p", b"pp"):
            for op in SINGLE_OPS:
                i += 1
                yield {"kind": ["client", "pooled", "hash"][i % 3], "cfg": dict(BASE_CFG, key_prefix=pfx),
                       "op": rec_for(op, b"k" * (n - len(pfx)), i)}
                yield {"kind": ["client", "pooled", "hash"][i % 3], "cfg": dict(BASE_CFG, key_prefix=pfx, allow_unicode_keys=True),
                       "op": rec_for(op, "é" * ((n - len(pfx)) // 2) + "k" * ((n - len(pfx)) % 2), i)}


NON_NORMAL = ["cafe\u0301", "\u212b", "\u2126", "\u1100\u1161", "\ufb01", "\u0958" * 83 + "a", "\ufeffk", "A\u030a\u0327", "caf\u00e9"]


def unicode_key_cases(tier, seed):
    """legal str keys that are not in a Unicode normal form (and their UTF-8 bytes spelling): the wire key is the UTF-8 of
    the code points as given"""
    i = 0
    for k in NON_NORMAL:
        for key in (k, k.encode("utf-8")):
            for au in (True, False):
                for pfx in (b"", b"n:"):
                    cfg = dict(BASE_CFG, allow_unicode_keys=au, key_prefix=pfx)
                    for op in SINGLE_OPS:
                        i += 1
                        yield {"kind": ["client", "pooled", "hash", "hash-pooled"][i % 4], "cfg": cfg, "op": rec_for(op, key, i)}
                    for kind in ("client", "pooled"):
                        yield {"kind": kind, "cfg": cfg, "op": {"op": "get_many", "keys": [key, "plain"]}}
                        yield {"kind": kind, "cfg": cfg, "op": {"op": "delete_many", "keys": ["plain", key], "noreply": False}}
                        yield {"kind": kind, "cfg": cfg, "op": {"op": "set_many", "values": {key: b"v"}, "noreply": False}}


BAD_KEYS = [b"a b", b"a\r\nflush_all", b"", b" ", b"x" * 251, "é", b"a\x00b", b"\n", "a\tb"]


def multikey_cases(tier, seed):
    """multi-key calls with one illegal member at every position (Client / PooledClient: nothing may be sent)"""
    i = 0
    for n in (2, 3, 4, 5):
        for pos in range(n):
            for bad in BAD_KEYS:
                good = [b"good%d" % j for j in range(n)]
                keys = good[:pos] + [bad] + good[pos + 1:]
                for kind in ("client", "pooled"):
                    for op in ("get_many", "gets_many", "delete_many", "set_many"):
                        i += 1
                        if op == "set_many":
                            r = {"op": op, "values": {k: b"v%d" % j for j, k in enumerate(keys)}, "noreply": bool(i & 1)}
                        elif op == "delete_many":
                            r = {"op": op, "keys": keys, "noreply": bool(i & 1)}
                        else:
                            r = {"op": op, "keys": keys}
                        yield {"kind": kind, "cfg": BASE_CFG, "op": r}
    # long lists: an illegal key far down the list still means that nothing at all is sent
    for n in (999, 1000, 1001, 2500):
        good = [b"key-%d" % j for j in range(n)]
        for pos in (n - 1, n // 2):
            keys = good[:pos] + [b"bad key"] + good[pos + 1:]
            for kind in ("client", "pooled"):
                yield {"kind": kind, "cfg": BASE_CFG, "op": {"op": "get_many", "keys": keys}}
                yield {"kind": kind, "cfg": BASE_CFG, "op": {"op": "delete_many", "keys": keys, "noreply": True}}
                yield {"kind": kind, "cfg": BASE_CFG, "op": {"op": "delete_many", "keys": keys, "noreply": False}}
                yield {"kind": kind, "cfg": BASE_CFG, "op": {"op": "set_many", "values": {k: b"v" for k in keys}, "noreply": True}}
        yield {"kind": "client", "cfg": BASE_CFG, "op": {"op": "delete_many", "keys": good, "noreply": False}}
        yield {"kind": "client", "cfg": BASE_CFG, "op": {"op": "get_many", "keys": good}}
    # a batch of large values with one item the client has to refuse (a value the encoding cannot express, an illegal key)
    # at the start, in the middle, at the end: nothing of the batch may be on the wire when the input error is raised
    big = b"x" * 30000
    for n_good in (1, 3, 4, 9):
        for pos in sorted({0, n_good // 2, n_good}):
            for bad_k, bad_v in (("late", "not-ascii-\u00e9"), ("late key", b"v"), ("late", "\udcff-surrogate")):
                items = [("good-%d" % j, big) for j in range(n_good)]
                items.insert(pos, (bad_k, bad_v))
                for kind in ("client", "pooled", "hash"):
                    for nr in (True, False):
                        yield {"kind": kind, "cfg": BASE_CFG, "op": {"op": "set_many", "values": dict(items), "noreply": nr}}
    # the key collection may be any iterable - a one-shot one too, also when it turns out to be empty
    for n in (0, 1, 3):
        keys = [b"key-%d" % j for j in range(n)]
        for kind in ("client", "pooled", "hash", "hash-pooled"):
            for shape in ("tuple", "iter", "generator", "map", "dictview", "wrapper"):
                yield {"kind": kind, "cfg": BASE_CFG, "op": {"op": "get_many", "keys": keys, "keys_as": shape}}
                yield {"kind": kind, "cfg": BASE_CFG, "op": {"op": "gets_many", "keys": keys, "keys_as": shape}}
                yield {"kind": kind, "cfg": BASE_CFG, "op": {"op": "delete_many", "keys": keys, "keys_as": shape, "noreply": False}}
                yield {"kind": kind, "cfg": BASE_CFG, "op": {"op": "delete_many", "keys": keys, "keys_as": shape, "noreply": True}}
    # legal multi-key calls of several sizes (the "nothing more" direction)
    for n in (0, 1, 2, 5, 30):
        keys = [b"key-%d" % j for j in range(n)]
        for kind in ("client", "pooled"):
            for nr in (True, False):
                yield {"kind": kind, "cfg": BASE_CFG, "op": {"op": "get_many", "keys": keys}}
                yield {"kind": kind, "cfg": BASE_CFG, "op": {"op": "gets_many", "keys": keys}}
                yield {"kind": kind, "cfg": BASE_CFG, "op": {"op": "delete_many", "keys": keys, "noreply": nr}}
                yield {"kind": kind, "cfg": BASE_CFG, "op": {"op": "set_many", "values": {k: b"END\r\n" + k for k in keys}, "noreply": nr, "expire": 5}}


INT_GOOD = {
    "expire": [0, 1, -1, 2592000, 2592001, 2 ** 31 - 1, 2 ** 31, 2 ** 63 - 1, -2 ** 63],
    "flags": [0, 1, 16, 2 ** 16, 2 ** 32 - 1],
    "cas": [0, 1, 2 ** 63, 2 ** 64 - 1, "0", "18446744073709551615", b"42", "007"],
    "delta": [0, 1, 2 ** 32, 2 ** 63, 2 ** 64 - 1],
    "delay": [0, 1, 60, 2 ** 31 - 1],
    "memlimit": [0, 1, 64, 2 ** 31],
}
NON_INT = ["1", 1.0, None, b"1", "1 noreply", "0\r\nflush_all", [1], (1,), 1.5, "", float("inf")]
BAD_CAS = ["1 noreply", "1\r\nflush_all", b"1 noreply", b"", "", " 1", "1 ", "-1", -1, 1.0, None, "١٢", "²", b"\xb2", "1\n", [1], b"1\r\n"]


def integer_cases(tier, seed):
    i = 0
    for kind in ("client", "pooled", "hash"):
        for enc in ("ascii", "utf-8", "latin-1"):
            cfg = dict(BASE_CFG, encoding=enc)
            for op in ("set", "add", "replace", "append", "prepend", "cas", "touch", "gat", "gats"):
                for v in INT_GOOD["expire"] + NON_INT:
                    r = rec_for(op, b"k", i)
                    r["expire"] = v
                    i += 1
                    yield {"kind": kind, "cfg": cfg, "op": r}
            for op in ("set", "cas", "prepend"):
                for v in INT_GOOD["flags"]:
                    r = rec_for(op, b"k", i)
                    r["flags"] = v
                    i += 1
                    yield {"kind": kind, "cfg": cfg, "op": r}
            for v in INT_GOOD["cas"] + BAD_CAS:
                r = rec_for("cas", b"k", i)
                r["cas"] = v
                i += 1
                yield {"kind": kind, "cfg": cfg, "op": r}
            for op in ("incr", "decr"):
                for v in INT_GOOD["delta"] + NON_INT:
                    r = rec_for(op, b"k", i)
                    r["delta"] = v
                    i += 1
                    yield {"kind": kind, "cfg": cfg, "op": r}
            if kind != "hash":
                for v in INT_GOOD["delay"] + NON_INT:
                    for nr in (True, False):
                        yield {"kind": kind, "cfg": cfg, "op": {"op": "flush_all", "delay": v, "noreply": nr}}
            if kind == "client":
                for v in INT_GOOD["memlimit"] + NON_INT:
                    yield {"kind": kind, "cfg": cfg, "op": {"op": "cache_memlimit", "memlimit": v}}
            # values that only some encodings can encode; int values; protocol text
            for val in ["é", "€", "plain", 12345, -7, "a\r\nb", b"\r\n", b"END\r\n", b"VALUE k 0 1\r\nx\r\nEND\r\n", b"", b"x" * 5000]:
                for op in ("set", "append", "cas"):
                    r = rec_for(op, b"k", i)
                    r["value"] = val
                    r["noreply"] = bool(i & 1)
                    i += 1
                    yield {"kind": kind, "cfg": cfg, "op": r}


class ViewSerde:
    """a serializer handing back bytes-like objects that are not `bytes` (bytearray, memoryviews of item size 1 and 4).
    Views are cached per value so that two instances return the very same object."""
    _cache = {}

    def __init__(self, how):
        self.how = how

    def serialize(self, key, value):
        import array
        k = (self.how, bytes(value))
        if k not in ViewSerde._cache:
            raw = bytes(value) + b"\0" * (-len(value) % 4)
            ViewSerde._cache[k] = {"bytearray": lambda: bytearray(value), "view1": lambda: memoryview(bytes(value)),
                                   "view4": lambda: memoryview(array.array("I", raw))}[self.how]()
        return ViewSerde._cache[k], 3

    def deserialize(self, key, value, flags):
        return value


def view_serde_cases(tier, seed):
    i = 0
    for how in ("bytearray", "view1", "view4"):
        for kind in ("client", "pooled", "hash"):
            for val in (b"abcd", b"12345678abcdefgh", b"", b"x" * 400):
                for nr in (True, False, None):
                    for op in ("set", "add", "append", "cas"):
                        i += 1
                        r = rec_for(op, "k", i)
                        r["value"] = val
                        if nr is None:
                            r.pop("noreply", None)
                        else:
                            r["noreply"] = nr
                        yield {"kind": kind, "cfg": dict(BASE_CFG, serde=["view", how]), "op": r}


FLAG_SPELLINGS = [1, 2, "yes", "no", "False", 1.0, -1, [0], (None,), b"0", 0, "", 0.0, [], (), b""]


def flag_spelling_cases(tier, seed):
    """the noreply flag and the default_noreply option are used by truth value: every truthy spelling must put the same bytes
    on the wire as True and every falsy one (other than None, which means 'use the default') the same as False"""
    nr_ops = [o for o in SINGLE_OPS if "noreply" in rec_for(o, "k")] + ["delete_many", "set_many", "flush_all"]
    i = 0
    for kind in ("client", "pooled", "hash", "hash-pooled"):
        for op in nr_ops:
            for sp in FLAG_SPELLINGS:
                i += 1
                if op == "delete_many":
                    r = {"op": op, "keys": ["k", b"k2"]}
                elif op == "set_many":
                    r = {"op": op, "values": {"k": PAYLOAD, "k2": b"1"}}
                elif op == "flush_all":
                    r = {"op": op, "delay": i % 3}
                else:
                    r = rec_for(op, "k", i)
                r.pop("noreply", None)
                yield {"kind": kind, "cfg": dict(BASE_CFG, default_noreply=sp), "op": dict(r)}
                yield {"kind": kind, "cfg": dict(BASE_CFG, default_noreply=bool(i & 1)), "op": dict(r, noreply=sp)}
                if tier != "quick" or kind == "client":
                    yield {"kind": kind, "cfg": dict(BASE_CFG, default_noreply=FLAG_SPELLINGS[(i * 7) % len(FLAG_SPELLINGS)], key_prefix=b"p:"),
                           "op": dict(r, noreply=sp)}


def subclass_cases(tier, seed):
    """every command through a Client subclass that puts keys into a namespace, used directly and as the client_class of the
    pooled and hash stacks"""
    i = 0
    for kind in ("client", "pooled", "hash", "hash-pooled"):
        for how in ("assign", "classattr"):
            for prefix in (b"", b"p:"):
                cfg = dict(BASE_CFG, key_prefix=prefix, client_class="namespace", client_class_how=how, default_noreply=bool(i % 2))
                for op in SINGLE_OPS:
                    for key in ("k", b"kb", "user:1"):
                        i += 1
                        yield {"kind": kind, "cfg": cfg, "op": rec_for(op, key, i)}
                for keys in (["a"], ["a", b"b", "c"]):
                    i += 1
                    yield {"kind": kind, "cfg": cfg, "op": {"op": "get_many", "keys": keys}}
                    yield {"kind": kind, "cfg": cfg, "op": {"op": "gets_many", "keys": keys}}
                    yield {"kind": kind, "cfg": cfg, "op": {"op": "delete_many", "keys": keys, "noreply": bool(i & 1)}}
                    yield {"kind": kind, "cfg": cfg, "op": {"op": "set_many", "values": {k: PAYLOAD for k in keys}, "noreply": bool(i & 1)}}


def serde_flag_cases(tier, seed):
    """a serializer that produces its own flags, combined with every explicit flags value (None = use the serializer's)"""
    i = 0
    for spec in (["pickle", 0], ["pickle", 5], ["json"], ["compressed", 1], ["compressed-default"]):
        for kind in ("client", "pooled", "hash"):
            for flags in (None, 0, 1, 5, 16, 2 ** 32 - 1):
                for val in ("text", "", 0, 12345, b"raw", b"", [1, 2], "x" * 600):
                    if spec == ["json"] and isinstance(val, list) is False and not isinstance(val, (str, bytes, int)):
                        continue
                    for op in ("set", "add", "cas", "append"):
                        i += 1
                        r = rec_for(op, "k%d" % (i % 3), i)
                        r["value"] = val
                        if flags is not None:
                            r["flags"] = flags
                        yield {"kind": kind, "cfg": dict(BASE_CFG, serde=spec), "op": r}
                # multi-key: values of different flag classes in one call, in both orders
                for vals in ({"a": "text", "b": b"raw", "c": 7}, {"a": b"raw", "b": "text"}, {"n": 3, "o": [1], "t": "x"}):
                    i += 1
                    r = {"op": "set_many", "values": vals, "noreply": bool(i & 1)}
                    if flags is not None:
                        r["flags"] = flags
                    if kind != "hash":
                        yield {"kind": kind, "cfg": dict(BASE_CFG, serde=spec), "op": r}


# ---- raw_command: the caller's bytes, one line terminator, nothing else ---------------------------------------------

def raw_command_cases(tier, seed):
    cmds = [b"version", "version", b"get k", b"delete k", b"incr n 5", b"touch k 10", b"flush_all",
            b"set k 0 0 3\r\nabc", b"set k 0 0 5\r\nabc\r\n", b"set k 0 0 0\r\n", b"set k 0 0 2\r\n\r\n", b"set k 1 0 4\r\n\r\n\r\n",
            b"append k 0 0 1\r\n\r", b"add k 0 0 3\r\nEND", b"cas k 0 0 1 7\r\n\n", b"set k 0 0 9\r\nget x\r\nzz", "set k 0 0 1\r\nv"]
    for cmd in cmds:
        for kind in ("client", "pooled"):
            for pfx in (b"", b"p:"):
                # (raw_command adds no prefix: the command is the caller's)
                yield {"kind": kind, "cfg": dict(BASE_CFG, key_prefix=pfx), "op": {"op": "raw_command", "command": cmd}}


# ---- call histories on one object ----------------------------------------------------------------------------

LONGTOK = "k" * 245
HIST_ALPHA = [
    {"op": "stats", "args": ["items"]}, {"op": "stats", "args": ["slabs"]}, {"op": "stats", "args": [b"items"]}, {"op": "stats", "args": [LONGTOK]},
    {"op": "cache_memlimit", "memlimit": 64}, {"op": "get", "key": "items"}, {"op": "get", "key": b"items"},
    {"op": "set", "key": "slabs", "value": PAYLOAD, "noreply": False}, {"op": "get", "key": "64"}, {"op": "set", "key": b"64", "value": b"1", "noreply": True},
    {"op": "get", "key": LONGTOK}, {"op": "delete", "key": "items", "noreply": False}, {"op": "get_many", "keys": ["items", "64"]},
    {"op": "incr", "key": "64", "delta": 1, "noreply": False}, {"op": "set_many", "values": {"slabs": b"v", LONGTOK: b"w"}, "noreply": False},
    # life-cycle events (not judged themselves): the connection is closed; the server goes away long enough to be given up
    # (by a HashClient: marked dead) and comes back - the calls that follow are judged like any other
    {"op": "close"}, {"op": "outage"}, {"op": "set", "key": "items", "value": b"v"}, {"op": "delete", "key": "slabs"}, {"op": "touch", "key": "64", "expire": 5},
]
HIST_PREFIXES = [b"ns:", b"", b"0123456789"]


def _usable(kind, r):
    if kind == "pooled" and r["op"] == "cache_memlimit":
        return False
    if kind.startswith("hash") and r["op"] in ("cache_memlimit", "get_many", "set_many"):
        return False
    return True


def check_history(case):
    """every call of a sequence on ONE client object is judged like a single call: what a token was used for earlier
    (a key, a `stats` argument, a memory limit) must not change how it is written now"""
    kind, cfg = case["kind"], case["cfg"]
    from vlib.harness import virtual_time
    env = Env()
    with virtual_time(env.clock):
        return _check_history(case, env, kind, cfg)


def _check_history(case, env, kind, cfg):
    c = env.client(kind, **{k: cfg[k] for k in ("key_prefix", "allow_unicode_keys", "encoding", "default_noreply") if k in cfg})
    srv = env.server
    roles = {}
    mixed = False
    for i, r in enumerate(case["ops"]):
        if not _usable(kind, r):
            continue
        if r["op"] == "close":
            c.close()
            continue
        if r["op"] == "outage":
            srv.down = "refused"
            for _ in range(5):
                env.call(c.get, "probe")
                env.clock.advance(1.5)
            srv.down = None
            env.clock.advance(61)
            env.call(c.get, "probe")
            mixed = True
            continue
        lm, nm, em = len(srv.log), len(env.net.log), len(srv.errors)
        try:
            want = ops.intended(r, cfg)
        except ops.CannotEncode:
            want = None
        res = env.call(ops.invoke, c, r)
        sent = [e for e in env.net.log[nm:] if e[3] == "sendall" and e[4]]
        desc = "call %d %r of history %r on one %s object, cfg=%r" % (i, _short(r), _short([o for o in case["ops"]]), kind, cfg)
        for t in ([r["key"]] if "key" in r else []) + list(r.get("keys", ())) + list(r.get("values", {})) + list(r.get("args", ())) + ([str(r["memlimit"])] if "memlimit" in r else []):
            tb = t.encode() if isinstance(t, str) else t
            role = "arg" if r["op"] in ("stats", "cache_memlimit") else "key"
            if roles.setdefault(tb, role) != role:
                mixed = True
        if res[0] == "exc" and isinstance(res[1], MemcacheIllegalInputError):
            if sent:
                raise Violation(["history", "sent-then-rejected", r["op"]], "input error raised after bytes were written (server parsed %r): %s" % (srv.log[lm:], desc))
            legal = want is not None and all(len(k) <= 250 for w in want for k in ([w["key"]] if "key" in w else w.get("keys", []) + w.get("args", [])))
            if legal:
                raise Violation(["history", "legal-rejected", r["op"]], "a legal call was rejected with %r: %s" % (res[1], desc))
            continue
        if res[0] == "exc" and not isinstance(res[1], MemcacheError):
            raise Violation(["history", "unexpected-exception", type(res[1]).__name__, r["op"]], "raised %r: %s" % (res[1], desc))
        errs = [e for e in srv.errors[em:] if not (r["op"] == "stats" and "unknown stats argument" in str(e))]
        if want is None or errs or srv.log[lm:] != want:
            raise Violation(["history", "malformed-or-injected", r["op"]], "server parsed %r, errors %r; intended %r: %s" % (_short(srv.log[lm:]), errs[:3], _short(want), desc))
    return mixed, [kind, "len=%d" % len(case["ops"])] + (["token-in-two-roles"] if mixed else [])


def history_cases(tier, seed):
    depth = 3
    for kind in ("client", "pooled", "hash", "hash-pooled"):
        for prefix in HIST_PREFIXES:
            cfg = dict(BASE_CFG, key_prefix=prefix)
            for n in range(2, depth + 1):
                for idx in itertools.product(range(len(HIST_ALPHA)), repeat=n):
                    if n == 3 and tier == "quick" and kind != "client" and (sum(idx) + len(prefix)) % 3:
                        continue
                    yield {"kind": kind, "cfg": cfg, "ops": [HIST_ALPHA[i] for i in idx]}


def history_strategy(tier):
    cfg = st.fixed_dictionaries({"key_prefix": st.sampled_from(HIST_PREFIXES + ["str:"]), "allow_unicode_keys": st.booleans(),
                                 "encoding": st.sampled_from(["ascii", "utf-8"]),
                                 "default_noreply": st.one_of(st.booleans(), st.sampled_from(FLAG_SPELLINGS))})
    return st.fixed_dictionaries({"kind": st.sampled_from(["client", "pooled", "hash", "hash-pooled"]), "cfg": cfg,
                                  "ops": st.lists(st.sampled_from(HIST_ALPHA), min_size=2, max_size=10)})


def random_strategy(tier):
    tricky = st.sampled_from([b"\r\n", b"END\r\n", b"VALUE k 0 1\r\n", b"set x 0 0 1\r\n", b"flush_all\r\n", b" noreply", b"\x00", b" ", b"STORED\r\n"])
    value = st.one_of(st.binary(max_size=64),
                      st.lists(st.one_of(tricky, st.binary(max_size=8)), max_size=6).map(b"".join),
                      st.text(max_size=20), st.integers(-10 ** 30, 10 ** 30),
                      st.text(st.characters(max_codepoint=0x7F), max_size=20))
    badbyte = st.sampled_from([bytes([b]) for b in REPS3])
    key = st.one_of(
        st.binary(min_size=0, max_size=12),
        st.lists(st.one_of(st.binary(min_size=1, max_size=6), badbyte), min_size=1, max_size=5).map(b"".join),
        st.text(st.characters(exclude_categories=["Cs"]), max_size=12),
        st.integers(245, 255).flatmap(lambda n: st.binary(min_size=n, max_size=n)),
        st.sampled_from([b"k", b"key", "k", "user:1"]))
    goodkey = st.one_of(st.sampled_from([b"k", b"key", "k2", "user:1"]),
                        st.text(st.characters(min_codepoint=0x21, max_codepoint=0x7E), min_size=1, max_size=20))
    expire = st.one_of(st.sampled_from(INT_GOOD["expire"]), st.integers(-2 ** 63, 2 ** 63 - 1), st.sampled_from(NON_INT))
    flags = st.one_of(st.none(), st.sampled_from(INT_GOOD["flags"]), st.integers(0, 2 ** 32 - 1))
    noreply = st.one_of(st.sampled_from([None, True, False]), st.sampled_from([None, True, False] + FLAG_SPELLINGS))
    cas = st.one_of(st.sampled_from(INT_GOOD["cas"] + BAD_CAS), st.integers(0, 2 ** 64 - 1))
    delta = st.one_of(st.sampled_from(INT_GOOD["delta"] + NON_INT), st.integers(0, 2 ** 64 - 1))

    def opt(d):
        # optional arguments are either present or absent
        return st.fixed_dictionaries({}, optional=d)

    store = st.builds(lambda op, k, v, o: dict({"op": op, "key": k, "value": v}, **o),
                      st.sampled_from(list(ops.STORE_OPS)), key, value, opt({"expire": expire, "flags": flags, "noreply": noreply}))
    casop = st.builds(lambda k, v, c, o: dict({"op": "cas", "key": k, "value": v, "cas": c}, **o), key, value, cas,
                      opt({"expire": expire, "flags": flags, "noreply": noreply}))
    getop = st.builds(lambda op, k: {"op": op, "key": k}, st.sampled_from(["get", "gets", "getitem", "delitem"]), key)
    gatop = st.builds(lambda op, k, o: dict({"op": op, "key": k}, **o), st.sampled_from(["gat", "gats"]), key, opt({"expire": expire}))
    delop = st.builds(lambda k, o: dict({"op": "delete", "key": k}, **o), key, opt({"noreply": noreply}))
    arith = st.builds(lambda op, k, d, o: dict({"op": op, "key": k, "delta": d}, **o), st.sampled_from(["incr", "decr"]), key, delta, opt({"noreply": noreply}))
    touch = st.builds(lambda k, o: dict({"op": "touch", "key": k}, **o), key, opt({"expire": expire, "noreply": noreply}))
    keylist = st.lists(st.one_of(goodkey, goodkey, goodkey, key), max_size=5, unique_by=lambda k: k if isinstance(k, bytes) else k.encode("utf-8"))
    many = st.builds(lambda op, ks: {"op": op, "keys": ks}, st.sampled_from(["get_many", "gets_many"]), keylist)
    delmany = st.builds(lambda ks, o: dict({"op": "delete_many", "keys": ks}, **o), keylist, opt({"noreply": noreply}))
    setmany = st.builds(lambda ks, vs, o: dict({"op": "set_many", "values": dict(zip(ks, vs + [b"v"] * 5))}, **o), keylist,
                        st.lists(value, max_size=5), opt({"expire": expire, "flags": flags, "noreply": noreply}))
    flush = st.builds(lambda o: dict({"op": "flush_all"}, **o), opt({"delay": st.one_of(st.sampled_from(INT_GOOD["delay"] + NON_INT)), "noreply": noreply}))
    single = st.one_of(store, casop, getop, gatop, delop, arith, touch)
    multi = st.one_of(many, delmany, setmany, flush)
    prefix = st.one_of(st.just(b""), st.just(b""), st.binary(max_size=8), st.text(st.characters(min_codepoint=0x21, max_codepoint=0x7E), max_size=6),
                       st.integers(240, 250).map(lambda n: b"P" * n))
    cfg = st.fixed_dictionaries({"key_prefix": prefix, "allow_unicode_keys": st.booleans(),
                                 "encoding": st.sampled_from(["ascii", "utf-8", "latin-1"]), "default_noreply": st.one_of(st.booleans(), st.sampled_from(FLAG_SPELLINGS))})
    return st.one_of(
        st.fixed_dictionaries({"kind": st.sampled_from(["client", "pooled", "hash", "hash-pooled"]), "cfg": cfg, "op": single}),
        st.fixed_dictionaries({"kind": st.sampled_from(["client", "pooled"]), "cfg": cfg, "op": multi}))


PARTS = [
    Part("short-keys-exhaustive", "enum", check, cases=short_key_cases, exhaustive=True),
    Part("class-keys-len3", "enum", check, cases=class_key_cases, exhaustive=True),
    Part("byte-at-position", "enum", check, cases=position_cases, exhaustive=True),
    Part("multi-key", "enum", check, cases=multikey_cases, exhaustive=True),
    Part("unnormalised-unicode-keys", "enum", check, cases=unicode_key_cases, exhaustive=True),
    Part("integers-and-values", "enum", check, cases=integer_cases, exhaustive=True),
    Part("serde-and-flags", "enum", check, cases=serde_flag_cases, exhaustive=True),
    Part("flag-spellings", "enum", check, cases=flag_spelling_cases, exhaustive=True),
    Part("subclassed-clients", "enum", check, cases=subclass_cases, exhaustive=True),
    Part("bytes-like-payloads", "enum", check, cases=view_serde_cases, exhaustive=True),
    Part("raw-commands", "enum", check, cases=raw_command_cases, exhaustive=True),
    Part("call-histories", "enum", check_history, cases=history_cases, exhaustive=True),
    Part("random-call-histories", "hyp", check_history, strategy=history_strategy,
         examples={"quick": 200, "thorough": 8000}, shards={"quick": 4, "thorough": 16}),
    Part("random", "hyp", check, strategy=random_strategy,
         examples={"quick": 600, "thorough": 25000}, shards={"quick": 4, "thorough": 16}),
]


def selftest():
    mcserver.selftest()

"""C13 - HashClient failover: bounded probing, eviction, rerouting, recovery."""
import itertools

from hypothesis import strategies as st

from vlib import refhash
from vlib.harness import Env, virtual_time
from vlib.mcserver import Clock
from vlib.runner import Part, Violation, ddmin_list

import pymemcache.client.hash as H
from pymemcache.client.hash import HashClient
from pymemcache.client.rendezvous import RendezvousHash
from pymemcache.exceptions import MemcacheClientError, MemcacheError

PROPERTY = "C13"
LEVEL = "exploration"
# parts repeated in a child interpreter started with -O and with warnings turned into errors (vlib/runner.py, MODES)
MODE_PARTS = {"OW": ['close-in-between', 'real-probe-trains', 'two-outages']}
RULE = ("history = event sequence over {key-addressed operation (get, set, delete, incr, get_many, set_many, and a set_many with a mixed outcome - one item stored, one answered NOT_STORED by a healthy server) on a key "
        "owned by server i; clock advance by 0.5/1/1.5 retry_timeouts or 0.5/1/1+eps/2+eps dead_timeouts; server i starts "
        "failing with ConnectionRefused / timeout / reset at connect / reset while the reply is awaited (connection and request accepted) / OSError; server i heals} for 1-3 servers x retry_attempts "
        "0/1/2 x ignore_exc off/on (retry_timeout 1, dead_timeout 60). Two back-ends: scripted clients installed through "
        "client_class (each method call is a contact) and real Clients over the fake network (connect/sendall events "
        "grouped per public call are contacts). Bounded-exhaustive: every sequence up to depth 5 (thorough 7) over an "
        "8-symbol alphabet (2 servers; get on each, set_many; three advances; fail/heal of server 0) x all six "
        "configurations; 'probe trains' - server 0 failing, then every sequence of up to 7 (thorough 9) gaps drawn from {below retry_timeout, above it, above dead_timeout} each followed by an operation, with and without a heal part-way; the same trains to depth 3 (thorough 5) over real Clients on the fake network for each of the five failure kinds, half of them on the ElastiCache subclass (servers learnt from a configuration endpoint; same failover machinery); the trains again with a close() / disconnect_all() of the HashClient inserted at every position (dropping connections is not a membership change); 'two outages' - three servers, two of them starting to fail at different instants of a 10-point time grid whose gaps straddle dead_timeout in several ways, traffic on every key at every subset of the remaining instants (one server is evicted while another is being brought back); Hypothesis sequences up to length 40. Observation through public seams only: the contact log "
        "and a hasher passed as hasher= (a RendezvousHash subclass, or a minimal class offering only the documented get_node/add_node/remove_node) that records (rotation at that instant, key, node) for every "
        "routing decision. Oracle: per continuous failing interval of a server, <= 2 contacts in any retry_timeout "
        "window and <= retry_attempts+2 in any dead_timeout window; every routing decision equals the reference "
        "placement over the rotation it saw; a single-key call makes one routing decision and contacts nobody or "
        "exactly the routed server; a multi-key call contacts each server at most once; with retry_attempts >= 1 the "
        "first failure does not evict and a server leaves the rotation only after retry_attempts+1 failed contacts in a row since it last answered; a server that never failed is never out of rotation nor bypassed; after all "
        "servers heal, traffic for two dead_timeouts restores the original rotation and placement; only the failing "
        "server's own error or 'All servers seem to be down' escape, nothing with ignore_exc. Non-trivial: a server "
        "went failing -> dead -> revived, or was probed again after a retry_timeout. Address styles: distinct hosts with int ports, or one host with ports 11211+i given as int for some servers and as text for others, or 'host:port' strings. Two users at once (turns at connect / send / receive / close, two calls each, four idle connections in the pool) while the server fails, its retry is due, its retries are used up or it is back after having been given up: only the server's error or 'all servers down' escapes, nothing with ignore_exc, and the rotation recovers. Operation incr_text makes a healthy server answer with an error line (optionally hanging up afterwards, dialect hangup-after-error): that is the call's error, not a server failure - an OSError counts as a server's own error only while a server is failing. Long lives: 1500 (thorough 6000) events on one client; operation get_many_big sends 4500 keys to one (failing) server in one call."
        + ' In the two-users part an outage is a server process that died: connections made before it stay dead (restarts_kill_connections); once the server is healthy and due back (phase given-up-and-back) no call may fail.'
        + ' Given up late: a server that uses its retry budget up during an outage and is still in rotation when everything heals, a second server given up at another moment, recovery traffic every 0.9 / 3 / 7 / 13 / 29 s: placement is back within two dead_timeouts (D26).'
        + " Broadcasts in between: every sequence of up to 5 (thorough 6) events over {get on either server's key, set_many, +1.5 s, +61 s, server 0 down / up, flush_all} with a flush_all after the failure - flush_all reaches servers out of rotation too; its contacts do not count towards the probing bounds but what it finds is a failure like any other. Scripted back-end, order of events inside a call: a server that is in rotation is never taken out unless it failed since it was put (back) in."
        + " Inside one call the clock stands still, so a server that is due back is due back before the call's first lookup: on the scripted back-end no key of a call is placed before a server comes back into rotation in that same call.")
MANIFEST = {
    "category": "exploration",
    "technique": "stateful model-based exploration of failure/recovery event sequences on a virtual clock: bounded-exhaustive to a depth bound over a reduced alphabet x all retry configurations, plus Hypothesis sequences; invariants over a contact log and a routing log observed through the client_class and hasher seams",
    "text": "Servers are scripted objects (or real Clients over a fake network) whose every contact is logged with the virtual time; routing decisions are logged by a hasher subclass together with the rotation they saw. The probing bounds, eviction, rerouting and recovery clauses of the property are evaluated as invariants over these two logs for every event sequence up to the depth bound (exhaustive) and for long random sequences.",
    "note": "Only socket-level errors (OSError family) count as 'failing'; non-key-addressed calls are mixed in only in part broadcasts-in-between (flush_all: its contacts do not count towards the bounds, what it finds counts as a failure); the order-of-events rules (evicted-early, evicted-without-failure, placed-before-revival) are evaluated on the scripted back-end; recovery traffic is one call per 0.9 retry_timeouts (random part) or per 7 s (exhaustive part).",
    "design_ref": "DESIGN.md 3/C13",
}
ASSUMPTIONS = [
    "pymemcache.client.hash.time is rebound to a virtual clock for the duration of a case",
    "retry_timeout (1) < dead_timeout (60)",
]

RT, DT = 1, 60
ERR = {"refused": lambda: ConnectionRefusedError(111, "refused"), "timeout": lambda: TimeoutError("timed out"),
       "reset": lambda: ConnectionResetError(104, "reset"), "oserror": lambda: OSError(113, "no route"),
       # real back-end: the connection and the request are accepted, the reset comes when the reply is awaited (a proxy
       # in front of a dead server); scripted back-end: the same as "reset"
       "reset-recv": lambda: ConnectionResetError(104, "reset while waiting for the reply")}


class _T:
    def __init__(self, clock):
        self.clock = clock
        self._origin = float(clock.now) - 12.5      # like a real machine: the monotonic clock reads far less than the wall clock

    def time(self):
        return float(self.clock.now)

    # same virtual clock, unrelated origin: either clock may be used, readings of the two may not be mixed
    def monotonic(self):
        return float(self.clock.now) - self._origin

    perf_counter = monotonic


class Scripted:
    """Scripted stand-in for Client installed via HashClient.client_class."""
    world = None

    def __init__(self, server, **kw):
        self.server = server                          # as given (what HashClient's bookkeeping sees)
        self.ident = (server[0], int(server[1]))      # the server it is

    def _do(self, name):
        w = Scripted.world
        f = w["failing"].get(self.ident)
        w["contacts"].append((w["clock"].now, self.ident, name, f is not None, w["call"]))
        ORDER.append(("contact", "%s:%s" % self.ident, f is not None))
        if f is not None:
            raise f

    def get(self, key, default=None):
        self._do("get")
        return "v"

    def set(self, key, value, *a, **k):
        self._do("set")
        return True

    def delete(self, key, *a, **k):
        self._do("delete")
        return True

    def incr(self, key, value, *a, **k):
        self._do("incr")
        return 1

    def get_many(self, keys):
        self._do("get_many")
        return {k: "v" for k in keys}

    def flush_all(self, *a, **k):
        self._do("flush_all")
        return True

    def set_many(self, values, *a, **k):
        self._do("set_many")
        return [kk for kk in values if str(kk).startswith("ns-")]      # items a (healthy) server answers NOT_STORED

    def close(self):
        pass


ORDER = []          # scripted back-end: contacts and removals from the rotation in the order they happen (one case at a time)


def make_loghash(routes):
    class LogHash(RendezvousHash):
        def add_node(self, node):
            ORDER.append(("add", node))
            return super().add_node(node)

        def remove_node(self, node):
            ORDER.append(("remove", node, node in self.nodes))
            return super().remove_node(node)

        def get_node(self, key):
            r = super().get_node(key)
            routes.append((tuple(self.nodes), key, r))
            ORDER.append(("route", key, r))
            return r
    return LogHash


def make_minimal_hash(routes):
    """the documented `hasher=` contract and nothing more: no `.nodes`, no other attribute the client could lean on"""
    class MinimalHash:
        __slots__ = ("_MinimalHash__ring",)

        def __init__(self):
            self.__ring = []

        def add_node(self, node):
            ORDER.append(("add", node))
            if node not in self.__ring:
                self.__ring.append(node)

        def remove_node(self, node):
            ORDER.append(("remove", node, node in self.__ring))
            if node not in self.__ring:
                raise ValueError("No such node %s to remove" % (node,))
            self.__ring.remove(node)

        def get_node(self, key):
            r = refhash.place(list(self.__ring), key) if self.__ring else None
            routes.append((tuple(self.__ring), key, r))
            ORDER.append(("route", key, r))
            return r

        def rotation_for_the_oracle(self):
            return list(self.__ring)
    return MinimalHash


def rotation(hc):
    h = hc.hasher
    return h.rotation_for_the_oracle() if hasattr(h, "rotation_for_the_oracle") else list(h.nodes)


def name(s):
    return "%s:%s" % s


_NS = {}


def ns_key(names, node):
    """a key 'ns-<i>' that placement puts on `node` (with every server in rotation)"""
    k = (tuple(names), node)
    if k not in _NS:
        i = 0
        while refhash.place(list(names), "ns-%d" % i) != node:
            i += 1
        _NS[k] = "ns-%d" % i
    return _NS[k]


def owned_keys(names):
    got = {}
    i = 0
    while len(got) < len(names):
        k = "k%d" % i
        i += 1
        got.setdefault(refhash.place(names, k), k)
    return {k: n for n, k in got.items()}      # key -> owner name


def check(case):
    ns, ra, ie = case["servers"], case["retry_attempts"], case["ignore_exc"]
    backend = case.get("backend", "scripted")
    events = case["events"]
    servers = [("s%d" % i, 11211) for i in range(ns)]
    style = 0 if case.get("aws") else case.get("addr_style", 0)
    if style:
        # equivalent spellings of the configuration: servers that share a host name and differ in the port, the port given
        # as a number for some and as text for others (1), or everything as 'host:port' strings (2)
        servers = [("s", 11211 + i) for i in range(ns)]
    config = [(h, str(p)) if (style == 1 and i % 2 == 0) else ("%s:%d" % (h, p) if style == 2 or (style == 3 and i % 2) else (h, p)) for i, (h, p) in enumerate(servers)]
    names = [name(s) for s in servers]
    owner = owned_keys(names)
    key_of = {n: k for k, n in owner.items()}
    routes = []
    clock = Clock(1000)
    world = {"failing": {}, "contacts": [], "clock": clock, "call": 0}
    env = None
    saved_time = H.time
    H.time = _T(clock)
    try:
        if backend == "scripted":
            Scripted.world = world

            class HC(HashClient):
                client_class = Scripted
            hc = HC(config, hasher=(make_minimal_hash if case.get("hasher") == "minimal" else make_loghash)(routes), retry_attempts=ra, retry_timeout=RT, dead_timeout=DT, ignore_exc=ie)
        else:
            env = Env(addrs=servers)
            for srv_ in env.servers:
                srv_.refuse.update({ns_key(names, n_).encode(): "not-stored" for n_ in names})
                if case.get("dialect"):
                    srv_.dialect = set(case["dialect"])          # e.g. a server that hangs up after every error line it sends
            env.clock = clock
            for s in env.servers:
                s.clock = clock
            hkw = dict(hasher=(make_minimal_hash if case.get("hasher") == "minimal" else make_loghash)(routes), retry_attempts=ra, retry_timeout=RT, dead_timeout=DT, ignore_exc=ie,
                       socket_module=env.net, default_noreply=False)
            if case.get("aws"):
                # the ElastiCache subclass: same failover machinery, servers learnt from a configuration endpoint
                from vlib.mcserver import McServer
                from pymemcache.client.ext.aws_ec_client import AWSElastiCacheHashClient
                import pymemcache.client.ext.aws_ec_client as _aws
                cfgsrv = McServer(clock, name="cfg")
                cfgsrv.cluster_config = b"1\n" + " ".join("%s|%s|%d" % (h, h, p) for h, p in servers).encode() + b"\n"
                env.net.add_server(("cfg.example.com", 11211), cfgsrv)
                if hasattr(_aws, "time"):          # the subclass reads the clock through its own module's `time`
                    world["aws_time"] = (_aws, _aws.time)
                    _aws.time = _T(clock)
                hc = AWSElastiCacheHashClient("cfg.example.com:11211", use_vpc=True, **hkw)
                world["mark0"] = len(env.net.log)
            else:
                hc = HashClient(config, **hkw)
        return _run(case, hc, servers, names, owner, key_of, routes, world, env, clock)
    finally:
        H.time = saved_time
        Scripted.world = None
        if world.get("aws_time"):
            world["aws_time"][0].time = world["aws_time"][1]


def _contacts_since(world, env, servers, mark):
    """-> new contacts [(time, server, failed?)], grouped per public call for the real back-end"""
    if env is None:
        new = world["contacts"][mark:]
        return [(t, s, failed) for (t, s, _n, failed, _c) in new], len(world["contacts"])
    log = env.net.log
    out = []
    seen = set()
    by_id = {s.id: s for s in env.net.sockets}
    for e in log[mark:]:
        if e[3] in ("connect", "sendall"):
            addr = e[4] if e[3] == "connect" else by_id[e[2]].addr
            srv = (addr[0], int(addr[1]))
            if (e[1], srv) not in seen:
                seen.add((e[1], srv))
                out.append((world["clock"].now, srv, world["failing"].get(srv) is not None))
    return out, len(log)


def _run(case, hc, servers, names, owner, key_of, routes, world, env, clock):
    ns, ra, ie = case["servers"], case["retry_attempts"], case["ignore_exc"]
    events = case["events"]
    hist = []
    ever_failed = set()
    failed_contacts = {}            # server -> number of failed contacts so far
    clean = {}                      # server -> no failed contact since its last successful one
    fails_run = {}                  # server -> failed contacts in a row (since its last successful contact)
    del ORDER[:]
    order_pos, order_run = [0], {}
    in_rot_before = set(names)
    intervals = {s: [] for s in servers}
    labels = set()
    mark = world.get("mark0", 0)
    died = set()
    revived = False
    reprobe = False

    def V(sig, msg):
        raise Violation([sig, case.get("backend", "scripted")], "%s; history %r (servers %d, retry_attempts %d, ignore_exc %r, %s back-end)"
                        % (msg, hist, ns, ra, ie, case.get("backend", "scripted")))

    failed_since_add = {}
    routed_in_call = []

    def scan_order():
        if env is not None:
            return
        # exact order of events inside the call: a server leaves the rotation only after retry_attempts+1 failed contacts in
        # a row - counted up to the moment of the removal, not to the end of the call that removes it - and a server that
        # is in rotation is never taken out without having failed since it was put (back) in
        for ev_ in ORDER[order_pos[0]:]:
            if ev_[0] == "contact":
                order_run[ev_[1]] = 0 if not ev_[2] else order_run.get(ev_[1], 0) + 1
                if ev_[2]:
                    failed_since_add[ev_[1]] = True
            elif ev_[0] == "call":
                routed_in_call[:] = []
            elif ev_[0] == "route":
                routed_in_call.append(ev_[1:])
            elif ev_[0] == "add":
                failed_since_add[ev_[1]] = False
                # the clock stands still inside a call: a server that is due back is due back before the call's first
                # lookup, so every key of the call is placed over the rotation that includes it
                if routed_in_call:
                    V("placed-before-revival", "%r came back into rotation after the same call had already placed %r: that key was placed over a rotation the call itself replaced"
                      % (ev_[1], routed_in_call[0]))
            else:
                if order_run.get(ev_[1], 0) < ra + 1:
                    V("evicted-early", "%r was taken out of rotation after %d failed contact(s) in a row (since it last answered); retry_attempts=%d allows it after %d"
                      % (ev_[1], order_run.get(ev_[1], 0), ra, ra + 1))
                if ev_[2] and not failed_since_add.get(ev_[1], False):
                    V("evicted-without-failure", "%r was in rotation and has not failed since it was put (back) in, yet it was taken out" % (ev_[1],))
        order_pos[0] = len(ORDER)

    def do(opn, key):
        if env is not None:
            env.net.begin_call(world["call"])
        ORDER.append(("call",))
        try:
            if opn == "get":
                hc.get(key)
            elif opn == "set":
                hc.set(key, "1")
            elif opn == "delete":
                hc.delete(key)
            elif opn == "incr":
                hc.incr(key, 1)
            elif opn == "incr_text":
                # the server answers with an error line of its own (the item is not a number): the call fails with that error,
                # the server has not failed
                hc.set(key, "abc")
                ORDER.append(("call",))
                try:
                    hc.incr(key, 1)
                except MemcacheClientError:
                    pass
                ORDER.append(("call",))
                hc.set(key, "1")
            elif opn == "get_many":
                hc.get_many(list(owner))
            elif opn == "get_many_big":
                # thousands of keys in one call (with one server they all live on it): still one request to that server
                hc.get_many(["big-%d" % j for j in range(4500)] + [key])
            elif opn == "set_many":
                hc.set_many({k: "1" for k in owner})
            elif opn == "set_many_mixed":
                # a batch with a mixed outcome: the server stores one item and answers NOT_STORED for the other (it is
                # healthy and answered in full); the refused key comes back in the list of failed keys
                nsk = ns_key(names, owner[key])          # a second key that lives on the same server
                r = hc.set_many({key: "1", nsk: "2"})
                if isinstance(r, list) and nsk not in r and not world["failing"]:
                    raise Violation(["mixed-outcome", case.get("backend", "scripted")], "set_many of %r and %r (which every server answers with NOT_STORED) returned %r" % (key, nsk, r))
            return None
        except Exception as e:  # noqa: BLE001
            return e
        finally:
            if env is not None:
                env.net.end_call(world["call"])
            world["call"] += 1

    for ev in events:
        kind = ev[0]
        if kind == "adv":
            clock.advance(ev[1])
            hist.append(("adv", ev[1]))
            continue
        if kind == "fail":
            s = servers[ev[1] % ns]
            if s not in world["failing"]:
                world["failing"][s] = ERR[ev[2]]()
                intervals[s].append([])
                if env is not None:
                    env.servers[ev[1] % ns].down = ev[2]
            hist.append(("fail", ev[1] % ns, ev[2]))
            continue
        if kind in ("close", "disconnect_all"):
            # dropping the connections (end of a request, after a fork) is not a membership change: what is known about
            # failing servers, and the way back into rotation for the dead ones, survive it
            getattr(hc, kind)()
            hist.append((kind,))
            if env is not None:
                mark = len(env.net.log)
            continue
        if kind == "broadcast":
            # flush_all goes to every server the client knows, those out of rotation included: it is not key-addressed (its
            # contacts do not count towards the probing bounds), but what it learns about a server is a failure like any other
            hist.append(("flush_all",))
            ORDER.append(("call",))
            try:
                hc.flush_all()
            except Exception as e:  # noqa: BLE001
                if not (any(e is f for f in world["failing"].values()) or (env is not None and isinstance(e, OSError) and bool(world["failing"]))):
                    V("internal-error", "flush_all() raised %r, not a failing server's error" % (e,))
            new, mark = _contacts_since(world, env, servers, mark)
            for (t, s, failed) in new:
                fails_run[s] = 0 if not failed else fails_run.get(s, 0) + 1
                clean[s] = not failed
                if failed:
                    ever_failed.add(s)
            scan_order()
            rot_now = rotation(hc)
            in_rot_before = set(rot_now)
            for s in servers:
                if name(s) not in rot_now:
                    died.add(s)
            labels.add("broadcast")
            continue
        if kind == "heal":
            s = servers[ev[1] % ns]
            world["failing"].pop(s, None)
            if env is not None:
                env.servers[ev[1] % ns].down = None
            hist.append(("heal", ev[1] % ns))
            continue
        opn, si = ev[1], ev[2] % ns
        key = key_of[names[si]]
        hist.append((opn, key))
        r0 = len(routes)
        exc = do(opn, key)
        new, mark = _contacts_since(world, env, servers, mark)
        first_since_clean = set()
        fails_before = dict(fails_run)
        for (t, s, failed) in new:
            fails_run[s] = 0 if not failed else fails_run.get(s, 0) + 1
            if not failed:
                clean[s] = True           # a successful contact: the failure record starts afresh
            if failed:
                if clean.get(s, True):
                    first_since_clean.add(s)
                clean[s] = False
                ever_failed.add(s)
                failed_contacts[s] = failed_contacts.get(s, 0) + 1
                if intervals[s] and intervals[s][-1] and t - intervals[s][-1][-1] > RT:
                    reprobe = True
                intervals[s][-1].append(t)
        # what may escape
        if exc is not None:
            if ie:
                V("escape-with-ignore_exc", "%r escaped %s(%r) although ignore_exc is set" % (exc, opn, key))
            own_error = any(exc is f for f in world["failing"].values()) or (env is not None and isinstance(exc, OSError) and bool(world["failing"]))
            if not (own_error or (isinstance(exc, MemcacheError) and "All servers" in str(exc))):
                V("internal-error", "%s(%r) raised %r, neither the failing server's error nor 'all servers down'" % (opn, key, exc))
        scan_order()
        rt = routes[r0:]
        for rot, k, node in rt:
            want = refhash.place(list(rot), k) if rot else None
            if node != want:
                V("routing", "routing decision for %r over rotation %r chose %r, placement gives %r" % (k, list(rot), node, want))
        if opn == "set_many_mixed":
            pass          # two keys, possibly two servers while one is out: only the bounds, routing and eviction rules apply
        elif opn in ("incr_text", "get_many_big"):
            pass          # several calls on one key / thousands of keys: the bounds, routing and eviction rules apply
        elif opn in ("get", "set", "delete", "incr"):
            if len(rt) != 1:
                V("routing-count", "%s(%r) made %d routing decisions" % (opn, key, len(rt)))
            if len(new) > 1:
                V("multi-contact", "%s(%r) contacted %r" % (opn, key, new))
            if new and name(new[0][1]) != rt[0][2]:
                V("contact-not-routed", "%s(%r) was routed to %r but contacted %r" % (opn, key, rt[0][2], name(new[0][1])))
            osrv = servers[names.index(owner[key])]
            if osrv not in ever_failed and (not new or new[0][1] != osrv):
                V("clean-owner-bypassed", "%s(%r): its owner %r never failed but was not contacted (contacts %r)" % (opn, key, owner[key], new))
        else:
            cs = [c[1] for c in new]
            if len(cs) != len(set(cs)):
                V("server-contacted-twice", "%s contacted a server twice in one call: %r" % (opn, new))
            if exc is None:
                for k, o in owner.items():
                    osrv = servers[names.index(o)]
                    if osrv not in ever_failed and osrv not in cs:
                        V("clean-owner-bypassed", "%s returned normally without contacting %r, which never failed and owns %r" % (opn, o, k))
        # eviction rules (rotation observed after the call, only for facts that cannot be in flux)
        rot_now = rotation(hc)
        for (t, s, failed) in new:
            if failed and ra >= 1 and s in first_since_clean and name(s) not in rot_now:
                V("evicted-on-first-failure", "%r was taken out of rotation by a single failure (its first since its last successful contact) although retry_attempts=%d" % (name(s), ra))
        for s in servers:
            # leaving the rotation takes the first failure plus retry_attempts failed retries since the server last answered
            # (the call that evicts may go on to contact the server: the run of failures is the one it found or the one it left)
            runlen = max(fails_before.get(s, 0), fails_run.get(s, 0))
            if name(s) in in_rot_before and name(s) not in rot_now and runlen < ra + 1:
                V("evicted-early", "%r was taken out of rotation after %d failed contact(s) in a row (since it last answered); retry_attempts=%d allows it after %d"
                  % (name(s), runlen, ra, ra + 1))
        in_rot_before = set(rot_now)
        for s in servers:
            if s not in ever_failed and name(s) not in rot_now:
                V("never-failed-out-of-rotation", "%r never failed but is out of rotation %r" % (name(s), rot_now))
            if name(s) not in rot_now:
                died.add(s)
            elif s in died:
                revived = True
    # probing bounds per continuous failing interval
    for s, ivs in intervals.items():
        for ts in ivs:
            for i, t in enumerate(ts):
                if len([u for u in ts[i:] if u - t <= RT]) > 2:
                    V("retry-window-bound", "failing server %r was contacted at %r: more than twice within a retry_timeout" % (name(s), ts))
                if len([u for u in ts[i:] if u - t <= DT]) > ra + 2:
                    V("dead-window-bound", "failing server %r was contacted at %r: more than retry_attempts+2 times within a dead_timeout" % (name(s), ts))
    # recovery
    world["failing"].clear()
    if env is not None:
        for srv in env.servers:
            srv.down = None
    hist.append(("heal-all",))
    step = case.get("recovery_step", 0.9)
    keys = sorted(owner)
    rec_op = case.get("recovery_op", "get")       # the traffic that has to bring the servers back: any key-addressed calls
    for i in range(int((2 * DT + 2) / step) + 2):
        clock.advance(step)
        exc = do(rec_op, keys[i % len(keys)])
        if exc is not None and (ie or not (isinstance(exc, MemcacheError) and "All servers" in str(exc))):
            V("exception-during-recovery", "with every server healthy, get raised %r" % (exc,))
    new, mark = _contacts_since(world, env, servers, mark)
    scan_order()
    if sorted(rotation(hc)) != sorted(names):
        V("not-recovered", "two dead_timeouts of traffic after every server healed the rotation is %r, not %r" % (rotation(hc), names))
    for k, o in sorted(owner.items()):
        exc = do("get", k)
        new, mark = _contacts_since(world, env, servers, mark)
        if exc is not None or [name(c[1]) for c in new] != [o]:
            V("post-recovery-placement", "after recovery get(%r) contacted %r (exception %r), its original owner is %r" % (k, [name(c[1]) for c in new], exc, o))
    if died and (revived or True):
        labels.add("evicted")
    if revived:
        labels.add("revived-during-history")
    if reprobe:
        labels.add("re-probed")
    nontrivial = bool(died) or reprobe
    return nontrivial, sorted(labels | {"ra=%d" % ra, "ie=%s" % ie, case.get("backend", "scripted")})


# ---- bounded-exhaustive -----------------------------------------------------------------

ALPHA = [["op", "get", 0], ["op", "get", 1], ["op", "set_many", 0], ["adv", 0.5], ["adv", 1.5], ["adv", 61], ["fail", 0, "refused"], ["heal", 0]]


def exhaustive_cases(tier, seed):
    depth = 5 if tier == "quick" else 7
    for ra in (0, 1, 2):
        for ie in (False, True):
            for d in range(1, depth + 1):
                for seq in itertools.product(range(len(ALPHA)), repeat=d):
                    # sequences without any failure are all alike: keep only those that contain a fail event
                    if 6 not in seq:
                        continue
                    yield {"servers": 2, "retry_attempts": ra, "ignore_exc": ie, "backend": "scripted", "recovery_step": 7,
                           "events": [ALPHA[i] for i in seq], "recovery_op": ("get", "set_many", "get_many")[(sum(seq) + d) % 3]}
    # a rotation of exactly one server (it can become empty), same alphabet without the second server's key
    alpha1 = [a for a in ALPHA if a != ["op", "get", 1]]
    for ra in (0, 1, 2):
        for ie in (False, True):
            for d in range(1, depth + 1):
                for seq in itertools.product(range(len(alpha1)), repeat=d):
                    if 5 not in seq:
                        continue
                    yield {"servers": 1, "retry_attempts": ra, "ignore_exc": ie, "backend": "scripted", "recovery_step": 7,
                           "events": [alpha1[i] for i in seq], "recovery_op": ("get", "set_many", "get_many")[(sum(seq) + d) % 3]}


BALPHA = [["op", "get", 0], ["op", "get", 1], ["op", "set_many", 0], ["adv", 1.5], ["adv", 61], ["fail", 0, "refused"], ["heal", 0], ["broadcast"]]


def broadcast_cases(tier, seed):
    """flush_all reaches every server the client knows - also one that is out of rotation - between the key-addressed calls:
    what it learns there (the server is still down) must not leave anything behind that takes the server out again once it
    is healthy and back, nor make a key's reads and writes part ways"""
    depth = 5 if tier == "quick" else 6
    for ra in (0, 1, 2):
        for ie in (False, True):
            for d in range(2, depth + 1):
                for seq in itertools.product(range(len(BALPHA)), repeat=d):
                    if 5 not in seq or 7 not in seq or seq.index(5) > seq.index(7):
                        continue
                    yield {"servers": 2 + (sum(seq) % 2), "retry_attempts": ra, "ignore_exc": ie, "backend": "scripted", "recovery_step": (7, 0.9, 13)[(sum(seq) + d) % 3],
                           "events": [BALPHA[i] for i in seq], "recovery_op": ("get", "set_many", "get_many")[(sum(seq) + d) % 3],
                           "hasher": "minimal" if sum(seq) % 5 == 0 else None}


GAPS = [0.5, 1.5, 61]


def probe_train_cases(tier, seed):
    """server 0 fails; then a train of (advance, operation) pairs with every combination of gaps below retry_timeout,
    above it, and above dead_timeout - the probing schedule explored systematically to depth 8 (thorough 9) - optionally
    with a heal part-way and more traffic"""
    depth = 7 if tier == "quick" else 9
    for ra in (0, 1, 2):
        for ie in (False, True):
            for n in range(1, depth + 1):
                for gaps in itertools.product(range(3), repeat=n):
                    for opn in (("get",), ("set_many",), ("set_many_mixed",))[(sum(gaps) + n) % 3]:
                        ev = [["fail", 0, ("refused", "timeout", "reset", "oserror")[(n + ra) % 4]], ["op", opn, 0]]
                        for g in gaps:
                            ev += [["adv", GAPS[g]], ["op", opn, 0]]
                        yield {"servers": 2 if (n + ra) % 4 else 1, "retry_attempts": ra, "ignore_exc": ie, "backend": "scripted", "recovery_step": 7, "events": ev,
                               "recovery_op": ("get", "set_many", "get_many")[(sum(gaps) + n) % 3], "hasher": "minimal" if (sum(gaps) + ra) % 2 else "subclass"}
                        if n <= 5:
                            # the same train with the server healing in the middle and failing again at the end
                            h = n // 2
                            ev2 = ev[:2 + 2 * h] + [["heal", 0]] + ev[2 + 2 * h:] + [["fail", 0, "refused"], ["op", opn, 0], ["adv", 1.5], ["op", opn, 0], ["op", opn, 0]]
                            yield {"servers": 2, "retry_attempts": ra, "ignore_exc": ie, "backend": "scripted", "recovery_step": 7, "events": ev2}


GRID = [0, 30, 50, 61, 90, 120, 122, 150, 182, 185]


def two_outage_cases(tier, seed):
    """three servers, two of them failing at different instants of a time grid whose gaps straddle dead_timeout (60) in
    several ways, traffic on every key at each chosen subset of the grid instants: overlapping outages, where one server
    is evicted while another is being brought back"""
    pts = range(len(GRID))
    for i in pts:
        for j in pts:
            if j <= i:
                continue
            rest = [p for p in pts if p not in (i, j)]
            for mask in range(1 << len(rest)):
                if tier == "quick" and (mask * 7 + i + j) % 4:
                    continue
                chosen = sorted([i, j] + [p for b, p in enumerate(rest) if mask >> b & 1])
                ev, now = [], 0
                for p in chosen:
                    if GRID[p] > now:
                        ev.append(["adv", GRID[p] - now])
                        now = GRID[p]
                    if p == i:
                        ev.append(["fail", 2, "refused"])
                    if p == j:
                        ev.append(["fail", 1, "timeout"])
                    order = (0, 1, 2) if (mask + p) % 2 else (1, 2, 0)
                    ev += [["op", "get" if (mask >> 1) % 3 else "set", si] for si in order]
                ra = (mask + i) % 3 if tier == "thorough" else (0 if (mask + j) % 3 else 1)
                yield {"servers": 3, "retry_attempts": ra, "ignore_exc": bool((mask + i + j) % 2), "backend": "scripted" if (mask + j) % 7 else "real", "recovery_step": 7,
                       "events": ev, "hasher": "minimal" if mask % 5 == 0 else "subclass", "addr_style": (mask + i) % 4}


def real_train_cases(tier, seed):
    """the probe trains over real Clients on the fake network, one per way a server can fail at the socket level"""
    depth = 3 if tier == "quick" else 5
    for kind in sorted(ERR):
        for ra in (0, 1, 2):
            for ie in (False, True):
                for n in range(1, depth + 1):
                    for gaps in itertools.product(range(3), repeat=n):
                        opn = ("get", "set", "incr", "get_many", "set_many_mixed", "incr_text")[(sum(gaps) + n + ra) % 6]
                        ev = [["fail", 0, kind], ["op", opn, 0]]
                        for g in gaps:
                            ev += [["adv", GAPS[g]], ["op", opn, 0]]
                        yield {"servers": 2 + (n + ra) % 2, "retry_attempts": ra, "ignore_exc": ie, "backend": "real", "recovery_step": 7, "events": ev,
                               "recovery_op": ("get", "set_many", "get_many")[(sum(gaps) + n) % 3], "aws": bool((sum(gaps) + n + ra + ie) % 2),
                               "dialect": ["hangup-after-error"] if (sum(gaps) + ra) % 2 else None}
    # one call with thousands of keys for a failing server
    for ra in (0, 1, 2):
        for ie in (False, True):
            for backend in ("scripted", "real"):
                for gaps in ((), (0,), (1,), (2, 1), (1, 2, 0)):
                    ev = [["fail", 0, "refused"], ["op", "get_many_big", 0]]
                    for g in gaps:
                        ev += [["adv", GAPS[g]], ["op", "get_many_big", 0]]
                    yield {"servers": 1, "retry_attempts": ra, "ignore_exc": ie, "backend": backend, "recovery_step": 7, "events": ev + [["heal", 0], ["adv", 61], ["op", "get_many_big", 0]]}
    # a healthy server that answers with error lines (and hangs up after each): it has not failed
    for ra in (0, 1, 2):
        for ie in (False, True):
            for ns_ in (1, 2):
                for dia in (None, ["hangup-after-error"]):
                    ev = [["op", "incr_text", 0], ["op", "get", 0], ["op", "incr_text", 0], ["adv", 0.5], ["op", "set", 0], ["op", "incr_text", 1 % ns_], ["op", "get_many", 0], ["adv", 1.5], ["op", "get", 0]]
                    yield {"servers": ns_, "retry_attempts": ra, "ignore_exc": ie, "backend": "real", "recovery_step": 7, "events": ev, "dialect": dia, "aws": bool(ra % 2)}


def lifecycle_train_cases(tier, seed):
    """probe trains with a close() / disconnect_all() of the HashClient inserted at every position"""
    depth = 4 if tier == "quick" else 6
    for ra in (0, 1, 2):
        for ie in (False, True):
            for n in range(1, depth + 1):
                for gaps in itertools.product(range(3), repeat=n):
                    opn = ("get", "set_many", "set", "get_many")[(sum(gaps) + n) % 4]
                    ev = [["fail", 0, ("refused", "timeout", "reset", "oserror")[(n + ra) % 4]], ["op", opn, 0]]
                    for g in gaps:
                        ev += [["adv", GAPS[g]], ["op", opn, 0]]
                    for pos in range(1, len(ev) + 1):
                        if tier == "quick" and n >= 3 and (pos + sum(gaps)) % 2:
                            continue
                        how = ("close", "disconnect_all")[(pos + n) % 2]
                        yield {"servers": 2 if (n + ra + pos) % 3 else 1, "retry_attempts": ra, "ignore_exc": ie, "backend": "scripted" if (pos + n) % 3 else "real", "recovery_step": 7,
                               "events": ev[:pos] + [[how]] + ev[pos:], "recovery_op": ("get", "set_many", "get_many")[(sum(gaps) + n + pos) % 3]}


def soak_cases(tier, seed):
    """a client that has lived through hundreds of outages: long event sequences (thousands of operations, failures, recoveries
    and clock advances), on both back-ends; every rule is judged at every step as in the short histories"""
    n = 1500 if tier == "quick" else 6000
    pool = [["op", "get", 0], ["op", "get", 1], ["op", "set", 0], ["op", "set_many", 0], ["op", "get_many", 1], ["op", "get", 2], ["adv", 0.5], ["adv", 1.5], ["adv", 61],
            ["fail", 0, "refused"], ["heal", 0], ["fail", 1, "timeout"], ["heal", 1], ["op", "incr", 0], ["op", "delete", 1], ["adv", 1.5], ["op", "get", 0], ["heal", 0]]
    for ra in (0, 1, 2):
        for ie in (False, True):
            for backend in ("scripted", "real"):
                x = (seed * 4099 + ra * 17 + ie * 5 + len(backend)) & 0x7FFFFFFF
                ev = []
                for i in range(n if backend == "scripted" else n // 4):
                    x = (x * 1103515245 + 12345) & 0x7FFFFFFF
                    ev.append(pool[(x >> 16) % len(pool)])
                yield {"servers": 3, "retry_attempts": ra, "ignore_exc": ie, "backend": backend, "recovery_step": 7, "events": ev, "aws": bool(ra == 1 and backend == "real")}


def minimise(case, still_fails):
    ev = ddmin_list(case["events"], lambda e: still_fails(dict(case, events=e)))
    return dict(case, events=ev)


def history_strategy(tier):
    opn = st.sampled_from(["get", "set", "delete", "incr", "get_many", "set_many", "set_many_mixed", "incr_text"])
    ev = st.one_of(
        st.tuples(st.just("op"), opn, st.integers(0, 2)).map(list),
        st.tuples(st.just("op"), opn, st.integers(0, 2)).map(list),
        st.tuples(st.just("adv"), st.sampled_from([0.5, 1.0, 1.5, 30, 60, 61, 121])).map(list),
        st.tuples(st.just("fail"), st.integers(0, 2), st.sampled_from(sorted(ERR))).map(list),
        st.tuples(st.just("heal"), st.integers(0, 2)).map(list))
    return st.fixed_dictionaries({"servers": st.sampled_from([1, 2, 2, 3]), "recovery_op": st.sampled_from(["get", "set_many", "get_many", "delete"]), "hasher": st.sampled_from(["subclass", "minimal"]), "retry_attempts": st.sampled_from([0, 1, 2]), "ignore_exc": st.booleans(),
                                  "backend": st.sampled_from(["scripted", "scripted", "real"]), "aws": st.booleans(), "addr_style": st.sampled_from([0, 0, 1, 2, 3]), "dialect": st.sampled_from([None, None, ["hangup-after-error"]]), "events": st.lists(ev, min_size=1, max_size=40)})


# ---- two users of one hash client --------------------------------------------------------------------------------------

def two_users_cases(tier, seed):
    for ra in (0, 1, 2):
        for ie in (False, True):
            for phase in ("healthy-then-fails", "retry-due", "budget-used-up", "given-up-and-back"):
                for opn in ("get", "set", "get_many", "set_many"):
                    for mask in ((0, 1, 2, 3, 5, 6, 10, 13) if tier == "quick" else range(32)):
                        yield {"retry_attempts": ra, "ignore_exc": ie, "phase": phase, "op": opn, "choices": [(mask >> b) & 1 for b in range(5)] + [1, 0, 0, 1, 1, 0, 1, 0, 0, 1] * 3}


def check_two_users(case):
    """two users of one HashClient(use_pooling=True) - threads, or tasks that switch at socket calls (connect, send, receive,
    close) - make a key-addressed call for the same server at the same time, while that server fails, is being retried, has
    used its retries up, or is back after having been given up: what escapes is the server's own error or 'all servers down',
    never an error of the bookkeeping, and nothing with ignore_exc; afterwards, healthy again, the rotation recovers"""
    from vlib import interleave
    ra, ie, phase, opn = case["retry_attempts"], case["ignore_exc"], case["phase"], case["op"]
    servers = [("s0", 11211), ("s1", 11211)]
    names = [name(s) for s in servers]
    key = next(k for k, n in owned_keys(names).items() if n == names[0])
    clock = Clock(1000)
    saved = H.time
    H.time = _T(clock)
    desc = "two users at once: %s for a key of %s; retry_attempts %d, ignore_exc %r, phase %s, hand-over pattern %r" % (opn, names[0], ra, ie, phase, case["choices"][:5])
    try:
        env = Env(addrs=servers)
        env.clock = clock
        env.net.restarts_kill_connections = True      # an outage is a server process that died: the connections it had stay dead
        for s in env.servers:
            s.clock = clock
        hc = HashClient(servers, use_pooling=True, max_pool_size=4, socket_module=env.net, retry_attempts=ra, retry_timeout=RT, dead_timeout=DT, ignore_exc=ie,
                        default_noreply=False)

        def one():
            if opn == "get":
                return hc.get(key)
            if opn == "set":
                return hc.set(key, b"v")
            if opn == "get_many":
                return hc.get_many([key, "zz"])
            return hc.set_many({key: b"v"})
        # four connections sit idle in the failing server's pool (earlier overlapping use), more than the calls below use up
        interleave.run(env.net, [one, one, one, one], choices=[1] * 24)
        srv = env.servers[0]

        def quiet():
            try:
                one()
            except Exception:  # noqa: BLE001
                pass
        if phase != "healthy-then-fails":
            srv.down = "refused"
            quiet()
            if phase in ("budget-used-up", "given-up-and-back"):
                for _ in range(ra + (1 if phase == "given-up-and-back" else 0)):
                    clock.advance(RT + 0.5)
                    quiet()
            clock.advance(RT + 0.5)
            if phase == "given-up-and-back":
                srv.down = None
                clock.advance(DT + 1)
            elif phase == "retry-due":
                srv.down = None
        else:
            srv.down = "reset-recv"
        def twice():
            # each user makes two calls in a row (the second starts while the other user's first may be in the middle of anything)
            errs = []
            for _ in range(2):
                try:
                    one()
                except Exception as e:  # noqa: BLE001
                    errs.append(e)
            if errs:
                raise errs[0] if not [x for x in errs if not isinstance(x, (OSError, MemcacheError))] else [x for x in errs if not isinstance(x, (OSError, MemcacheError))][0]
        out, sc = interleave.run(env.net, [twice, twice], choices=case["choices"], kinds=("connect", "sendall", "recv", "close"))
        for u, r in enumerate(out):
            if r[0] == "exc":
                e = r[1]
                if phase == "given-up-and-back":
                    # the server is healthy again and its dead_timeout is over: it comes back with a client of its own, none of the
                    # connections that died with the outage is used again - no call fails
                    raise Violation(["two-users", "error-after-revival", type(e).__name__], "the server is healthy and due back, yet user %d's call raised %r: %s" % (u, e, desc))
                if ie:
                    raise Violation(["two-users", "escaped-with-ignore_exc", type(e).__name__], "user %d's call raised %r: %s" % (u, e, desc))
                if not isinstance(e, (OSError, MemcacheError)):
                    raise Violation(["two-users", "bookkeeping-error", type(e).__name__], "user %d's call raised %r, neither the failing server's error nor 'all servers down': %s" % (u, e, desc))
        # recovery: everything healthy, two dead_timeouts of traffic
        srv.down = None
        for _ in range(4):
            clock.advance(DT / 2 + 1)
            quiet()
            try:
                hc.get("zz")
            except Exception:  # noqa: BLE001
                pass
        if sorted(hc.hasher.nodes) != sorted(names):
            raise Violation(["two-users", "no-recovery"], "two dead_timeouts of traffic after the server healed the rotation is %r, not %r: %s" % (sorted(hc.hasher.nodes), sorted(names), desc))
        hc.close()
        if env.net.open_sockets():
            raise Violation(["two-users", "socket-left-open"], "sockets left open after close(): %s" % desc)
    finally:
        H.time = saved
    return sc.switches > 0, ["two-users", phase, "ra=%d" % ra, "ie=%s" % ie]


def late_eviction_cases(tier, seed):
    """a server uses its retry budget up during an outage and is still in rotation when everything heals (it is given up at the
    next access, healthy or not); a second server is given up at another moment; then traffic of different densities (a call
    every 0.9 ... 29 s): placement is back within two dead_timeouts (D26)"""
    for nsrv in (2, 3):
        for ra in (0, 1, 2):
            for gaps in ((30, 20), (2, 2), (61, 61), (59, 3)):
                for second in (None, "before", "after"):
                    for step in (0.9, 3, 7, 13, 29):
                        for kind in ("refused", "timeout"):
                            ev = [["fail", nsrv - 1, kind], ["op", "get", nsrv - 1]]
                            for g in (list(gaps) * 2)[:ra]:
                                ev += [["adv", g], ["op", "get", nsrv - 1]]
                            if second and nsrv > 2:
                                ev2 = [["fail", 1, "oserror"], ["op", "get", 1], ["op", "get", nsrv - 1], ["adv", 61], ["op", "get", 1], ["op", "get", nsrv - 1], ["adv", 60], ["op", "get", 1], ["op", "get", nsrv - 1]]
                                ev = ev + ev2 if second == "after" else ev2[:5] + ev + ev2[5:]
                            elif second:
                                continue
                            yield {"servers": nsrv, "retry_attempts": ra, "ignore_exc": bool((ra + nsrv) % 2) and step > 5, "backend": "scripted", "recovery_step": step,
                                   "events": ev, "hasher": "subclass", "addr_style": (ra + nsrv) % 4}


PARTS = [
    Part("given-up-late", "enum", check, cases=late_eviction_cases, exhaustive=True, minimise=minimise),
    Part("broadcasts-in-between", "enum", check, cases=broadcast_cases, exhaustive=True, minimise=minimise, distinct_by_construction=True),
    Part("two-users-at-once", "enum", check_two_users, cases=two_users_cases, exhaustive=True),
    Part("long-lives", "enum", check, cases=soak_cases, shards={"quick": 12, "thorough": 12}, minimise=minimise),
    Part("exhaustive-depth", "enum", check, cases=exhaustive_cases, exhaustive=True, minimise=minimise, distinct_by_construction=True),
    Part("probe-trains", "enum", check, cases=probe_train_cases, exhaustive=True, minimise=minimise, distinct_by_construction=True),
    Part("real-probe-trains", "enum", check, cases=real_train_cases, exhaustive=True, minimise=minimise, distinct_by_construction=True),
    Part("close-in-between", "enum", check, cases=lifecycle_train_cases, exhaustive=True, minimise=minimise, distinct_by_construction=True),
    Part("two-outages", "enum", check, cases=two_outage_cases, exhaustive=True, minimise=minimise, distinct_by_construction=True),
    Part("random-histories", "hyp", check, strategy=history_strategy,
         examples={"quick": 150, "thorough": 8000}, shards={"quick": 6, "thorough": 16}),
]


def selftest():
    refhash.selftest()

"""C15 - serializers round-trip every value with its exact type."""
import bz2
import datetime
import decimal
import hashlib
import lzma
import math
import zlib

from hypothesis import strategies as st

from vlib.runner import Part, Violation

from pymemcache import serde as S

PROPERTY = "C15"
LEVEL = "exploration"
# parts repeated in a child interpreter started with -O and with warnings turned into errors (vlib/runner.py, MODES)
MODE_PARTS = {"OW": ['grid', 'one-serializer-object', 'written-by-one-read-by-another']}
RULE = ("case = (serde configuration, value description). Values: a recursive Hypothesis strategy over bytes, str, "
        "int (either sign, up to 4000 digits, digit counts straddling every threshold), bool, None, float (no NaN), bytearray, bytes that are themselves a complete zlib / bz2 / lzma / gzip stream or a pickle (data the application packed itself), text beginning with U+FEFF / U+FFFE / NUL, "
        "complex, Decimal, datetime, tuple/list/dict/set/frozenset, and module-level subclasses of int/str/bytes/"
        "list/dict with and without attributes; payload sizes straddling each threshold; incompressible bytes. "
        "Configurations: PickleSerde(p) p=0..5; CompressedSerde x min_compress_len {0,1,10,400} x codec {zlib,bz2,"
        "lzma,identity,expanding} x inner PickleSerde(p); LegacyWrappingSerde with the python-memcache functions. "
        "A systematic grid (every leaf kind x every configuration x sizes at threshold-1/threshold/threshold+1) is "
        "enumerated as well. Oracle: deserialize(key, wire(payload), flags) is equal to the value with type() "
        "identical at every level, where wire() is what the client does to a non-bytes payload "
        "(str(x).encode('ascii')); payload is bytes or ASCII str; 0 <= flags < 2^16; compressed flag set iff the "
        "stored form is the codec's output for the inner payload and decompresses to it; stored form never longer "
        "than the inner payload; min_compress_len=0 never compresses; a PickleSerde(p) pickle uses no opcode newer than protocol p. Non-trivial: the value is not plain bytes/str, "
        "or its inner payload is longer than the threshold. Graph-shaped values (a list / dict that contains itself, a child pointing back at its parent, one object reached twice) are part of the grid and compared as graphs. Sequences: several values through ONE serializer object (also the module-level pickle_serde / compressed_serde singletons), first one after the other and then all serialized before any is deserialized; the sequences contain 'twins' - values of different types whose serialized payload is byte-identical (a str and its bytes, an int and its digits, an object and its own pickle kept as bytes) - in every order, at sizes around every threshold; and values that cannot be pickled (a lambda after 0 ... 300 000 bytes of picklable members), whose serialization fails part-way, followed by ordinary values through the same object. Written by one, read by another: an item serialized through CompressedSerde(threshold w) is deserialized through a second object with the same codec and inner serializer and threshold r in {0, 1, 10, 400, 10**9, inf, 0.0, False} (also the module-level objects): the value read must equal the value written. CompressedSerde may wrap an application serializer that stores nothing verbatim; a value may serialize another value through the same serializer object while it is being pickled; every stored item is read back twice and the first result changed - the second reading is another object and still equal to what was stored. A counter stored through a serializer and rewritten in place by the server (padded with blanks when it got shorter) reads back as the number. A class that cannot be found while an item is read (the result is None then) and is found again later: the item then reads as stored."
        + ' Values of 17 MiB (thorough also 33 MiB) through the compressing serializers in default and explicit configurations.')
MANIFEST = {
    "category": "exploration",
    "technique": "Hypothesis recursive value generation + enumerated grid of (leaf kind x serde configuration x threshold-straddling sizes); round-trip oracle through the client's own wire encoding, plus flag/size invariants for the compressed serializer",
    "text": "Each generated value is serialized, pushed through exactly the transformation Client applies before sending (str(payload).encode(encoding) for non-bytes payloads) and deserialized; equality and exact type are compared at every nesting level, and the compressed serializer's flag/size contract is checked against the codec directly. Random exploration with a systematic grid for the threshold boundaries; the serializers are small and type-dispatching, so generated values of every dispatched type at sizes around each threshold exercise every branch.",
    "note": "NaN, lone surrogates and integers beyond CPython's 4300-digit text limit are outside the domain; custom classes are module-level (picklable by reference).",
    "design_ref": "DESIGN.md 3/C15",
}
ASSUMPTIONS = [
    "values are picklable and, where floats occur, not NaN (NaN != NaN makes equality meaningless)",
    "the client's transformation of a non-bytes payload is str(payload).encode(encoding) with an ASCII-compatible encoding",
]


class MyInt(int):
    pass


class MyStr(str):
    pass


class MyBytes(bytes):
    pass


class MyList(list):
    pass


class MyDict(dict):
    pass


class Nesting:
    """a value whose pickling runs application code (__getstate__) that serializes ANOTHER value through the same serializer
    object - a lazily computed attribute looked up in the same cache, a logging hook; what the check installs in `hook` is
    called with that other value"""
    hook = None

    def __init__(self, payload, other):
        self.payload = payload
        self.other = other

    def __getstate__(self):
        if Nesting.hook is not None:
            Nesting.hook(self.other)
        return {"payload": self.payload, "other": self.other}

    def __eq__(self, o):
        return type(o) is Nesting and same(self.payload, o.payload) and same(self.other, o.other)

    __hash__ = None


SUBS = {"MyInt": MyInt, "MyStr": MyStr, "MyBytes": MyBytes, "MyList": MyList, "MyDict": MyDict}

CODECS = {
    "zlib": (zlib.compress, zlib.decompress),
    "bz2": (bz2.compress, bz2.decompress),
    "lzma": (lzma.compress, lzma.decompress),
    "identity": (lambda b: bytes(b), lambda b: bytes(b)),
    "expanding": (lambda b: b"\x01\x02" + bytes(b) + b"\x03", lambda b: bytes(b)[2:-1]),
}


def noise(n, salt=0):
    out = b""
    i = 0
    while len(out) < n:
        out += hashlib.sha256(b"%d:%d" % (salt, i)).digest()
        i += 1
    return out[:n]


def build(d):
    """value description -> value"""
    t = d[0]
    if t in ("bytes", "str", "int", "bool", "float"):
        return d[1]
    if t == "none":
        return None
    if t == "noise":
        return noise(d[1], d[2])
    if t == "repeat":
        # ("repeat", unit, count[, "str" | "list"]): a very large value that compresses well
        v = d[1] * d[2]
        if len(d) > 3 and d[3] == "list":
            return [v, len(v)]
        return v
    if t == "bigint":
        digits, lead, sign = d[1], d[2], d[3]
        return sign * int(str(lead) + "7" * (digits - 1))
    if t == "complex":
        return complex(d[1], d[2])
    if t == "decimal":
        return decimal.Decimal(d[1])
    if t == "datetime":
        return datetime.datetime(*d[1])
    if t == "list":
        return [build(x) for x in d[1]]
    if t == "tuple":
        return tuple(build(x) for x in d[1])
    if t == "set":
        return set(build(x) for x in d[1])
    if t == "frozenset":
        return frozenset(build(x) for x in d[1])
    if t == "dict":
        return {build(k): build(v) for k, v in d[1]}
    if t == "bytearray":
        return bytearray(d[1])
    if t == "unpicklable":
        # a container whose LAST member cannot be pickled (a lambda), after d[1] bytes of picklable members: serializing it
        # fails part-way - outside the domain itself, but the values that come after it through the same serializer are not
        return [b"u" * d[1], {"k": "v" * 50}, lambda: None]
    if t == "packed":
        # bytes that the application compressed (or pickled) itself: a complete zlib / bz2 / lzma / gzip stream or a pickle,
        # optionally followed by more bytes - to the cache it is just bytes
        import gzip
        raw = build(d[2]) if isinstance(d[2], tuple) else d[2]
        raw = raw if isinstance(raw, bytes) else repr(raw).encode()
        packed = {"zlib": zlib.compress, "bz2": bz2.compress, "lzma": lzma.compress, "gzip": lambda b: gzip.compress(b, mtime=0),
                  "pickle": lambda b: __import__("pickle").dumps(b, 2)}[d[1]](raw)
        return packed + (d[3] if len(d) > 3 else b"")
    if t == "payload-of":
        # a bytes value that is byte-for-byte the serialized form of another value (same payload, different type)
        pl, _f = S.PickleSerde(d[2]).serialize("key", build(d[1]))
        return wire(pl)
    if t == "cyclic-list":
        v = [build(x) for x in d[1]]
        v.append(v)
        return v
    if t == "cyclic-dict":
        v = {build(k): build(x) for k, x in d[1]}
        v["self"] = v
        return v
    if t == "back-pointer":
        # (plain containers: pickle protocols 0 and 1 cannot pickle a cycle that runs through a list/dict SUBCLASS)
        parent = [build(x) for x in d[1]]
        child = {"parent": parent, "siblings": [parent, parent]}
        parent.append(child)
        return parent
    if t == "shared":
        x = build(d[1])
        return [x, x, {"again": x}]
    if t == "nesting":
        return Nesting(build(d[1]), build(d[2]))
    if t == "sub":
        v = SUBS[d[1]](build(d[2]))
        if d[3] is not None and d[1] in ("MyList", "MyDict"):
            v.note = d[3]
        return v
    raise ValueError(t)


def same(a, b, _open=None):
    """equal, with identical types at every level; values that contain themselves are compared as graphs (a pair of
    containers already being compared is taken as equal - the comparison of their remaining parts decides)"""
    if type(a) is not type(b):
        return False
    if isinstance(a, (list, dict)):
        _open = _open if _open is not None else set()
        if (id(a), id(b)) in _open:
            return True
        _open = _open | {(id(a), id(b))}
    if isinstance(a, (list, tuple)):
        return (len(a) == len(b) and all(same(x, y, _open) for x, y in zip(a, b))
                and _same_attrs(a, b, _open))
    if isinstance(a, dict):
        return (len(a) == len(b) and all(k in b and same(v, b[k], _open) for k, v in a.items())
                and all(any(same(k, k2) for k2 in b if k2 == k) for k in a)
                and _same_attrs(a, b, _open))
    if isinstance(a, (set, frozenset)):
        return a == b and all(any(same(x, y) for y in b if y == x) for x in a)
    if isinstance(a, float):
        return a == b and math.copysign(1.0, a) == math.copysign(1.0, b)
    if isinstance(a, complex):
        return same(a.real, b.real) and same(a.imag, b.imag)
    return a == b


def _same_attrs(a, b, _open):
    da, db = getattr(a, "__dict__", None), getattr(b, "__dict__", None)
    if da is None or db is None:
        return da is db
    return sorted(da) == sorted(db) and all(same(da[k], db[k], _open) for k in da)


class VersionedSerde(S.PickleSerde):
    """a serializer of the application's own, built on PickleSerde: every stored payload - bytes included - carries a
    one-byte schema version in front (so nothing is stored verbatim)"""

    def serialize(self, key, value):
        payload, flags = super().serialize(key, value)
        if isinstance(payload, str):
            payload = payload.encode("ascii")
        return b"\x01" + payload, flags

    def deserialize(self, key, value, flags):
        if value[:1] != b"\x01":
            raise ValueError("payload without the schema version: %r" % value[:20])
        return super().deserialize(key, value[1:], flags)


def make_serde(cfg):
    t = cfg[0]
    if t == "versioned":
        return VersionedSerde(cfg[1]) if cfg[1] is not None else VersionedSerde()
    if t == "pickle":
        return S.PickleSerde(cfg[1]) if cfg[1] is not None else S.PickleSerde()
    if t == "legacy-pm":
        return S.LegacyWrappingSerde(S.python_memcache_serializer, S.python_memcache_deserializer)
    if t == "legacy-pm-version":
        return S.LegacyWrappingSerde(S.get_python_memcache_serializer(cfg[1]), S.python_memcache_deserializer)
    if t == "default-compressed":
        return S.CompressedSerde()
    if t == "module-compressed":
        return S.compressed_serde
    if t == "module-pickle":
        return S.pickle_serde
    if t == "compressed":
        comp, decomp = CODECS[cfg[1]]
        return S.CompressedSerde(compress=comp, decompress=decomp, serde=make_serde(cfg[3]), min_compress_len=cfg[2])
    raise ValueError(t)


def wire(payload, encoding="ascii"):
    if isinstance(payload, bytes):
        return payload
    return str(payload).encode(encoding)


def check(case):
    cfg, desc = case
    return _check_one(make_serde(cfg), cfg, build(desc))


def check_sequence(case):
    """several values through ONE serializer object, first one after the other, then all serialized before any is
    deserialized: what the object did for an earlier value must not leak into a later one"""
    cfg, descs = case
    sd = make_serde(cfg)
    vals = [build(d) for d in descs]
    nt, labels = False, set()
    # values that cannot be serialized at all fail (with whatever pickle raises) and are then left out: what matters is that
    # the serializer object is none the worse for it
    ok_vals = []
    for d, v in zip(descs, vals):
        if d[0] == "unpicklable":
            for _ in range(2):
                try:
                    sd.serialize("key", v)
                except Exception:  # noqa: BLE001
                    labels.add("after-a-failed-serialize")
            continue
        ok_vals.append(v)
        a, b = _check_one(sd, cfg, v, " (value %d of the sequence %s through one serializer object)" % (len(ok_vals) - 1, _short([x for x in ok_vals])))
        nt, labels = nt or a, labels | set(b)
    vals = ok_vals
    stored = [sd.serialize("key", v) for v in vals]
    for v, (pl, fl) in zip(vals, stored):
        back = sd.deserialize("key", wire(pl), fl)
        if not same(v, back):
            raise Violation(["round-trip", "sequence", type(v).__name__, cfg[0]], "serialized in a row through one serializer object, %s came back as %s (%s): sequence %s on %r"
                            % (_short(v), _short(back), type(back).__name__, _short(vals), cfg))
    twins = len({bytes(wire(pl)) for pl, _f in stored}) < len(stored) and len({type(v) for v in vals}) > 1
    return nt and len(vals) > 1, sorted(labels | {"sequence"} | ({"same-payload-different-type"} if twins else set()))


class LateClass:
    """instances are stored while the class is known; for a while it is not (its module is half-way through an import, a plug-in
    is not loaded yet); then it is again"""

    def __init__(self, n):
        self.n = n

    def __eq__(self, o):
        return type(o) is type(self) and o.n == self.n

    __hash__ = None


def late_class_cases(tier, seed):
    cfgs = [("pickle", 0), ("pickle", 2), ("pickle", 5), ("pickle", None), ("default-compressed",), ("module-pickle",), ("module-compressed",), ("legacy-pm",),
            ("compressed", "zlib", 1, ("pickle", 2)), ("compressed", "bz2", 400, ("pickle", 5))]
    for cfg in cfgs:
        for times in (1, 3):
            yield (cfg, times)


def check_late_class(case):
    import sys
    cfg, times = case
    sd = make_serde(cfg)
    mod = sys.modules[LateClass.__module__]
    v = [LateClass(7), {"k": LateClass(8)}]
    payload, flags = sd.serialize("key", v)
    w = wire(payload)
    what = "%r: a value holding instances of a class that cannot be found for a while" % (cfg,)
    saved = mod.LateClass
    try:
        del mod.LateClass
        for _ in range(times):
            try:
                sd.deserialize("key", w, flags)          # (documented: the unpickling error is logged, the result is None)
            except Exception:  # noqa: BLE001
                pass
    finally:
        mod.LateClass = saved
    try:
        back = sd.deserialize("key", w, flags)
    except Exception as e:  # noqa: BLE001
        raise Violation(["late-class", "deserialize-raises", type(e).__name__], "with the class available again deserialize raised %r: %s" % (e, what))
    if not same(v, back):
        raise Violation(["late-class", "round-trip"], "with the class available again the item reads %s: %s" % (_short(back), what))
    return True, ["late-class", cfg[0]]


def counter_cases(tier, seed):
    """a counter stored through the serializer and rewritten in place by the server: memcached's decr pads a number that got
    shorter with blanks up to the old length (10 -> '9 ', 1000 -> '999 ')"""
    cfgs = [("pickle", 0), ("pickle", 5), ("pickle", None), ("default-compressed",), ("module-pickle",), ("module-compressed",), ("legacy-pm",), ("compressed", "zlib", 400, ("pickle", 2)), ("versioned", 2)]
    for cfg in cfgs:
        for start in (10, 100, 1000, 10 ** 19, 2 ** 64 - 1, 7, 1):
            for delta in (1, start // 2 + 1, start):
                yield (cfg, start, delta)


def check_counter(case):
    cfg, start, delta = case
    if cfg[0] == "versioned":
        return False, ["n/a"]            # (nothing is stored as a bare number there)
    sd = make_serde(cfg)
    payload, flags = sd.serialize("key", start)
    w = wire(payload)
    if not w.isdigit():
        return False, ["not-stored-as-a-number"]
    new = max(0, start - delta)
    rendered = b"%d" % new
    rewritten = rendered + b" " * max(0, len(w) - len(rendered))
    what = "%r: %d stored as %r (flags %d), decremented by %d, the server now holds %r" % (cfg, start, w, flags, delta, rewritten)
    try:
        back = sd.deserialize("key", rewritten, flags)
    except Exception as e:  # noqa: BLE001
        raise Violation(["counter", "deserialize-raises", type(e).__name__], "deserialize raised %r: %s" % (e, what))
    if type(back) is not int or back != new:
        raise Violation(["counter", "value"], "read back as %r (%s), the counter is %d: %s" % (back, type(back).__name__, new, what))
    return len(rewritten) > len(rendered), ["counter", "padded" if len(rewritten) > len(rendered) else "same-length"]


def check_cross(case):
    """an item stored through one CompressedSerde is read through another one with the same codec and inner serializer but
    another threshold (or by the inner serializer's flags alone when it was stored plain): what is read does not depend on
    the reader's threshold - the flags say how the item was stored"""
    wcfg, rcfg, desc = case
    v = build(desc)
    w, r = make_serde(wcfg), make_serde(rcfg)
    what = "written by %r, read by %r: %s" % (wcfg, rcfg, _short(v))
    try:
        payload, flags = w.serialize("key", v)
    except Exception as e:  # noqa: BLE001
        raise Violation(["serialize-raises", type(e).__name__, wcfg[0]], "serialize raised %r: %s" % (e, what))
    try:
        back = r.deserialize("key", wire(payload), flags)
    except Exception as e:  # noqa: BLE001
        raise Violation(["cross-reader", "deserialize-raises", type(e).__name__], "deserialize raised %r: %s" % (e, what))
    if not same(v, back):
        raise Violation(["cross-reader", "round-trip", type(v).__name__], "read back as %s (%s): %s" % (_short(back), type(back).__name__, what))
    compressed = bool(flags & S.FLAG_COMPRESSED)
    return compressed or type(v) not in (bytes, str), ["cross-reader", "stored-compressed" if compressed else "stored-plain", "reader-threshold=%s" % (rcfg[2] if rcfg[0] == "compressed" else rcfg[0])]


CROSS_THRESHOLDS = [0, 1, 10, 400, 10 ** 9, float("inf"), 0.0, False]


def cross_cases(tier, seed):
    values = []
    for n in (0, 1, 11, 12, 401, 1200):
        values += [("bytes", b"a" * n), ("noise", n, 1), ("str", "x" * n), ("bigint", max(1, n), 1, 1), ("list", [("int", 1)] * (n // 4))]
    values += [("int", 0), ("bool", True), ("none",), ("float", 0.5), ("dict", [[("str", "k"), ("bytes", b"v" * 500)]]), ("sub", "MyStr", ("str", "s" * 500), None),
               ("packed", "zlib", b"z" * 2000), ("bytearray", b"z" * 401), ("str", "\ufeff" + "y" * 450), ("shared", ("bytes", b"z" * 450))]
    for codec in ("zlib", "bz2") if tier == "quick" else sorted(CODECS):
        for p in (0, 5):
            for wl in (1, 10, 400):
                for rl in CROSS_THRESHOLDS:
                    for v in values:
                        yield (("compressed", codec, wl, ("pickle", p)), ("compressed", codec, rl, ("pickle", p)), v)
    for rl in CROSS_THRESHOLDS:
        for v in values:
            yield (("default-compressed",), ("compressed", "zlib", rl, ("pickle", None)), v)
            yield (("compressed", "zlib", rl, ("pickle", None)), ("module-compressed",), v)
            yield (("module-pickle",), ("compressed", "zlib", rl, ("pickle", None)), v)


def cross_strategy(tier):
    codec = st.sampled_from(sorted(CODECS))
    proto = st.one_of(st.integers(0, 5), st.none())
    return st.builds(lambda c, p, wl, rl, v: (("compressed", c, wl, ("pickle", p)), ("compressed", c, rl, ("pickle", p)), v),
                     codec, proto, st.sampled_from([0, 1, 10, 400]), st.sampled_from(CROSS_THRESHOLDS), value_strategy())


def _check_one(sd, cfg, v, ctx=""):
    what = "%r on %s%s" % (cfg, _short(v), ctx)
    # (a value of the Nesting kind serializes another value through the same serializer object while it is being pickled)
    Nesting.hook = lambda other: sd.serialize("another-key", other)
    try:
        return _check_one_(sd, cfg, v, ctx, what)
    finally:
        Nesting.hook = None


def _check_one_(sd, cfg, v, ctx, what):
    try:
        payload, flags = sd.serialize("key", v)
    except Exception as e:  # noqa: BLE001
        raise Violation(["serialize-raises", type(e).__name__, cfg[0]], "serialize raised %r: %s" % (e, what))
    if isinstance(payload, str):
        if not payload.isascii():
            raise Violation(["payload-not-ascii"], "str payload is not ASCII: %s" % what)
    elif not isinstance(payload, bytes):
        raise Violation(["payload-type", type(payload).__name__], "payload is %s, neither bytes nor str: %s" % (type(payload).__name__, what))
    if type(flags) is not int or not (0 <= flags < 2 ** 16):
        raise Violation(["flags-range"], "flags %r outside 16 bits: %s" % (flags, what))
    w = wire(payload)
    try:
        back = sd.deserialize("key", w, flags)
    except Exception as e:  # noqa: BLE001
        raise Violation(["deserialize-raises", type(e).__name__, cfg[0]], "deserialize raised %r: %s" % (e, what))
    if not same(v, back):
        raise Violation(["round-trip", type(v).__name__, cfg[0]], "round trip gave %s (%s), expected %s: %s"
                        % (_short(back), type(back).__name__, type(v).__name__, what))
    # what comes back belongs to the caller: reading the same stored item again gives another object (for anything that can be
    # changed in place), still equal to what was stored after the caller has changed the first one
    if isinstance(back, (list, dict, set, bytearray)) or hasattr(back, "__dict__"):
        again = sd.deserialize("key", w, flags)
        if again is back:
            raise Violation(["result-handed-out-twice", type(v).__name__, cfg[0]], "deserializing the same item twice returned the very same %s object: %s" % (type(back).__name__, what))
        if isinstance(back, list):
            back.append("changed by the caller")
        elif isinstance(back, dict):
            back["changed by the caller"] = 1
        elif isinstance(back, (set, bytearray)):
            back.clear()
        third = sd.deserialize("key", w, flags)
        if not same(v, third):
            raise Violation(["result-changed-later", type(v).__name__, cfg[0]], "after the caller changed the first result, the same item reads %s: %s" % (_short(third), what))
    labels = [cfg[0], type(v).__name__]
    proto = cfg[1] if cfg[0] in ("pickle", "legacy-pm-version") else None
    if proto is not None and flags & S.FLAG_PICKLE and isinstance(payload, bytes):
        import pickletools
        used = max((op.proto for op, _a, _p in pickletools.genops(payload)), default=0)
        if used > proto:
            raise Violation(["pickle-protocol"], "PickleSerde(%d) produced a pickle needing protocol %d: %s" % (proto, used, what))
    over = False
    if cfg[0] in ("compressed", "default-compressed", "module-compressed"):
        if cfg[0] == "compressed":
            comp, decomp = CODECS[cfg[1]]
            minlen = cfg[2]
            inner = make_serde(cfg[3])
        else:
            comp, decomp, minlen, inner = zlib.compress, zlib.decompress, 400, S.pickle_serde
        ipayload, iflags = inner.serialize("key", v)
        iw = wire(ipayload)
        over = len(iw) > minlen > 0
        if flags & ~S.FLAG_COMPRESSED != iflags:
            raise Violation(["compressed-inner-flags"], "flags %r do not preserve the inner flags %r: %s" % (flags, iflags, what))
        if flags & S.FLAG_COMPRESSED:
            labels.append("compressed")
            if decomp(w) != iw:
                raise Violation(["compressed-flag-form"], "flagged compressed but the payload does not decompress to the inner payload: %s" % what)
            if minlen == 0:
                raise Violation(["compressed-threshold-0"], "min_compress_len=0 compressed a value: %s" % what)
        else:
            labels.append("stored-plain")
            if w != iw:
                raise Violation(["compressed-flag-form"], "not flagged compressed but the payload differs from the inner payload: %s" % what)
        if len(w) > len(iw):
            raise Violation(["compressed-larger"], "stored form (%d bytes) larger than the uncompressed one (%d): %s" % (len(w), len(iw), what))
        if over:
            labels.append("over-threshold")
    nontrivial = type(v) not in (bytes, str) or over
    return nontrivial, labels


def _short(v):
    try:
        r = repr(v)
    except RecursionError:
        r = "<deeply nested %s>" % type(v).__name__
    return r if len(r) < 120 else r[:60] + "...(%d chars)" % len(r)


# ---- strategies -------------------------------------------------------------

THRESH = [0, 1, 9, 10, 11, 399, 400, 401, 1000]


def value_strategy():
    sizes = st.one_of(st.sampled_from(THRESH), st.integers(0, 60))
    b = st.one_of(st.binary(max_size=40), sizes.flatmap(lambda n: st.binary(min_size=n, max_size=n)),
                  st.tuples(st.just("noise"), st.sampled_from(THRESH + [450, 5000]), st.integers(0, 5)))
    packed = st.tuples(st.just("packed"), st.sampled_from(["zlib", "bz2", "lzma", "gzip", "pickle"]), st.one_of(st.binary(max_size=30), st.sampled_from(THRESH).map(lambda n: b"p" * n)),
                       st.sampled_from([b"", b"", b"trailing", b"\x00"]))
    leaf_bytes = st.one_of(b.map(lambda x: x if isinstance(x, tuple) else ("bytes", x)), packed,
                           st.one_of(st.binary(max_size=40), sizes.flatmap(lambda n: st.binary(min_size=n, max_size=n))).map(lambda x: ("bytearray", x)))
    # (text beginning with U+FEFF, U+FFFE or other characters a codec might treat specially is text like any other)
    special = st.sampled_from(["\ufeff", "\ufffe", "\ufeff\ufeff", "\x00", "\ud7ff", "\U0010ffff", "\xef\xbb\xbf", "\u2028", "\r\n"])
    leaf_str = st.one_of(st.text(max_size=30), sizes.flatmap(lambda n: st.text(min_size=n, max_size=n)),
                         st.tuples(special, st.text(max_size=12), st.sampled_from(["", "\ufeff", "\n"])).map("".join)).map(lambda s: ("str", s))
    leaf_int = st.one_of(
        st.integers(-2 ** 70, 2 ** 70).map(lambda i: ("int", i)),
        st.sampled_from([0, 1, -1, 2 ** 31, 2 ** 63, -2 ** 63, 2 ** 64]).map(lambda i: ("int", i)),
        st.tuples(st.just("bigint"), st.one_of(st.sampled_from([9, 10, 11, 12, 399, 400, 401, 402, 1000, 4000]), st.integers(1, 450)),
                  st.integers(1, 9), st.sampled_from([1, -1])))
    leaf_other = st.one_of(
        st.booleans().map(lambda x: ("bool", x)), st.just(("none",)),
        st.floats(allow_nan=False).map(lambda f: ("float", f)),
        st.tuples(st.just("complex"), st.floats(allow_nan=False, allow_infinity=False), st.floats(allow_nan=False, allow_infinity=False)),
        st.decimals(allow_nan=False, places=3, min_value=-10 ** 9, max_value=10 ** 9).map(lambda d: ("decimal", str(d))),
        st.datetimes(min_value=datetime.datetime(1971, 1, 1), max_value=datetime.datetime(2100, 1, 1)).map(
            lambda d: ("datetime", [d.year, d.month, d.day, d.hour, d.minute, d.second, d.microsecond])))
    hashable_leaf = st.one_of(st.binary(max_size=8).map(lambda x: ("bytes", x)), st.text(max_size=8).map(lambda s: ("str", s)),
                              st.integers(-1000, 1000).map(lambda i: ("int", i)), st.just(("none",)))
    sub = st.one_of(
        st.tuples(st.just("sub"), st.just("MyInt"), st.integers(-10 ** 30, 10 ** 30).map(lambda i: ("int", i)), st.none()),
        st.tuples(st.just("sub"), st.just("MyStr"), st.text(max_size=20).map(lambda s: ("str", s)), st.none()),
        st.tuples(st.just("sub"), st.just("MyBytes"), st.binary(max_size=20).map(lambda s: ("bytes", s)), st.none()),
        st.tuples(st.just("sub"), st.just("MyList"), st.lists(st.integers(0, 9).map(lambda i: ("int", i)), max_size=4).map(lambda l: ("list", l)),
                  st.one_of(st.none(), st.text(max_size=5))),
        st.tuples(st.just("sub"), st.just("MyDict"), st.just(("dict", [])), st.one_of(st.none(), st.text(max_size=5))))
    leaves = st.one_of(leaf_bytes, leaf_str, leaf_int, leaf_other, sub)

    def extend(children):
        return st.one_of(
            st.lists(children, max_size=5).map(lambda l: ("list", l)),
            st.lists(children, max_size=5).map(lambda l: ("tuple", l)),
            st.lists(st.tuples(hashable_leaf, children), max_size=4, unique_by=lambda kv: repr(kv[0])).map(lambda l: ("dict", [list(x) for x in l])),
            st.lists(hashable_leaf, max_size=5, unique_by=repr).map(lambda l: ("set", l)),
            st.lists(hashable_leaf, max_size=5, unique_by=repr).map(lambda l: ("frozenset", l)))
    return st.recursive(leaves, extend, max_leaves=12)


def config_strategy():
    pick = st.tuples(st.just("pickle"), st.one_of(st.integers(0, 5), st.none()))
    comp = st.tuples(st.just("compressed"), st.sampled_from(sorted(CODECS)), st.sampled_from([0, 1, 10, 400]),
                     st.tuples(st.sampled_from(["pickle", "pickle", "versioned"]), st.integers(0, 5)))
    return st.one_of(pick, comp, comp, st.just(("legacy-pm",)), st.just(("default-compressed",)),
                     st.tuples(st.just("legacy-pm-version"), st.integers(0, 5)))


def random_strategy(tier):
    return st.tuples(config_strategy(), value_strategy())


def large_value_cases(tier, seed):
    """values of 17 and 33 MiB (memcached's -I allows items of up to a gigabyte; a serializer has no limit of its own): through the
    compressing serializers in their default and explicit configurations"""
    sizes = (17 * 2 ** 20 + 3,) if tier == "quick" else (17 * 2 ** 20 + 3, 33 * 2 ** 20 + 1)
    for n in sizes:
        for c in (("default-compressed",), ("module-compressed",), ("compressed", "zlib", 400, ("pickle", 5)), ("pickle", 5)):
            for v in (("repeat", b"ab\x00", n // 3), ("repeat", "xy\u00e9", n // 4), ("repeat", b"q" * 64, n // 64, "list")):
                yield (c, v)


def grid_cases(tier, seed):
    configs = [("pickle", p) for p in range(6)] + [("pickle", None), ("legacy-pm",), ("default-compressed",)]
    for codec in sorted(CODECS):
        for ml in (0, 1, 10, 400):
            for p in ((0, 2, 5) if tier == "quick" else range(6)):
                configs.append(("compressed", codec, ml, ("pickle", p)))
    values = []
    for n in (0, 1, 9, 10, 11, 12, 399, 400, 401, 402, 1200):
        values += [("bytes", b"a" * n), ("noise", n, 1), ("str", "x" * n), ("str", "é" * (n // 2)), ("bigint", max(1, n), 1, 1),
                   ("bigint", max(1, n), 9, -1), ("list", [("int", 1)] * (n // 4)), ("tuple", [("str", "ab")] * (n // 8))]
    values += [("int", 0), ("int", -1), ("int", 2 ** 64), ("bool", True), ("bool", False), ("none",), ("float", 0.5),
               ("float", -0.0), ("float", float("inf")), ("sub", "MyInt", ("int", 10 ** 50), None), ("sub", "MyStr", ("str", "s" * 500), None),
               ("sub", "MyBytes", ("bytes", b"b" * 500), None), ("sub", "MyList", ("list", [("int", 1)]), "n"),
               ("sub", "MyDict", ("dict", []), "note"), ("bigint", 4000, 1, 1), ("bigint", 4000, 9, -1),
               ("dict", [[("str", "k"), ("bytes", b"v" * 500)]]), ("decimal", "1.50"), ("datetime", [2024, 2, 29, 23, 59, 59, 999999]),
               ("complex", 1.5, -2.0), ("frozenset", [("int", 1), ("str", "a")]), ("set", []),
               ("packed", "zlib", b"hello world"), ("packed", "zlib", b"payload", b"trailing"), ("packed", "zlib", b"z" * 2000), ("packed", "zlib", b""),
               ("packed", "bz2", b"hello world"), ("packed", "lzma", b"hello"), ("packed", "gzip", b"hello"), ("packed", "pickle", b"inner"),
               ("list", [("packed", "zlib", b"nested")]),
               ("bytearray", b""), ("bytearray", b"abc"), ("bytearray", b"z" * 401), ("bytearray", b"\x80\x05K\x01."), ("list", [("bytearray", b"in a list")]),
               ("str", "\ufeff"), ("str", "\ufeffhello"), ("str", "\ufeff\ufeffx"), ("str", "x\ufeff"), ("str", "\ufffe" + "y" * 450), ("str", "\ufeff" + "y" * 450),
               ("str", "\x00"), ("str", "\xef\xbb\xbfz"), ("sub", "MyStr", ("str", "\ufeffsub"), None), ("dict", [[("str", "\ufeffk"), ("str", "\ufeffv")]]),
               # values that contain themselves, reach an object twice, or point back at their parent
               ("cyclic-list", []), ("cyclic-list", [("int", 1), ("str", "x" * 500)]), ("cyclic-dict", []), ("cyclic-dict", [[("str", "k"), ("bytes", b"v" * 450)]]),
               ("back-pointer", [("int", 7)]), ("back-pointer", [("str", "y" * 600)]), ("shared", ("list", [("int", 1), ("int", 2)])),
               ("shared", ("sub", "MyList", ("list", [("int", 1)]), "n")), ("shared", ("bytes", b"z" * 450)),
               # values whose pickling serializes another value through the same serializer object
               ("nesting", ("str", "outer"), ("list", [("int", 1), ("int", 2), ("int", 3)])), ("nesting", ("bytes", b"o" * 500), ("dict", [[("str", "session"), ("str", "bob")]])),
               ("list", [("nesting", ("int", 1), ("str", "x" * 450)), ("str", "after")]), ("nesting", ("list", [("int", 7)]), ("nesting", ("int", 2), ("bytes", b"deep")))]
    configs += [("module-compressed",), ("module-pickle",)]
    # CompressedSerde around a serializer of the application's own
    configs += [("versioned", 2)] + [("compressed", codec, ml, ("versioned", p)) for codec in ("zlib", "identity") for ml in (0, 1, 10, 400) for p in (0, 5)]
    for c in configs:
        for v in values:
            yield (c, v)


def sequence_cases(tier, seed):
    configs = [("default-compressed",), ("module-compressed",), ("module-pickle",), ("pickle", 2), ("legacy-pm",)]
    for codec in ("zlib", "identity", "expanding") if tier == "quick" else sorted(CODECS):
        for ml in (0, 1, 10, 400):
            for p in (0, 5):
                configs.append(("compressed", codec, ml, ("pickle", p)))
    fams = []
    for n in (0, 1, 5, 11, 12, 399, 401, 450, 1200):
        fams.append([("str", "x" * n), ("bytes", b"x" * n)])
        fams.append([("str", "x" * n), ("bytes", b"x" * n), ("sub", "MyStr", ("str", "x" * n), None), ("sub", "MyBytes", ("bytes", b"x" * n), None)])
        fams.append([("bigint", max(1, n), 1, 1), ("bytes", b"1" + b"7" * (max(1, n) - 1)), ("str", "1" + "7" * (max(1, n) - 1))])
        for p in (0, 2, 5):
            obj = ("list", [("str", "ab" * n), ("int", n)])
            fams.append([obj, ("payload-of", obj, p)])
            fams.append([("bool", True), ("payload-of", ("bool", True), p), ("int", 1)])
    fams.append([("int", 1), ("bool", True), ("bytes", b"1"), ("str", "1")])
    # a serialization that fails part-way (after 0 / 100 / 70 000 / 300 000 bytes of pickle output), then ordinary values
    for n in (0, 100, 70000, 300000):
        fams.append([("unpicklable", n), ("list", [("dict", [[("str", "id"), ("int", 1)]]), ("dict", [[("str", "id"), ("int", 2)]])]), ("str", "x" * 20), ("bytes", b"after")])
        fams.append([("list", [("int", 1)]), ("unpicklable", n), ("shared", ("list", [("int", 1), ("int", 2)])), ("int", 7)])
    fams.append([("none",), ("bytes", b""), ("str", "")])
    for c in configs:
        for fam in fams:
            yield (c, fam)
            yield (c, fam[::-1])
            if len(fam) > 2:
                yield (c, fam[1:] + fam[:1])


def sequence_strategy(tier):
    def twin(d):
        return st.sampled_from([0, 2, 4, 5]).map(lambda p: ("payload-of", d, p))
    one = value_strategy()
    pair = one.flatmap(lambda d: st.tuples(st.just(d), twin(d)).map(list))
    seq = st.lists(st.one_of(one.map(lambda d: [d]), pair), min_size=1, max_size=4).map(lambda ll: [d for l in ll for d in l])
    shuffled = seq.flatmap(lambda l: st.permutations(l))
    return st.tuples(st.one_of(config_strategy(), st.sampled_from([("module-compressed",), ("module-pickle",)])), shuffled)


PARTS = [
    Part("grid", "enum", check, cases=grid_cases, exhaustive=False),
    Part("very-large-values", "enum", check, cases=large_value_cases, shards={"quick": 6, "thorough": 12}, exhaustive=True),
    Part("a-class-that-is-found-again", "enum", check_late_class, cases=late_class_cases, shards={"quick": 1, "thorough": 1}, exhaustive=True),
    Part("counters-rewritten-by-the-server", "enum", check_counter, cases=counter_cases, exhaustive=True),
    Part("written-by-one-read-by-another", "enum", check_cross, cases=cross_cases),
    Part("random-writer-and-reader", "hyp", check_cross, strategy=cross_strategy,
         examples={"quick": 300, "thorough": 20000}, shards={"quick": 4, "thorough": 16}),
    Part("one-serializer-object", "enum", check_sequence, cases=sequence_cases),
    Part("random-sequences", "hyp", check_sequence, strategy=sequence_strategy,
         examples={"quick": 300, "thorough": 12000}, shards={"quick": 4, "thorough": 16}),
    Part("random", "hyp", check, strategy=random_strategy,
         examples={"quick": 700, "thorough": 30000}, shards={"quick": 4, "thorough": 16}),
]

"""C05 - return values report the server's actual outcome over any history."""
import itertools

from hypothesis import strategies as st

from vlib import mcserver, ops
from vlib.harness import Env
from vlib.runner import Part, Violation, ddmin_list

from pymemcache.exceptions import MemcacheClientError, MemcacheServerError

PROPERTY = "C05"
LEVEL = "exploration"
# parts repeated in a child interpreter started with -O and with warnings turned into errors (vlib/runner.py, MODES)
MODE_PARTS = {"OW": ['exhaustive-short']}
RULE = ("history = client kind x configuration {prefix, default_noreply} x a per-step choice of spelling the keys as str or as bytes (the same item either way; multi-key answers are keyed by that call's spelling) x 1-25 steps over a universe of 3 keys (with unicode keys enabled, three more: a precomposed and a combining spelling of the same text - two different keys - and a compatibility character): set/add/"
        "replace/append/prepend (noreply unset/True/False, expiry in {0,-1,1,2,5,30 days, 30 days+1, now+3}), cas with "
        "a token that is the last gets result for the key, or bogus; get/gets/get_many/gets_many/gat/gats; touch; "
        "delete/delete_many; incr/decr with small and huge deltas on numeric, non-numeric and missing items; flush_all "
        "[delay]; set_many; the item-syntax forms; virtual clock advances. Bounded-exhaustive: all sequences of length "
        "<= 3 (thorough: <= 4 over a 16-instance alphabet) over an alphabet of 25 operation instances on one key. "
        "Oracle: an abstract map with expiry and cas versions (written from the Client docstrings and the outcomes "
        "test_integration.py pins, not from the server model) stepped in lockstep - every return value / exception "
        "class must equal the model's; a final get_many over the universe must equal the model's live items. "
        "Non-trivial: the history contains a conditional store/cas/incr/delete/touch whose outcome depends on an "
        "earlier step, or an expiry that elapsed, or a noreply mutation later observed by a read. The noreply flag and default_noreply also occur as truthy / falsy non-bool spellings (1, 'no', 2, [0] / 0, '', 0.0), which count by their truth value. A shallow copy of the client may take over (or be made and dropped) at any point of a history; object values through the module-level pickle serializer, among them values whose pickling stores another object through the same serializer. With a serializer the model holds (payload, flags) and reads it by the python-memcache flag convention written into the check: explicit flags (0 too) override the serializer's, counters are decremented across digit boundaries (the server pads with blanks). Long lives: 2500 (thorough 10 000) steps on one object, and histories whose wall clock starts just before 2**31 or 2**32 seconds, at 4e9, or at 0.5."
        + " Keys that carry the key prefix themselves (prefix 'k', keys '0', 'k0', 'kk0': every history of three operations, thorough four); numbers that are int subclasses or IntEnum members as expire / delta / delay; explicit flags 4 and 6 (python-memcached's long).  The model serializes by the python-memcache convention written out in the check, never by calling the library's serializer.")
MANIFEST = {
    "category": "exploration",
    "technique": "model-based (stateful) testing: Hypothesis-generated and bounded-exhaustively enumerated operation histories run against client + memcached model and, in lockstep, against an independent abstract map-with-expiry-and-cas oracle",
    "text": "Every return value of every step of a history is compared with an abstract in-memory map with expiry and cas versions; all histories up to length 3 over a 25-instance alphabet are enumerated (length 4 over 16 instances in the thorough tier) and longer ones are drawn by Hypothesis over a 3-key universe so hits, misses, overwrites, expiries and cas races all occur. Exhaustive for short sequences, sampled for long ones.",
    "note": "append/prepend are held to 'True iff stored' (what the repository's live-server test asserts), not to the docstring's bare 'True'. Server fidelity rests on vlib/mcserver.py.",
    "design_ref": "DESIGN.md 3/C05",
}
ASSUMPTIONS = [
    "vlib/mcserver.py behaves like memcached for the modelled commands (self-test replays test_integration.py's pinned outcomes)",
    "append/prepend return True iff stored (test_integration.py), despite the docstring",
]

KEYS = ["k0", "k1", "k2"]
# with unicode keys enabled: two DIFFERENT keys that are canonically equivalent as text (precomposed / combining), and a compatibility character
UKEYS = ["caf\u00e9", "cafe\u0301", "\u212b"]
DAY30 = 60 * 60 * 24 * 30


class Model:
    """Plain map: key -> [value, flags, expiry, version, stored_at]; the documented Client return values."""

    def __init__(self, clock, default_noreply):
        self.clock = clock
        self.d = {}
        self.dn = default_noreply
        self.version = 0
        self.flush_at = None
        self.seen = {}          # key -> (real token, model version when it was read)

    def _exp(self, e):
        if e == 0:
            return 0
        if e < 0:
            return -1
        return self.clock.now + e if e <= DAY30 else e

    def live(self, k):
        it = self.d.get(k)
        if it is None:
            return None
        now = self.clock.now
        if it[2] == -1 or (it[2] > 0 and it[2] <= now):
            del self.d[k]
            return None
        if self.flush_at is not None and now >= self.flush_at and it[4] < self.flush_at:
            del self.d[k]
            return None
        return it

    def _nr(self, r, default_false=False):
        nr = r.get("noreply")
        if nr is None:
            nr = False if default_false else self.dn
        return nr

    def _put(self, k, v, e, flags=None):
        self.version += 1
        if getattr(self, "serde", None) is not None:
            # with a serializer the server holds the serialized form and the flags - the caller's explicit flags if given (0 too),
            # else the ones the python-memcache convention gives the value's type - and a read hands back what the convention
            # makes of that pair. The serialized form is computed HERE (not by the library's serializer, which is under test):
            # bytes as they are, str as UTF-8 (flag 16), an exact int in decimal (flag 2), anything else pickled (flag 1)
            import pickle
            orig = v
            if type(v) is bytes:
                payload, f = v, 0
            elif type(v) is str:
                payload, f = v.encode("utf-8"), 16
            elif type(v) is int:
                payload, f = b"%d" % v, 2
            else:
                payload, f = pickle.dumps(v, pickle.HIGHEST_PROTOCOL), 1
            v = payload
            self.item_flags[k] = flags if flags is not None else f
            if not hasattr(self, "orig"):
                self.orig = {}
            self.orig[k] = (payload, f, orig)
        self.d[k] = [v, 0, self._exp(e), self.version, self.clock.now]

    def _out(self, k, raw):
        if getattr(self, "serde", None) is None:
            return raw
        f = self.item_flags.get(k, 0)
        # stored with its own type's flags and not rewritten since: the caller gets back the value it stored
        o = getattr(self, "orig", {}).get(k)
        if o is not None and o[0] == raw and o[1] == f:
            return o[2]
        # otherwise what the flag convention says the stored pair means: 0 bytes, 1 a pickle, 2 / 4 a decimal number (memcached
        # pads a counter it shortened with blanks), 16 UTF-8 text
        if f == 0:
            return raw
        if f & 1:
            import pickle
            return pickle.loads(raw)
        if f & (2 | 4):
            return int(raw.decode("ascii").strip())
        if f & 16:
            return raw.decode("utf-8")
        return raw

    def step(self, r):
        """-> ("ok", value) | ("exc", ExceptionClass)"""
        op = r["op"]
        k = r.get("key")
        # stores the server refuses although they are well-formed (the item is too large for it, memory is exhausted, a proxy
        # could not complete the store): nothing is stored; with a reply awaited the refusal is reported - SERVER_ERROR as
        # MemcacheServerError, NOT_STORED as False / in the list of failed keys -, without one the documented constant
        refuse = getattr(self, "refuse", {})
        if op in ("set", "setitem", "add", "replace", "append", "prepend", "cas") and refuse.get(k) and not (op == "cas" and refuse[k] == "not-stored"):
            nr = True if op == "setitem" else self._nr(r, op == "cas")
            if nr:
                return ("ok", None if op == "setitem" else True)
            if refuse[k] == "not-stored":
                return ("ok", False)
            return ("exc", MemcacheServerError)
        if op == "set_many" and any(refuse.get(kk) for kk in r["values"]):
            # the whole batch is on the wire before the first reply is read: every accepted item is stored
            for kk, v in r["values"].items():
                if not refuse.get(kk):
                    self._put(kk, v, r.get("expire", 0))
            if self._nr(r):
                return ("ok", [])
            failed = []
            for kk in r["values"]:
                if refuse.get(kk) in ("too-large", "oom"):
                    return ("exc", MemcacheServerError)
                if refuse.get(kk) == "not-stored":
                    failed.append(kk)
            return ("ok", failed)
        if op in ("set", "setitem"):
            self._put(k, r["value"], r.get("expire", 0), r.get("flags"))
            return ("ok", None if op == "setitem" else True)
        if op == "set_many":
            for kk, v in r["values"].items():
                self._put(kk, v, r.get("expire", 0), r.get("flags"))
            return ("ok", [])
        if op in ("add", "replace"):
            it = self.live(k)
            ok = (it is None) if op == "add" else (it is not None)
            if ok:
                self._put(k, r["value"], r.get("expire", 0), r.get("flags"))
            return ("ok", True if self._nr(r) else ok)
        if op in ("append", "prepend"):
            it = self.live(k)
            if it is not None:
                it[0] = it[0] + r["value"] if op == "append" else r["value"] + it[0]
                self.version += 1
                it[3] = self.version
                it[4] = self.clock.now
            return ("ok", True if self._nr(r) else it is not None)
        if op == "cas":
            it = self.live(k)
            tok = r["_token_version"]
            if it is None:
                res = None
            elif it[3] != tok:
                res = False
            else:
                res = True
                self._put(k, r["value"], r.get("expire", 0), r.get("flags"))
            return ("ok", True if self._nr(r, True) else res)
        if op in ("get", "getitem"):
            it = self.live(k)
            if op == "getitem" and it is None:
                return ("exc", KeyError)
            return ("ok", None if it is None else self._out(k, it[0]))
        if op == "gets":
            it = self.live(k)
            return ("ok", (None, None) if it is None else (self._out(k, it[0]), ("token", it[3])))
        if op in ("gat", "gats"):
            it = self.live(k)
            if it is not None:
                it[2] = self._exp(r.get("expire", 0))
            if op == "gat":
                return ("ok", None if it is None else self._out(k, it[0]))
            return ("ok", (None, None) if it is None else (self._out(k, it[0]), ("token", it[3])))
        if op == "get_many":
            return ("ok", {kk: self._out(kk, self.live(kk)[0]) for kk in r["keys"] if self.live(kk) is not None})
        if op == "gets_many":
            return ("ok", {kk: (self._out(kk, self.live(kk)[0]), ("token", self.live(kk)[3])) for kk in r["keys"] if self.live(kk) is not None})
        if op == "touch":
            it = self.live(k)
            if it is not None:
                it[2] = self._exp(r.get("expire", 0))
            return ("ok", True if self._nr(r) else it is not None)
        if op in ("delete", "delitem"):
            it = self.live(k)
            if it is not None:
                del self.d[k]
            if op == "delitem":
                return ("ok", None)
            return ("ok", True if self._nr(r) else it is not None)
        if op == "delete_many":
            for kk in r["keys"]:
                if self.live(kk) is not None:
                    del self.d[kk]
            return ("ok", True)
        if op in ("incr", "decr"):
            it = self.live(k)
            nr = self._nr(r, True)
            if it is None:
                return ("ok", None)
            txt = it[0].rstrip(b" ")
            if not txt.isdigit() or len(txt) > 20 or int(txt) >= 2 ** 64:
                return ("ok", None) if nr else ("exc", MemcacheClientError)
            cur = int(txt)
            new = (cur + r["delta"]) % 2 ** 64 if op == "incr" else max(0, cur - r["delta"])
            rendered = b"%d" % new
            # memcached rewrites a counter in place: a shorter number is padded with spaces to the old length
            it[0] = rendered + b" " * max(0, len(it[0]) - len(rendered))
            self.version += 1
            it[3] = self.version
            return ("ok", None if nr else new)
        if op == "flush_all":
            d = r.get("delay", 0)
            if d <= 0:
                self.d.clear()
                self.flush_at = None
            else:
                self.flush_at = self.clock.now + d
            return ("ok", True)
        if op == "advance":
            self.clock_advance = r["seconds"]
            return ("ok", None)
        raise ValueError(op)


def _value_eq(real, model):
    return real == model and type(real) is type(model)


def _match(real, want, tokens):
    """compare a real result with the model's, resolving ("token", version) placeholders"""
    if isinstance(want, tuple) and len(want) == 2 and want[0] == "token":
        return isinstance(real, bytes) and real.isdigit()
    if isinstance(want, tuple) and len(want) == 2:
        return isinstance(real, tuple) and len(real) == 2 and _match(real[0], want[0], tokens) and _match(real[1], want[1], tokens)
    if isinstance(want, dict):
        return isinstance(real, dict) and list(real) == list(want) and all(_match(real[k], want[k], tokens) for k in want)
    if want is None or isinstance(want, (bool, list)):
        return real == want and type(real) is type(want)
    if isinstance(want, int):
        return type(real) is int and real == want
    return _value_eq(real, want)


MUTATORS = ("set", "add", "replace", "append", "prepend", "cas", "delete", "incr", "decr", "touch", "flush_all", "set_many",
            "setitem", "delitem", "delete_many", "gat", "gats")


class _Lazy:
    """a description that is only put together when it is printed (a history of thousands of steps is not formatted at every step)"""

    def __init__(self, f):
        self.f = f

    def __str__(self):
        return self.f()


def run_history(case):
    kind, cfg, steps = case["kind"], case["cfg"], case["steps"]
    env = Env(cas_start=cfg.get("cas_start", 0), **({"now": cfg["now"]} if cfg.get("now") is not None else {}))
    clock = env.clock
    skw = {}
    if cfg.get("serde") == "pickle":
        # objects as values, through the module-level pickle serializer: a value of the Nesting kind stores another object
        # through the same serializer while it is being pickled (props/c15.py)
        from props import c15
        from pymemcache import serde as S_
        skw["serde"] = S_.pickle_serde
        c15.Nesting.hook = lambda other: S_.pickle_serde.serialize("another-key", other)
        steps = [dict(s_, value=c15.build(tuple(s_["vspec"]) if isinstance(s_["vspec"], list) else s_["vspec"])) if "vspec" in s_ else s_ for s_ in steps]
        steps = [{k_: v_ for k_, v_ in s_.items() if k_ != "vspec"} for s_ in steps]
    c = env.client(kind, **skw, key_prefix=cfg.get("key_prefix", b""), default_noreply=cfg.get("default_noreply", True),
                   **({"allow_unicode_keys": True} if cfg.get("allow_unicode_keys") else {}), **({"ignore_exc": True} if cfg.get("ignore_exc") else {}))
    universe = list(cfg.get("universe") or KEYS) + (UKEYS if cfg.get("allow_unicode_keys") else [])
    model = Model(clock, cfg.get("default_noreply", True))
    model.item_flags = {}
    model.serde = skw.get("serde")
    model.refuse = dict(cfg.get("refuse") or {})
    pfx = cfg.get("key_prefix", b"")
    pfx = pfx.encode("ascii") if isinstance(pfx, str) else pfx
    env.server.refuse.update({pfx + k_.encode("utf-8"): m_ for k_, m_ in model.refuse.items()})
    tokens = {}            # key -> (real token, model version)
    labels = set()
    dependent = False
    noreply_pending = set()
    desc_hist = []
    for i, r in enumerate(steps):
        r = dict(r)
        op = r["op"]
        for f_ in ("expire", "delta", "delay"):
            # (numbers of other int types are written ["Seconds", 2] / ["Ttl", "SHORT"] in a case, so that a replay file keeps them)
            if isinstance(r.get(f_), (list, tuple)):
                r[f_] = Seconds(r[f_][1]) if r[f_][0] == "Seconds" else Ttl[r[f_][1]]
                labels.add("int-subclass-number")
        desc_hist.append(r)
        if kind.startswith("hash") and op in ("setitem", "getitem", "delitem"):
            # HashClient offers no item syntax: use the calls the item syntax stands for
            r = {"setitem": dict(r, op="set", noreply=True), "getitem": dict(r, op="get"), "delitem": dict(r, op="delete", noreply=True)}[op]
            op = r["op"]
        if op == "handover":
            # the application goes on with a shallow copy of the object (or with a copy of a copy) and lets the original go;
            # or it makes a copy, drops the copy and goes on with the original
            import copy
            import gc
            d = copy.copy(c)
            if r.get("keep") == "copy":
                c = d
            del d
            gc.collect()
            labels.add("went-on-with-" + ("a-copy" if r.get("keep") == "copy" else "the-original"))
            dependent = dependent or i > 0
            continue
        if op == "advance":
            clock.advance(r["seconds"])
            if any(it[2] > 0 and it[2] <= clock.now for it in model.d.values()):
                labels.add("expiry-elapsed")
                dependent = True
            continue
        if op == "cas":
            how = r.pop("token")
            if how == "last_gets" and r["key"] in tokens:
                r["cas"], r["_token_version"] = tokens[r["key"]]
            else:
                r["cas"], r["_token_version"] = b"987654321", -1
        want = model.step(r)
        r.pop("_token_version", None)
        # the caller may spell a key as str in one call and as bytes in the next: same item, and multi-key answers are
        # keyed by the spelling of THIS call
        spell = case.get("spell")
        as_bytes = bool(spell and spell[i % len(spell)])
        res = env.call(ops.invoke, c, _respell(r) if as_bytes else r)
        if as_bytes:
            labels.add("bytes-spelling")
            if res[0] == "ok" and isinstance(res[1], (dict, list)):
                if not all(isinstance(k, bytes) for k in res[1]):
                    raise Violation(["wrong-key-spelling", op], "called with bytes keys, the answer %r is keyed otherwise: step %d %r of history %r spelling %r (%s, cfg %r)"
                                    % (res[1], i, r, desc_hist, spell, kind, cfg))
                res = ("ok", {k.decode(): v for k, v in res[1].items()} if isinstance(res[1], dict) else [k.decode() for k in res[1]])
        what = _Lazy(lambda i=i, r=r: "step %d %r of history %r (%s, cfg %r%s)" % (
            i, r, desc_hist[:i + 1], kind, cfg, ", keys spelled as bytes in steps %r" % [j for j in range(len(steps)) if spell[j % len(spell)]] if spell else ""))
        if want[0] == "exc":
            if not (res[0] == "exc" and isinstance(res[1], want[1])):
                raise Violation(["wrong-outcome", op], "expected %s, got %r: %s" % (want[1].__name__, res, what))
        else:
            if res[0] == "exc":
                raise Violation(["raises", op, type(res[1]).__name__], "raised %r, the map model returns %r: %s" % (res[1], want[1], what))
            if kind.startswith("hash") and op == "flush_all":
                pass      # not key-addressed; HashClient documents no return value for it
            elif not _match(res[1], want[1], tokens):
                raise Violation(["wrong-return", op], "returned %r, the map model says %r: %s" % (res[1], want[1], what))
        # remember tokens handed out by gets/gats/gets_many
        if op in ("gets", "gats") and res[0] == "ok" and res[1][1] is not None:
            tokens[r["key"]] = (res[1][1], want[1][1][1])
        if op == "gets_many" and res[0] == "ok":
            for kk, (_v, tok) in res[1].items():
                tokens[kk] = (tok, want[1][kk][1][1])
        if op in ("add", "replace", "append", "prepend", "cas", "delete", "incr", "decr", "touch", "gat", "gats") and i > 0:
            dependent = True
        nr_effective = r.get("noreply", False if op in ("cas", "incr", "decr") else cfg.get("default_noreply", True))
        if op in MUTATORS and (nr_effective or op in ("setitem", "delitem")):
            noreply_pending.add(r.get("key"))
        if op in ("get", "gets", "get_many", "gets_many", "getitem") and (r.get("key") in noreply_pending or op.endswith("many") and noreply_pending):
            labels.add("noreply-observed")
            dependent = True
        if env.net.flags:
            raise Violation(["net-flags", op], "fake network flagged %r: %s" % (env.net.flags[:2], what))
    # final state
    res = env.call(c.get_many, universe)
    want = {k: model._out(k, model.live(k)[0]) for k in universe if model.live(k) is not None}
    if res[0] != "ok" or not _match(res[1], want, tokens):
        raise Violation(["final-state"], "final get_many returned %r, the map model holds %r after history %r (%s, cfg %r, per-step key spelling %r)"
                        % (res, want, desc_hist, kind, cfg, case.get("spell")))
    if env.server.errors:
        raise Violation(["server-parse-errors"], "server logged %r after history %r" % (env.server.errors[:2], desc_hist))
    return dependent, sorted(labels | {kind})


def _respell(r):
    r = dict(r)
    if "key" in r:
        r["key"] = r["key"].encode()
    if "keys" in r:
        r["keys"] = [k.encode() for k in r["keys"]]
    if "values" in r:
        r["values"] = {k.encode(): v for k, v in r["values"].items()}
    return r


def check(case):
    try:
        return run_history(case)
    finally:
        from props import c15
        c15.Nesting.hook = None


# ---- bounded-exhaustive alphabet --------------------------------------------------

K = "k0"
ALPHA = [
    {"op": "set", "key": K, "value": b"v1", "noreply": False},
    {"op": "set", "key": K, "value": b"5", "noreply": True},
    {"op": "set", "key": K, "value": b"v2", "expire": 2},
    {"op": "add", "key": K, "value": b"a", "noreply": False},
    {"op": "replace", "key": K, "value": b"r", "noreply": False},
    {"op": "append", "key": K, "value": b"0", "noreply": False},
    {"op": "prepend", "key": K, "value": b"1", "noreply": False},
    {"op": "cas", "key": K, "value": b"c", "token": "last_gets"},
    {"op": "cas", "key": K, "value": b"c", "token": "bogus"},
    {"op": "get", "key": K},
    {"op": "gets", "key": K},
    {"op": "gat", "key": K, "expire": 2},
    {"op": "gats", "key": K, "expire": 0},
    {"op": "touch", "key": K, "expire": 2, "noreply": False},
    {"op": "touch", "key": K, "expire": -1, "noreply": False},
    {"op": "delete", "key": K, "noreply": False},
    {"op": "incr", "key": K, "delta": 1},
    {"op": "decr", "key": K, "delta": 10},
    {"op": "flush_all", "noreply": False},
    {"op": "flush_all", "delay": 2, "noreply": False},
    {"op": "advance", "seconds": 1},
    {"op": "advance", "seconds": 2},
    {"op": "get_many", "keys": [K, "k1"]},
    {"op": "set_many", "values": {K: b"m", "k1": b"7"}, "noreply": False},
    {"op": "add", "key": K, "value": b"9", "noreply": True},
    {"op": "set", "key": K, "value": b"nl\n", "noreply": False},
]
ALPHA16 = [ALPHA[i] for i in (0, 1, 2, 3, 4, 5, 7, 9, 10, 11, 13, 15, 16, 17, 19, 21)]


def exhaustive_cases(tier, seed):
    cfgs = [{"key_prefix": b"", "default_noreply": True}, {"key_prefix": b"", "default_noreply": True, "cas_start": 2 ** 63 + 11}]
    for n in (1, 2, 3):
        for seq in itertools.product(range(len(ALPHA)), repeat=n):
            kind = ("client", "pooled", "hash")[(sum(seq) + n) % 3]
            yield {"kind": kind, "cfg": cfgs[(sum(seq) // 3) % 2], "steps": [ALPHA[i] for i in seq]}
    # alternating spellings (str, bytes, str / bytes, str, bytes) of the key over the reads and a few writes
    sub = [ALPHA[i] for i in (0, 9, 10, 11, 12, 15, 22, 23)]
    for seq in itertools.product(range(len(sub)), repeat=3):
        for spell in ([0, 1, 0], [1, 0, 1]):
            yield {"kind": ("client", "pooled", "hash", "hash-pooled")[(sum(seq) + spell[0]) % 4], "cfg": {"key_prefix": b"" if sum(seq) % 2 else b"s:", "default_noreply": False},
                   "steps": [sub[0]] + [sub[i] for i in seq], "spell": [0] + spell}
    # two keys that are equivalent as Unicode text but different as keys (and their bytes spellings): every sequence of
    # 3 operations over both, unicode keys enabled
    tw = []
    for k in UKEYS[:2]:
        tw += [{"op": "set", "key": k, "value": b"v-" + k.encode("utf-8")[-2:], "noreply": False}, {"op": "get", "key": k}, {"op": "delete", "key": k, "noreply": False},
               {"op": "add", "key": k, "value": b"a", "noreply": False}]
    tw += [{"op": "get_many", "keys": UKEYS[:2]}, {"op": "gets_many", "keys": UKEYS[::-1]}]
    for seq in itertools.product(range(len(tw)), repeat=3):
        for spell in (None, [0, 1, 0], [1, 1, 0]):
            yield {"kind": ("client", "pooled", "hash", "hash-pooled")[sum(seq) % 4], "cfg": {"key_prefix": b"" if sum(seq) % 2 else b"u:", "default_noreply": False, "allow_unicode_keys": True},
                   "steps": [tw[i] for i in seq], "spell": spell}
    # batches in which the server refuses one item and stores the others, the refused one first / in the middle / last
    for mode in ("too-large", "oom", "not-stored"):
        for pos in (0, 1, 2):
            keys = ["k0", "k1", "k2"]
            vals = {kk: b"v-" + kk.encode() for kk in keys}
            for nr in (False, True):
                for pre in ([], [{"op": "set", "key": keys[pos], "value": b"old", "noreply": False}]):
                    for kind in ("client", "pooled", "hash", "hash-pooled"):
                        yield {"kind": kind, "cfg": {"key_prefix": b"r:" if pos else b"", "default_noreply": False, "refuse": {keys[pos]: mode}},
                               "steps": pre + [{"op": "set_many", "values": vals, "noreply": nr}, {"op": "get_many", "keys": keys}, {"op": "add", "key": keys[pos], "value": b"a", "noreply": False},
                                               {"op": "set", "key": keys[pos], "value": b"again", "noreply": nr}, {"op": "gets", "key": keys[(pos + 1) % 3]}]}
    # objects as values (pickle serializer), among them values whose pickling stores another object through the same serializer
    NV = [("nesting", ("str", "outer"), ("list", [("int", 1), ("int", 2)])), ("list", [("str", "plain"), ("int", 5)]), ("nesting", ("int", 7), ("dict", [[("str", "who"), ("str", "bob")]]))]
    for a in range(len(NV)):
        for b in range(len(NV)):
            for kind in ("client", "pooled", "hash", "hash-pooled"):
                yield {"kind": kind, "cfg": {"key_prefix": b"o:", "default_noreply": False, "serde": "pickle"},
                       "steps": [{"op": "set", "key": K, "vspec": NV[a], "noreply": False}, {"op": "get", "key": K}, {"op": "add", "key": "k1", "vspec": NV[b], "noreply": False},
                                 {"op": "replace", "key": K, "vspec": NV[b], "noreply": False}, {"op": "get_many", "keys": [K, "k1", "k2"]}, {"op": "delete", "key": K, "noreply": False},
                                 {"op": "set_many", "values": {}, "noreply": False}, {"op": "gets", "key": "k1"}]}
    # numbers and explicit flags through a serializer: a counter stored as an int, decremented across a digit boundary (the server
    # pads it with blanks) and read back; explicit flags - 0 among them - override the serializer's
    for kind in ("client", "pooled", "hash"):
        for start, delta in ((10, 1), (100, 1), (1000, 1), (18446744073709551615, 2 ** 63), (7, 7), (9, 1)):
            yield {"kind": kind, "cfg": {"key_prefix": b"", "default_noreply": False, "serde": "pickle"},
                   "steps": [{"op": "set", "key": K, "vspec": ("int", start), "noreply": False}, {"op": "get", "key": K}, {"op": "decr", "key": K, "delta": delta},
                             {"op": "get", "key": K}, {"op": "gets", "key": K}, {"op": "incr", "key": K, "delta": delta}, {"op": "get_many", "keys": [K, "k1"]}]}
        for fl, vals in ((0, [("str", "txt"), ("int", 42), ("bytes", b"raw"), ("list", [("int", 1)])]), (None, [("str", "txt"), ("int", 42), ("bytes", b"raw"), ("list", [("int", 1)])]),
                         (16, [("str", "txt"), ("bytes", b"raw")]), (2, [("int", 42), ("bytes", b"42")]),
                         # (4 is python-memcached's flag for a Python 2 `long`, 6 both number bits: such items read as numbers)
                         (4, [("int", 42), ("bytes", b"42"), ("int", 2 ** 70)]), (6, [("int", 7)])):
            for v in vals:
                steps = [{"op": "set", "key": K, "vspec": v, "noreply": False}, {"op": "add", "key": "k1", "vspec": v, "noreply": False}, {"op": "set_many", "values": {}, "noreply": False},
                         {"op": "get", "key": K}, {"op": "get_many", "keys": [K, "k1"]}, {"op": "replace", "key": K, "vspec": v, "noreply": True}, {"op": "gets", "key": K}]
                if fl is not None:
                    steps = [dict(s_, flags=fl) if s_["op"] in ("set", "add", "replace") else s_ for s_ in steps]
                yield {"kind": kind, "cfg": {"key_prefix": b"", "default_noreply": False, "serde": "pickle"}, "steps": steps}
    # a shallow copy of the object takes over (or is made and dropped) at every position of a short history
    hs = [{"op": "set", "key": K, "value": b"5", "noreply": False}, {"op": "add", "key": K, "value": b"a", "noreply": False}, {"op": "incr", "key": K, "delta": 2},
          {"op": "get", "key": K}, {"op": "delete", "key": K, "noreply": False}, {"op": "set", "key": "k1", "value": b"n", "noreply": True}, {"op": "gets", "key": "k1"}]
    for pos in range(len(hs) + 1):
        for keep in ("copy", "original"):
            for kind in ("client", "pooled", "hash", "hash-pooled"):
                for ie in (False, True):
                    yield {"kind": kind, "cfg": {"key_prefix": b"", "default_noreply": False, "ignore_exc": ie},
                           "steps": hs[:pos] + [{"op": "handover", "keep": keep}] + hs[pos:] + [{"op": "handover", "keep": keep}, {"op": "get", "key": K}]}
    # the noreply flag (per call and as the client's default) spelled as a non-bool: it counts by its truth value
    for sp in (0, "", 0.0, 1, "no", 2, [0]):
        for dn in (True, False, 1, 0, "yes", ""):
            for kind in ("client", "pooled", "hash", "hash-pooled"):
                for first in ([], [{"op": "set", "key": K, "value": b"5", "noreply": sp}]):
                    yield {"kind": kind, "cfg": {"key_prefix": b"f:" if first else b"", "default_noreply": dn, "refuse": {"k2": "not-stored"}},
                           "steps": first + [{"op": "add", "key": K, "value": b"a", "noreply": sp}, {"op": "replace", "key": "k1", "value": b"r", "noreply": sp},
                                             {"op": "touch", "key": "k1", "expire": 5, "noreply": sp}, {"op": "delete", "key": "k1", "noreply": sp},
                                             {"op": "set_many", "values": {"k1": b"1", "k2": b"2"}, "noreply": sp}, {"op": "incr", "key": K, "delta": 1, "noreply": sp},
                                             {"op": "append", "key": "k2", "value": b"x"}, {"op": "delete_many", "keys": [K, "k2"]}, {"op": "prepend", "key": "k1", "value": b"x", "noreply": sp},
                                             {"op": "get_many", "keys": [K, "k1", "k2"]}, {"op": "flush_all", "noreply": sp}, {"op": "get", "key": "k1"}]}
    if tier == "thorough":
        # every sequence of length 4 over the full 25-instance alphabet (390 625)
        for seq in itertools.product(range(len(ALPHA)), repeat=4):
            yield {"kind": ("client", "pooled", "hash")[sum(seq) % 3], "cfg": cfgs[(sum(seq) // 5) % 2], "steps": [ALPHA[i] for i in seq]}
        for seq in itertools.product(range(len(ALPHA16)), repeat=4):
            yield {"kind": ("client", "pooled", "hash")[sum(seq) % 3], "cfg": {"key_prefix": b"p/", "default_noreply": False},
                   "steps": [ALPHA16[i] for i in seq]}


def nested_key_cases(tier, seed):
    """keys that carry the key prefix themselves: with prefix 'k' the caller's keys '0', 'k0' and 'kk0' are three different items
    ('k0', 'kk0', 'kkk0' on the server) - every history of three (thorough: four) operations over them"""
    a, b, c = "0", "k0", "kk0"
    alpha = [{"op": "set", "key": a, "value": b"1", "noreply": False}, {"op": "set", "key": b, "value": b"20"}, {"op": "add", "key": b, "value": b"B", "noreply": False},
             {"op": "add", "key": c, "value": b"C", "noreply": False}, {"op": "get", "key": a}, {"op": "get", "key": b}, {"op": "gets", "key": c},
             {"op": "delete", "key": a, "noreply": False}, {"op": "delete", "key": b, "noreply": False}, {"op": "incr", "key": a, "delta": 5}, {"op": "incr", "key": b, "delta": 1},
             {"op": "get_many", "keys": [a, b, c]}, {"op": "set_many", "values": {a: b"7", b: b"8", c: b"9"}, "noreply": False}, {"op": "touch", "key": b, "expire": -1, "noreply": False},
             {"op": "append", "key": a, "value": b"0", "noreply": False}, {"op": "replace", "key": c, "value": b"R", "noreply": False}]
    for n in (1, 2, 3, 4) if tier == "thorough" else (1, 2, 3):
        for seq in itertools.product(range(len(alpha)), repeat=n):
            for pfx in ((b"k", "k") if n < 3 else (b"k",)):
                yield {"kind": ("client", "pooled", "hash", "hash-pooled")[(sum(seq) + n) % 4],
                       "cfg": {"key_prefix": pfx, "default_noreply": bool(sum(seq) % 2), "universe": [a, b, c]}, "steps": [alpha[i] for i in seq]}


class Seconds(int):
    """an int subclass, as an application's own unit type is"""


import enum as _enum


class Ttl(_enum.IntEnum):
    SHORT = 2
    LONG = 100
    GONE = -1
    STEP = 3


def int_kind_cases(tier, seed):
    """numbers that are ints without being exactly `int`: an int subclass, IntEnum members - as expiry times, deltas and delays they
    mean what their value means (the protocol sees digits)"""
    alpha = [{"op": "set", "key": K, "value": b"5", "expire": ["Seconds", 2], "noreply": False}, {"op": "set", "key": K, "value": b"7", "expire": ["Ttl", "LONG"]},
             {"op": "add", "key": K, "value": b"1", "expire": ["Ttl", "SHORT"], "noreply": False}, {"op": "touch", "key": K, "expire": ["Seconds", 2], "noreply": False},
             {"op": "touch", "key": K, "expire": ["Ttl", "GONE"], "noreply": False}, {"op": "incr", "key": K, "delta": ["Seconds", 4]}, {"op": "decr", "key": K, "delta": ["Ttl", "STEP"]},
             {"op": "gat", "key": K, "expire": ["Ttl", "SHORT"]}, {"op": "gats", "key": K, "expire": ["Seconds", 0]}, {"op": "flush_all", "delay": ["Seconds", 2], "noreply": False},
             {"op": "get", "key": K}, {"op": "advance", "seconds": 2}, {"op": "set_many", "values": {K: b"9", "k1": b"1"}, "expire": ["Ttl", "SHORT"], "noreply": False},
             {"op": "cas", "key": K, "value": b"c", "token": "bogus", "expire": ["Seconds", 5]}]
    for n in (1, 2, 3):
        for seq in itertools.product(range(len(alpha)), repeat=n):
            yield {"kind": ("client", "pooled", "hash", "hash-pooled")[(sum(seq) + n) % 4], "cfg": {"key_prefix": b"", "default_noreply": bool(sum(seq) % 2)},
                   "steps": [alpha[i] for i in seq]}


def minimise(case, still_fails):
    steps = ddmin_list(case["steps"], lambda s: still_fails(dict(case, steps=s)))
    return dict(case, steps=steps)


# ---- random histories ---------------------------------------------------------------


def history_strategy(tier):
    return st.booleans().flatmap(lambda uni: _history_strategy(tier, uni))


def _history_strategy(tier, uni):
    key = st.sampled_from(KEYS + UKEYS) if uni else st.sampled_from(KEYS)
    value = st.sampled_from([b"v", b"", b"0", b"5", b"41", b"18446744073709551615", b"abc", b"12x", b"a\r\nb", b"END",
                             b"line\n", b"x\r", b"\r\n", b"\n", b"two\r\n\r\n"])
    noreply = st.sampled_from([None, None, True, False, True, False, 1, 0, "", "no", 2])
    expire = st.sampled_from([0, 0, 0, -1, 1, 2, 5, DAY30, DAY30 + 1, 1_700_000_003])

    def opt(d):
        return st.fixed_dictionaries({}, optional=d)

    def withopt(base, d):
        return st.builds(lambda b, o: dict(b, **{k: v for k, v in o.items() if v is not None}), base, opt(d))

    store = withopt(st.fixed_dictionaries({"op": st.sampled_from(["set", "add", "replace", "append", "prepend"]), "key": key, "value": value}),
                    {"expire": expire, "noreply": noreply})
    cas = withopt(st.fixed_dictionaries({"op": st.just("cas"), "key": key, "value": value,
                                         "token": st.sampled_from(["last_gets", "last_gets", "bogus"])}), {"expire": expire, "noreply": noreply})
    read = st.one_of(st.fixed_dictionaries({"op": st.sampled_from(["get", "gets", "getitem"]), "key": key}),
                     st.fixed_dictionaries({"op": st.sampled_from(["gat", "gats"]), "key": key, "expire": expire}),
                     st.fixed_dictionaries({"op": st.sampled_from(["get_many", "gets_many"]), "keys": st.lists(key, max_size=3, unique=True)}))
    arith = withopt(st.fixed_dictionaries({"op": st.sampled_from(["incr", "decr"]), "key": key,
                                           "delta": st.sampled_from([0, 1, 7, 100, 2 ** 63, 2 ** 64 - 1])}), {"noreply": noreply})
    other = st.one_of(
        withopt(st.fixed_dictionaries({"op": st.just("touch"), "key": key}), {"expire": expire, "noreply": noreply}),
        withopt(st.fixed_dictionaries({"op": st.just("delete"), "key": key}), {"noreply": noreply}),
        withopt(st.fixed_dictionaries({"op": st.just("delete_many"), "keys": st.lists(key, max_size=3, unique=True)}), {"noreply": noreply}),
        withopt(st.fixed_dictionaries({"op": st.just("flush_all")}), {"delay": st.sampled_from([0, 1, 3]), "noreply": noreply}),
        withopt(st.fixed_dictionaries({"op": st.just("set_many"), "values": st.dictionaries(key, value, max_size=3)}), {"expire": expire, "noreply": noreply}),
        st.fixed_dictionaries({"op": st.just("setitem"), "key": key, "value": value}),
        st.fixed_dictionaries({"op": st.just("delitem"), "key": key}),
        st.fixed_dictionaries({"op": st.just("advance"), "seconds": st.sampled_from([1, 1, 2, 3, 5, 10, DAY30])}),
        st.fixed_dictionaries({"op": st.just("handover"), "keep": st.sampled_from(["copy", "original"])}))
    step = st.one_of(store, store, cas, read, read, arith, other)
    cfg = st.fixed_dictionaries({"key_prefix": st.sampled_from([b"", b"", b"ns:", "sp."]), "default_noreply": st.sampled_from([True, False, True, False, 1, 0, "yes", ""]), "allow_unicode_keys": st.just(uni),
                                 "cas_start": st.sampled_from([0, 999999990, 2 ** 32 + 5, 2 ** 63 + 11, 2 ** 64 - 500]),
                                 "refuse": st.sampled_from([None, None, None, {"k2": "too-large"}, {"k1": "not-stored"}, {"k2": "oom"}, {"k1": "too-large", "k2": "not-stored"}])})
    return st.fixed_dictionaries({"kind": st.sampled_from(["client", "pooled", "hash", "hash-pooled"]), "cfg": cfg,
                                  "steps": st.lists(step, min_size=1, max_size=25),
                                  "spell": st.one_of(st.none(), st.lists(st.integers(0, 1), min_size=1, max_size=7))})


def _drop_none_noreply(case):
    for s in case["steps"]:
        if "noreply" in s and s["noreply"] is None:
            del s["noreply"]
    return case


def soak_cases(tier, seed):
    """long lives: thousands of calls on one object (what a long-running process does in a minute), and clocks far from today's -
    a wall clock just before and after 2**31 and 2**32 seconds, and one that reads almost nothing"""
    n = 2500 if tier == "quick" else 6000
    for ki, kind in enumerate(("client", "pooled", "hash", "hash-pooled")):
        for now in (None, 2 ** 31 - 40, 2 ** 32 - 40, 4 * 10 ** 9, 0.5):
            x = (seed * 7919 + ki * 104729 + int((now or 0) % 1000) + 1) & 0x7FFFFFFF
            steps = []
            for i in range(n if now is None else n // 5):
                x = (x * 1103515245 + 12345) & 0x7FFFFFFF
                if (x >> 8) % 23 == 0:
                    steps.append({"op": "advance", "seconds": (1, 2, 3, 30, 61)[(x >> 16) % 5]})
                else:
                    steps.append(ALPHA[(x >> 16) % len(ALPHA)])
            yield {"kind": kind, "cfg": {"key_prefix": b"" if ki % 2 else b"soak:", "default_noreply": bool(ki // 2), "now": now}, "steps": steps}


PARTS = [
    Part("long-lives", "enum", check, cases=soak_cases, shards={"quick": 8, "thorough": 16}),
    Part("exhaustive-short", "enum", check, cases=exhaustive_cases, exhaustive=True, minimise=minimise),
    Part("keys-that-carry-the-prefix", "enum", check, cases=nested_key_cases, exhaustive=True, minimise=minimise),
    Part("numbers-that-are-int-subclasses", "enum", check, cases=int_kind_cases, exhaustive=True, minimise=minimise),
    Part("random-histories", "hyp", check, strategy=lambda tier: history_strategy(tier).map(_drop_none_noreply),
         examples={"quick": 500, "thorough": 4000}, shards={"quick": 6, "thorough": 16}),
]


def selftest():
    mcserver.selftest()

"""C17 - RetryingClient retries exactly as configured (exhaustive decision table)."""
import itertools

from vlib.runner import Part, Violation

from pymemcache.client import retrying as R

PROPERTY = "C17"
LEVEL = "exploration"
# parts repeated in a child interpreter started with -O and with warnings turned into errors (vlib/runner.py, MODES)
MODE_PARTS = {"OW": ['configurations', 'dunder', 'decision-table', 'results-of-any-kind', 'wrapped-instances']}
RULE = ("exhaustive: attempts 1..A x every outcome sequence of that length over {ok, Base, SubA(Base), SubB(Base), "
        "Other, OSError} cut at the first ok x every disjoint (retry_for, do_not_retry_for) pair of subsets of the "
        "classes (None when empty) x {tuple, list, set} spelling x retry_delay {0, 0.25} x method name; quick: A=4 and "
        "4 classes, thorough: A=6 and 5 classes. Oracle: a reference loop written from the statement gives the number "
        "of inner invocations, the sleeps and the outcome (first ok result by identity / final attempt's exception "
        "object by identity); arguments must reach the inner method unchanged each time. Invalid configurations must "
        "raise at construction; neighbouring valid ones must not. The same table is run over pymemcache's own exception hierarchy (MemcacheError, MemcacheClientError, MemcacheIllegalInputError, MemcacheServerError, MemcacheUnexpectedCloseError, MemcacheUnknownCommandError) and socket.timeout / ConnectionResetError / KeyError: no class is treated specially. The table is also run with the call made from inside an `except` block of the caller, for each class being handled there (the implicit exception context is not part of the outcome of the wrapped call). A wrapped call that succeeds with an exception INSTANCE as its return value (of any of the classes, under every filter pair) has succeeded: returned unchanged, not retried. So has one that returns a list of refused keys, an empty or partial dict, False, None, 0 or a pair of Nones - under the multi-key and single-key method names of the client API alike. Wrapped instances: three RetryingClients alive at once around different instances of one class whose operations are instance attributes (name sets differing from instance to instance), every offered operation called through every wrapper in both orders - the same reference decides, and dir() of the wrapper lists the operation. Non-trivial: >=2 invocations were needed or a filter "
        "stopped a retry. Filter spellings also include every class named twice and the aliases of OSError (socket.error, IOError, EnvironmentError) next to it. Around the library's own clients (plain, pooled, hash, ElastiCache, subclassed): 15 public spellings of commands (the *_multi aliases among them) x 7 filters x attempts 1-3, the first attempt failing before anything is sent. Calls in flight together on one RetryingClient - one started from inside the other, or two threads whose attempts follow each other in every possible order - each have their own budget of attempts. Every argument may be passed by the name the wrapped method documents for it (raw_command(command=..., end_tokens=...) among them). Long lives: 2600 (thorough 70 000) calls on one RetryingClient, each needing retries: attempts, sleeps and results as for the first call."
        + ' Exceptions with two bases (one in each filter), classes matched by ABC registration, and two different classes of one name in the two filters.')
MANIFEST = {
    "category": "exploration",
    "technique": "bounded-exhaustive enumeration of the retry decision table against a reference loop written from the statement (model-based oracle), plus enumerated invalid/valid configurations",
    "text": "Every outcome sequence up to `attempts` (quick: 1..4 over 4 exception classes, thorough: 1..5 over 5) x every disjoint retry_for/do_not_retry_for subset pair x tuple/list/set is run against the real RetryingClient and compared with a reference loop: number of invocations, sleeps, identity of the returned value or raised exception object, identity of the arguments. Exhaustive inside those bounds, which cover every branch of the decision (hierarchy matches, both filters, last attempt).",
    "note": "Bounds: attempts <= 5, a fixed 5-class hierarchy; retrying.sleep is rebound to a recorder.",
    "design_ref": "DESIGN.md 3/C17",
}
ASSUMPTIONS = [
    "retrying.sleep is rebound to a recorder for the duration of a case (no real sleeping)",
    "empty non-None filter collections are not generated ('when given' is ambiguous for them)",
]


class Base(Exception):
    pass


class SubA(Base):
    pass


class SubB(Base):
    pass


class Other(Exception):
    pass


CLASSES = [Base, SubA, SubB, Other, OSError]
def _aliases(l):
    import socket
    out = []
    for c in l:
        out += [socket.error, IOError, EnvironmentError, c] if c is OSError else [c]
    return out


# the same filter spelled as a tuple, a list, a set; with every class named twice; and with the aliases of OSError in place of it
SPELL = [tuple, list, set, lambda l: tuple(l) + tuple(l), lambda l: list(l) + list(l)[::-1], lambda l: tuple(_aliases(l)), lambda l: _aliases(l)[::-1]]
METHODS = ["get", "set", "op"]
OKV = object()


class Inner:
    def __init__(self, seq):
        self.seq = seq
        self.calls = []
        self.raised = []

    def _do(self, *a, **k):
        i = len(self.calls)
        self.calls.append((a, k))
        if i >= len(self.seq):
            raise AssertionError("inner invoked more often than outcomes exist")
        o = self.seq[i]
        if o == 0:
            return OKV
        if o < 0:
            # a successful call whose RESULT is an exception object (a cached failure, say): a value like any other
            self.returned = CLASSES[-o - 1]("a value, not a failure")
            return self.returned
        e = CLASSES[o - 1]("attempt %d" % i)
        self.raised.append(e)
        raise e

    get = set = op = _do


def reference(attempts, seq, rf, dn):
    """Written from the statement: returns (invocations, outcome, filtered)."""
    calls = 0
    filtered = False
    for i in range(attempts):
        calls += 1
        o = seq[i]
        if o == 0:
            return calls, ("ok",), filtered
        cls = CLASSES[o - 1]
        if i == attempts - 1:
            return calls, ("exc", i), filtered
        matches_rf = (not rf) or any(issubclass(cls, CLASSES[j]) for j in rf)
        matches_dn = any(issubclass(cls, CLASSES[j]) for j in dn)
        if not matches_rf or matches_dn:
            return calls, ("exc", i), True
    raise AssertionError


def check(case):
    attempts, seq, rf, dn, spell, delay, meth = case[:7]
    ambient = case[7] if len(case) > 7 else None      # index of an exception class the CALLER is handling while it makes the call
    sleeps = []
    inner = Inner(seq)
    kw = {}
    if rf:
        kw["retry_for"] = SPELL[spell]([CLASSES[j] for j in rf])
    if dn:
        kw["do_not_retry_for"] = SPELL[spell]([CLASSES[j] for j in dn])
    saved = R.sleep
    R.sleep = sleeps.append
    a1, a2 = object(), [1, 2]
    kv = {"x": object()}
    try:
        try:
            rc = R.RetryingClient(inner, attempts=attempts, retry_delay=delay, **kw)
        except Exception as e:  # noqa: BLE001
            raise Violation(["valid-config-rejected"], "valid configuration %r rejected: %r" % (case, e))
        try:
            if ambient is None:
                r = getattr(rc, METHODS[meth])(a1, a2, **kv)
            else:
                # the usual fall-back pattern: the call is made from inside an `except` block (Python then links the
                # exception being handled to anything raised meanwhile - which is none of the retry logic's business)
                try:
                    raise CLASSES[ambient]("the caller is handling this one")
                except CLASSES[ambient]:
                    r = getattr(rc, METHODS[meth])(a1, a2, **kv)
            got = ("ok",) if r is OKV else ("wrong-value", repr(r))
        except AssertionError:
            got = ("too-many-calls",)
        except Exception as e:  # noqa: BLE001
            idx = [i for i, x in enumerate(inner.raised) if x is e]
            got = ("exc", idx[0]) if idx else ("foreign-exception", repr(e))
    finally:
        R.sleep = saved
    want_calls, want, filtered = reference(attempts, seq, rf, dn)
    desc = "attempts=%d outcomes=%r retry_for=%r do_not_retry_for=%r (%s) delay=%r" % (
        attempts, [("ok" if o == 0 else CLASSES[o - 1].__name__) for o in seq],
        [CLASSES[j].__name__ for j in rf], [CLASSES[j].__name__ for j in dn], SPELL[spell].__name__, delay)
    if ambient is not None:
        desc += " (call made from inside an except block handling a %s)" % CLASSES[ambient].__name__
    if len(inner.calls) != want_calls:
        raise Violation(["invocations"], "inner invoked %d times, expected %d: %s" % (len(inner.calls), want_calls, desc))
    if want[0] == "exc":
        # the exception objects are numbered in raising order == attempt index among failures
        want = ("exc", want_calls - 1)
    if got != want:
        raise Violation(["outcome"], "outcome %r, expected %r: %s" % (got, want, desc))
    if sleeps != [delay] * (want_calls - 1):
        raise Violation(["sleeps"], "sleeps %r, expected %r: %s" % (sleeps, [delay] * (want_calls - 1), desc))
    for a, k in inner.calls:
        if len(a) != 2 or a[0] is not a1 or a[1] is not a2 or list(k) != ["x"] or k["x"] is not kv["x"]:
            raise Violation(["arguments"], "arguments changed on the way to the inner method: %r %r: %s" % (a, k, desc))
    return (want_calls >= 2 or filtered), ["calls=%d" % want_calls] + (["filtered"] if filtered else [])


def _subsets(n):
    return [tuple(c) for r in range(n + 1) for c in itertools.combinations(range(n), r)]


def cases(tier, seed):
    A, ncls = (4, 4) if tier == "quick" else (6, 5)
    subs = _subsets(ncls)
    pairs = [(rf, dn) for rf in subs for dn in subs if not set(rf) & set(dn)]
    for attempts in range(1, A + 1):
        seqs = []
        for full in itertools.product(range(0, ncls + 1), repeat=attempts):
            if 0 in full:
                full = full[:full.index(0) + 1]
            seqs.append(full)
        seqs = sorted(set(seqs))
        for seq in seqs:
            for pi, (rf, dn) in enumerate(pairs):
                for spell in (0, 1, 2, 3 + (pi + len(seq)) % 4):
                    if not rf and not dn and spell:
                        continue
                    # delay and method do not interact with the decision: rotate them instead of multiplying
                    delay = (0, 0.25)[(pi + spell + len(seq)) % 2]
                    yield (attempts, seq, rf, dn, spell, delay, (pi + attempts) % 3)


INVALID = [
    ("attempts=0", dict(attempts=0)),
    ("attempts=-1", dict(attempts=-1)),
    ("attempts=-7", dict(attempts=-7)),
    ("retry_for int", dict(retry_for=[int])),
    ("retry_for object", dict(retry_for=(object,))),
    ("retry_for KeyboardInterrupt", dict(retry_for=[KeyboardInterrupt])),
    ("retry_for BaseException", dict(retry_for={BaseException})),
    ("do_not_retry_for SystemExit", dict(do_not_retry_for=[SystemExit])),
    ("do_not_retry_for str class", dict(do_not_retry_for=[Base, str])),
    ("retry_for instance 1", dict(retry_for=[1])),
    ("do_not_retry_for instance", dict(do_not_retry_for=[Base("x")])),
    ("both lists", dict(retry_for=[Base], do_not_retry_for=[Base])),
    ("both lists among others", dict(retry_for=(SubA, Other), do_not_retry_for={Base, Other})),
    ("both lists list/tuple", dict(retry_for=[OSError, SubB], do_not_retry_for=(SubB,))),
    ("bare class", dict(retry_for=Base)),
    ("bare class dn", dict(do_not_retry_for=Other)),
    ("string", dict(retry_for="Base")),
    ("dict", dict(retry_for={Base: 1})),
    ("generator", "gen"),
    ("int", dict(do_not_retry_for=5)),
]
VALID = [
    ("attempts=1", dict(attempts=1)),
    ("hierarchy overlap is legal", dict(retry_for=[Base], do_not_retry_for=[SubA])),
    ("Exception itself", dict(retry_for=[Exception])),
    ("frozen spelling tuple", dict(retry_for=(Base, Other), do_not_retry_for=(OSError,))),
    ("attempts=1000", dict(attempts=1000, retry_delay=3)),
    ("a class named twice in one tuple", dict(retry_for=(Base, Base))),
    ("a class named twice in one list", dict(do_not_retry_for=[Other, SubA, Other])),
    ("aliases of OSError in one tuple", dict(retry_for=(__import__("socket").error, OSError))),
    ("aliases of OSError in one list", dict(retry_for=[IOError, OSError, EnvironmentError], do_not_retry_for=[Base])),
    ("aliases of OSError in a set", dict(retry_for={__import__("socket").error, OSError})),
    ("duplicates in both, no overlap", dict(retry_for=(SubA, SubA), do_not_retry_for=(SubB, SubB))),
    # two different classes that happen to have the same name (the builtin TimeoutError and multiprocessing's, an application's
    # own ConnectionError): classes are what the filters hold, not names
    ("same-named classes, one in each filter", dict(retry_for=[TimeoutError], do_not_retry_for=[__import__("multiprocessing").TimeoutError])),
    ("an application's own ConnectionError next to the builtin", dict(retry_for=[type("ConnectionError", (Exception,), {})], do_not_retry_for=[ConnectionError])),
    ("same-named classes in one filter", dict(retry_for=[type("Base", (Exception,), {}), Base], do_not_retry_for=[type("Other", (Exception,), {})])),
    ("generic names", dict(retry_for=[type("Error", (Exception,), {})], do_not_retry_for=[type("Error", (Exception,), {})])),
]


def config_cases(tier, seed):
    for i in range(len(INVALID)):
        yield ("invalid", i)
    for i in range(len(VALID)):
        yield ("valid", i)


def check_config(case):
    kind, i = case
    name, kw = (INVALID if kind == "invalid" else VALID)[i]
    if kw == "gen":
        kw = dict(retry_for=(c for c in [Base]))
    try:
        R.RetryingClient(Inner(()), **kw)
    except ValueError:
        if kind == "valid":
            raise Violation(["valid-config-rejected", name], "valid configuration (%s) rejected" % name)
        return True, ["invalid-rejected"]
    except Exception as e:  # noqa: BLE001
        if kind == "valid":
            raise Violation(["valid-config-rejected", name], "valid configuration (%s) rejected: %r" % (name, e))
        if "instance" in name or "str class" in name:
            return True, ["invalid-rejected"]  # issubclass() raises TypeError for non-classes: a rejection
        raise Violation(["invalid-config-wrong-error", name], "invalid configuration (%s) raised %r, not ValueError" % (name, e))
    if kind == "invalid":
        raise Violation(["invalid-config-accepted", name], "invalid configuration (%s) was accepted" % name)
    return True, ["valid-accepted"]


def dunder_cases(tier, seed):
    for attempts in (1, 2, 3):
        for seq in itertools.product((0, 1, 5), repeat=attempts):
            if 0 in seq:
                seq = seq[:seq.index(0) + 1]
            for form in ("getitem", "setitem", "delitem"):
                yield (attempts, tuple(seq), form)


class DictInner:
    def __init__(self, seq):
        self.seq = seq
        self.n = 0
        self.raised = []
        self.args = []

    def _do(self, *a, **k):
        i = self.n
        self.n += 1
        self.args.append((a, k))
        o = self.seq[i]
        if o == 0:
            return "value"
        e = CLASSES[o - 1]("x")
        self.raised.append(e)
        raise e

    get = set = delete = _do


def check_dunder(case):
    attempts, seq, form = case
    inner = DictInner(seq)
    saved = R.sleep
    R.sleep = lambda d: None
    try:
        rc = R.RetryingClient(inner, attempts=attempts)
        try:
            if form == "getitem":
                r = rc["k"]
            elif form == "setitem":
                rc["k"] = "v"
                r = "value"
            else:
                del rc["k"]
                r = "value"
            got = ("ok", r)
        except Exception as e:  # noqa: BLE001
            got = ("exc", e)
    finally:
        R.sleep = saved
    want_calls, want, _ = reference(attempts, seq, (), ())
    if inner.n != want_calls:
        raise Violation(["dunder-invocations"], "%s: inner invoked %d times, expected %d (%r)" % (form, inner.n, want_calls, case))
    if want[0] == "ok" and got != ("ok", "value"):
        raise Violation(["dunder-outcome"], "%s: got %r, expected the value (%r)" % (form, got, case))
    if want[0] == "exc" and not (got[0] == "exc" and got[1] is inner.raised[-1]):
        raise Violation(["dunder-outcome"], "%s: got %r, expected the final attempt's exception (%r)" % (form, got, case))
    return want_calls >= 2, ["dunder"]


def history_cases(tier, seed):
    """2-3 calls on the same RetryingClient object: each call must be decided by the configuration alone, never by what
    earlier calls on the object happened to raise (no state may leak from call to call)"""
    ncls = 4
    subs = _subsets(ncls)
    pairs = [(rf, dn) for rf in subs for dn in subs if not set(rf) & set(dn) and (rf or dn)]
    short = [(0,), (1, 0), (2, 0), (3, 0), (4, 0), (1,), (2,), (3,), (1, 2, 0), (2, 1, 0), (2, 2)]
    for rf, dn in pairs:
        for a in short:
            for b in short:
                yield (3, [a, b], rf, dn)
        for a, b, c in itertools.product(short[1:7], repeat=3):
            if (len(rf) + len(dn) + a[0] + b[0] + c[0]) % (3 if tier == "quick" else 1) == 0:
                yield (2, [a, b, c], rf, dn)


def check_history(case):
    attempts, seqs, rf, dn = case
    kw = {}
    if rf:
        kw["retry_for"] = [CLASSES[j] for j in rf]
    if dn:
        kw["do_not_retry_for"] = [CLASSES[j] for j in dn]
    saved = R.sleep
    sleeps = []
    R.sleep = sleeps.append
    try:
        inner = Inner(())
        rc = R.RetryingClient(inner, attempts=attempts, retry_delay=0.5, **kw)
        # half of the cases keep the looked-up method object and call it repeatedly (`get = rc.get` in a loop, or
        # rc.get handed over as a callback): the retry budget belongs to each call, not to the method object
        kept = rc.get if (len(seqs) + len(rf) + len(dn) + sum(map(len, seqs))) % 2 else None
        for ci, seq in enumerate(seqs):
            seq = tuple(seq)[:attempts] if 0 not in seq[:attempts] else tuple(seq)[:list(seq).index(0) + 1]
            inner.seq, inner.calls, inner.raised = seq + (0,) * attempts, [], []
            del sleeps[:]
            try:
                r = kept("k") if kept is not None else rc.get("k")
                got = ("ok",) if r is OKV else ("wrong-value",)
            except Exception as e:  # noqa: BLE001
                got = ("exc", [i for i, x in enumerate(inner.raised) if x is e][:1])
            padded = tuple(seq) + (0,) * attempts
            want_calls, want, _f = reference(attempts, padded, rf, dn)
            desc = "call %d%s of %r on one RetryingClient(attempts=%d, retry_for=%r, do_not_retry_for=%r)" % (
                ci, " (through a kept `rc.get` method object)" if kept is not None else "", [[("ok" if o == 0 else CLASSES[o - 1].__name__) for o in s_] for s_ in seqs], attempts,
                [CLASSES[j].__name__ for j in rf], [CLASSES[j].__name__ for j in dn])
            if len(inner.calls) != want_calls:
                raise Violation(["history-invocations"], "inner invoked %d times, expected %d: %s" % (len(inner.calls), want_calls, desc))
            if (want[0] == "ok") != (got[0] == "ok"):
                raise Violation(["history-outcome"], "outcome %r, expected %r: %s" % (got, want, desc))
            if sleeps != [0.5] * (want_calls - 1):
                raise Violation(["history-sleeps"], "sleeps %r, expected %r: %s" % (sleeps, [0.5] * (want_calls - 1), desc))
    finally:
        R.sleep = saved
    return True, ["history", "calls=%d" % len(seqs)]


# ---- the library's own exception classes and the ones sockets raise ---------------------------------------------------

def _lib_classes():
    import socket
    from pymemcache import exceptions as X
    return [X.MemcacheError, X.MemcacheClientError, X.MemcacheIllegalInputError, X.MemcacheServerError, X.MemcacheUnexpectedCloseError,
            X.MemcacheUnknownCommandError, socket.timeout, ConnectionResetError, KeyError]


def lib_cases(tier, seed):
    n = len(_lib_classes())
    rfs = [(), (0,), (1,), (2,), (3,), (6, 7), (0, 8)]
    dns = [(), (2,), (4,), (8,), (1,), (5, 6)]
    pairs = [(rf, dn) for rf in rfs for dn in dns if not set(rf) & set(dn)]
    for attempts in (2, 3) if tier == "quick" else (2, 3, 4):
        seqs = set()
        for full in itertools.product(range(0, n + 1), repeat=attempts):
            if attempts == 4 and (sum(full) % 3):
                continue
            if 0 in full:
                full = full[:full.index(0) + 1]
            seqs.add(full)
        for seq in sorted(seqs):
            for pi, (rf, dn) in enumerate(pairs):
                yield (attempts, seq, rf, dn, pi % 3, (0, 0.25)[(pi + len(seq)) % 2], (pi + attempts) % 3)


def check_lib(case):
    """the same decision table over pymemcache's own exception hierarchy and socket errors: no class is special"""
    global CLASSES
    saved = CLASSES
    CLASSES = _lib_classes()
    try:
        nt, labels = check(case)
    finally:
        CLASSES = saved
    return nt, ["library-exceptions"] + labels


# ---- exception classes with two bases -----------------------------------------------------------------------------------

class Both(SubA, Other):
    """matches a filter naming Base or SubA, and one naming Other"""


class OsOther(OSError, Other):
    pass


import abc as _abc


class Transient(Exception, metaclass=_abc.ABCMeta):
    """a marker class: exception types are *registered* with it (Transient.register(SubB)), so that isinstance / issubclass say
    yes although it is in nobody's list of bases - the way collections.abc classes are matched"""


Transient.register(SubB)
Transient.register(ConnectionResetError)


def _diamond_classes():
    import io
    import ssl
    # io.UnsupportedOperation is (OSError, ValueError); ssl.SSLCertVerificationError is (SSLError, ValueError)
    # (index 4, Transient, matches SubB and ConnectionResetError by registration only)
    return [Base, SubA, Other, OSError, Transient, Both, OsOther, io.UnsupportedOperation, ssl.SSLCertVerificationError, SubB, ConnectionResetError, ValueError]


def diamond_cases(tier, seed):
    """an exception may match retry_for through one base class and do_not_retry_for through another (the two filters themselves
    share no class): do_not_retry_for wins, as for any other exception"""
    n = len(_diamond_classes())
    filt = [c for r in (0, 1, 2) for c in itertools.combinations((0, 1, 2, 3, 4, 11), r)]
    pairs = [(rf, dn) for rf in filt for dn in filt if not set(rf) & set(dn)]
    for attempts in (2, 3):
        seqs = set()
        for full in itertools.product(range(0, n + 1), repeat=attempts):
            if attempts == 3 and not any(o > 5 for o in full):
                continue
            if 0 in full:
                full = full[:full.index(0) + 1]
            seqs.add(full)
        for seq in sorted(seqs):
            for pi, (rf, dn) in enumerate(pairs):
                if tier == "quick" and attempts == 3 and (pi + sum(seq)) % 3:
                    continue
                yield (attempts, seq, rf, dn, pi % 3, (0, 0.25)[(pi + len(seq)) % 2], (pi + attempts) % 3)


def check_diamond(case):
    global CLASSES
    saved = CLASSES
    CLASSES = _diamond_classes()
    try:
        nt, labels = check(case)
    finally:
        CLASSES = saved
    cls = _diamond_classes()
    two = any(o > 5 for o in case[1])
    return nt, ["two-base-exception" if two else "one-base-exceptions"] + labels


# ---- results that are exception objects ---------------------------------------------------------------------------

def returned_exception_cases(tier, seed):
    ncls = 4
    subs = _subsets(ncls)
    pairs = [(rf, dn) for rf in subs for dn in subs if not set(rf) & set(dn)]
    for attempts in (1, 2, 3):
        for fails in [f for nf in range(attempts) for f in itertools.product(range(1, ncls + 1), repeat=nf)]:      # the success may come on any attempt
            for ret in range(1, ncls + 1):
                for pi, (rf, dn) in enumerate(pairs):
                    yield (attempts, tuple(fails) + (-ret,), rf, dn, (pi + ret) % 3)


def check_returned_exception(case):
    """the wrapped call succeeds and its return value happens to be an exception instance: returned unchanged, no retry"""
    attempts, seq, rf, dn, meth = case
    kw = {}
    if rf:
        kw["retry_for"] = [CLASSES[j] for j in rf]
    if dn:
        kw["do_not_retry_for"] = [CLASSES[j] for j in dn]
    saved = R.sleep
    sleeps = []
    R.sleep = sleeps.append
    try:
        inner = Inner(seq)
        rc = R.RetryingClient(inner, attempts=attempts, retry_delay=0.5, **kw)
        try:
            got = ("ok", getattr(rc, METHODS[meth])("k"))
        except AssertionError:
            got = ("too-many-calls",)
        except Exception as e:  # noqa: BLE001
            got = ("exc", e)
    finally:
        R.sleep = saved
    # reference: failures before the returning attempt are retried or not as usual; the returning attempt ends the call
    fails = seq[:-1]
    want_calls, want, _f = reference(attempts, tuple(fails) + (0,), rf, dn)
    desc = "attempts=%d outcomes=%r retry_for=%r do_not_retry_for=%r" % (
        attempts, [CLASSES[o - 1].__name__ for o in fails] + ["returns a %s instance" % CLASSES[-seq[-1] - 1].__name__],
        [CLASSES[j].__name__ for j in rf], [CLASSES[j].__name__ for j in dn])
    if len(inner.calls) != want_calls:
        raise Violation(["returned-exception", "invocations"], "inner invoked %d times, expected %d: %s" % (len(inner.calls), want_calls, desc))
    if want[0] == "ok":
        if not (got[0] == "ok" and got[1] is getattr(inner, "returned", None)):
            raise Violation(["returned-exception", "outcome"], "outcome %r, expected the returned object itself: %s" % (got, desc))
    elif got[0] != "exc" or got[1] is not inner.raised[-1]:
        raise Violation(["returned-exception", "outcome"], "outcome %r, expected the exception of attempt %d: %s" % (got, want_calls - 1, desc))
    if sleeps != [0.5] * (want_calls - 1):
        raise Violation(["returned-exception", "sleeps"], "sleeps %r, expected %r: %s" % (sleeps, [0.5] * (want_calls - 1), desc))
    return True, ["returned-exception", "calls=%d" % want_calls]


def ambient_cases(tier, seed):
    ncls = 4
    subs = _subsets(ncls)
    pairs = [(rf, dn) for rf in subs for dn in subs if not set(rf) & set(dn) and (rf or dn)]
    for attempts in (2, 3):
        seqs = set()
        for full in itertools.product(range(0, ncls + 1), repeat=attempts):
            if 0 in full:
                full = full[:full.index(0) + 1]
            seqs.add(full)
        for seq in sorted(seqs):
            for pi, (rf, dn) in enumerate(pairs):
                for amb in range(ncls):
                    if tier == "quick" and (pi + amb + len(seq)) % 2:
                        continue
                    yield (attempts, seq, rf, dn, pi % 3, 0.25, (pi + amb) % 3, amb)


# ---- whatever a successful call returns is the result -----------------------------------------------------------------

RESULTS = {"failed-keys": ["k2"], "empty-list": [], "false": False, "none": None, "zero": 0, "empty-dict": {}, "partial-dict": {"k1": b"v"}, "pair-of-none": (None, None), "true": True}
RESULT_METHODS = ["set_many", "set_multi", "get_many", "delete_many", "set", "get", "gets", "incr", "touch", "add"]


class AnyInner:
    """a wrapped client offering the multi-key and single-key method names, returning what the case says"""

    def __init__(self, seq, result):
        self.seq, self.result, self.calls, self.raised = seq, result, [], []

    def _do(self, *a, **k):
        i = len(self.calls)
        self.calls.append((a, k))
        if i >= len(self.seq):
            raise AssertionError("inner invoked more often than outcomes exist")
        if self.seq[i] == 0:
            return self.result
        e = CLASSES[self.seq[i] - 1]("attempt %d" % i)
        self.raised.append(e)
        raise e


for _m in RESULT_METHODS:
    setattr(AnyInner, _m, AnyInner._do)


def any_result_cases(tier, seed):
    for attempts in (1, 2, 3):
        for fails in [f for nf in range(attempts) for f in itertools.product(range(1, 3), repeat=nf)]:      # the success may come on any attempt
            for rname in RESULTS:
                for mi, meth in enumerate(RESULT_METHODS):
                    for rf, dn in (((), ()), ((0,), ()), ((), (3,)), ((1,), (2,))):
                        yield (attempts, tuple(fails) + (0,), rf, dn, meth, rname)


def check_any_result(case):
    """a call that returns - a list of refused keys, an empty or partial dict, False, None, 0 - has succeeded: its value comes
    back unchanged, without another attempt and without a sleep, whatever the method is called"""
    attempts, seq, rf, dn, meth, rname = case
    kw = {}
    if rf:
        kw["retry_for"] = [CLASSES[j] for j in rf]
    if dn:
        kw["do_not_retry_for"] = [CLASSES[j] for j in dn]
    result = RESULTS[rname]
    saved = R.sleep
    sleeps = []
    R.sleep = sleeps.append
    try:
        inner = AnyInner(seq, result)
        rc = R.RetryingClient(inner, attempts=attempts, retry_delay=0.5, **kw)
        try:
            got = ("ok", getattr(rc, meth)({"k1": b"v", "k2": b"w"}))
        except AssertionError:
            got = ("too-many-calls",)
        except Exception as e:  # noqa: BLE001
            got = ("exc", e)
    finally:
        R.sleep = saved
    want_calls, want, _f = reference(attempts, seq, rf, dn)
    desc = "%s() with attempts=%d outcomes=%r retry_for=%r do_not_retry_for=%r" % (
        meth, attempts, [CLASSES[o - 1].__name__ for o in seq[:-1]] + ["returns %r" % (result,)], [CLASSES[j].__name__ for j in rf], [CLASSES[j].__name__ for j in dn])
    if len(inner.calls) != want_calls:
        raise Violation(["any-result", "invocations", meth], "inner invoked %d times, expected %d: %s" % (len(inner.calls), want_calls, desc))
    if want[0] == "ok":
        if not (got[0] == "ok" and got[1] is result):
            raise Violation(["any-result", "outcome", meth], "outcome %r, expected the returned object itself: %s" % (got, desc))
    elif got[0] != "exc" or got[1] is not inner.raised[-1]:
        raise Violation(["any-result", "outcome", meth], "outcome %r, expected the exception of attempt %d: %s" % (got, want_calls - 1, desc))
    if sleeps != [0.5] * (want_calls - 1):
        raise Violation(["any-result", "sleeps", meth], "sleeps %r, expected %r: %s" % (sleeps, [0.5] * (want_calls - 1), desc))
    return True, ["any-result", meth, rname]


class DynInner:
    """a wrapped client whose operations are attributes of the INSTANCE (a stub, a namespace object, a client given an
    extra per-instance helper): which names exist differs from one instance of the class to the next"""

    def __init__(self, names):
        self.seq, self.calls, self.raised = (), [], []
        for n in names:
            setattr(self, n, self._do)

    _do = Inner._do


NAMESETS = [("get",), ("get", "fetch"), ("lookup",), ("fetch", "lookup", "store"), ()]


def instance_cases(tier, seed):
    """several RetryingClients alive at once around different instances of one class"""
    outcomes = [(1, 0), (2, 2, 0), (1, 1, 1), (0,), (4, 0)]
    for a in NAMESETS:
        for b in NAMESETS:
            for c in (NAMESETS if tier == "thorough" else NAMESETS[:2]):
                for oi, seq in enumerate(outcomes):
                    for rf, dn in (((), ()), ((0,), ()), ((), (3,))):
                        yield (3, [a, b, c], seq, rf, dn)


def check_instances(case):
    attempts, namesets, seq, rf, dn = case
    kw = {}
    if rf:
        kw["retry_for"] = [CLASSES[j] for j in rf]
    if dn:
        kw["do_not_retry_for"] = [CLASSES[j] for j in dn]
    saved = R.sleep
    sleeps = []
    R.sleep = sleeps.append
    try:
        inners = [DynInner(ns) for ns in namesets]
        rcs = [R.RetryingClient(i, attempts=attempts, retry_delay=0.25, **kw) for i in inners]
        n = 0
        for rnd in (0, 1):
            for wi in (range(len(rcs)) if rnd == 0 else reversed(range(len(rcs)))):
                inner, rc = inners[wi], rcs[wi]
                for name in namesets[wi]:
                    n += 1
                    padded = tuple(seq) + (0,) * attempts
                    inner.seq, inner.calls, inner.raised = padded, [], []
                    del sleeps[:]
                    try:
                        r = getattr(rc, name)("k")
                        got = ("ok",) if r is OKV else ("wrong-value",)
                    except Exception as e:  # noqa: BLE001
                        got = ("exc", [i for i, x in enumerate(inner.raised) if x is e][:1])
                    want_calls, want, _f = reference(attempts, padded, rf, dn)
                    desc = "%s() on wrapper %d of %d RetryingClients around instances of one class offering %r; outcomes %r, attempts=%d retry_for=%r do_not_retry_for=%r" % (
                        name, wi, len(rcs), namesets, [("ok" if o == 0 else CLASSES[o - 1].__name__) for o in seq], attempts,
                        [CLASSES[j].__name__ for j in rf], [CLASSES[j].__name__ for j in dn])
                    if len(inner.calls) != want_calls:
                        raise Violation(["instances-invocations"], "inner invoked %d times, expected %d: %s" % (len(inner.calls), want_calls, desc))
                    if (want[0] == "ok") != (got[0] == "ok") or (want[0] == "exc" and got != ("exc", [want_calls - 1])):
                        raise Violation(["instances-outcome"], "outcome %r, expected %r: %s" % (got, want, desc))
                    if sleeps != [0.25] * (want_calls - 1):
                        raise Violation(["instances-sleeps"], "sleeps %r, expected %r: %s" % (sleeps, [0.25] * (want_calls - 1), desc))
                    if name not in dir(rc):
                        raise Violation(["instances-dir"], "dir() of the wrapper lacks %r: %s" % (name, desc))
    finally:
        R.sleep = saved
    return n > 0 and len({tuple(x) for x in namesets}) > 1, ["instances", "calls=%d" % min(n, 5)]


# ---- around the library's own clients, every public spelling of a command -----------------------------------------------

REAL_CALLS = [
    ("get", ("t",), {}), ("get_many", (["t", "n"],), {}), ("get_multi", (["t", "n"],), {}), ("gets", ("t",), {}), ("gets_many", (["t"],), {}),
    ("set", ("k", b"v"), {"noreply": False}), ("set_many", ({"a": b"1", "b": b"2"},), {"noreply": False}), ("set_multi", ({"a": b"1", "b": b"2"},), {"noreply": False}),
    ("delete", ("t",), {"noreply": False}), ("delete_many", (["t", "n"],), {"noreply": False}), ("delete_multi", (["t", "n"],), {"noreply": False}),
    ("incr", ("n", 2), {}), ("touch", ("t", 5), {"noreply": False}), ("add", ("fresh", b"v"), {"noreply": False}), ("gat", ("t", 7), {}),
    # every argument passed by the name the wrapped method documents for it
    ("get", (), {"key": "t", "default": None}), ("set", (), {"key": "k", "value": b"v", "expire": 0, "noreply": False, "flags": None}), ("delete", (), {"key": "t", "noreply": False}),
    ("incr", (), {"key": "n", "value": 2, "noreply": False}), ("touch", (), {"key": "t", "expire": 5, "noreply": False}), ("get_many", (), {"keys": ["t", "n"]}),
    ("set_many", (), {"values": {"a": b"1"}, "expire": 0, "noreply": False}), ("cas", (), {"key": "nokey", "value": b"v", "cas": b"1", "expire": 0, "noreply": False}),
    ("raw_command", (), {"command": b"version", "end_tokens": b"\r\n"}), ("raw_command", (b"version",), {}), ("flush_all", (), {"delay": 0, "noreply": False}),
    ("stats", ("settings",), {}), ("version", (), {}), ("cache_memlimit", (), {"memlimit": 64}),
]
REAL_FILTERS = [({}, True), ({"retry_for": [OSError]}, True), ({"retry_for": [ConnectionError]}, True), ({"retry_for": [ValueError]}, False),
                ({"do_not_retry_for": [OSError]}, False), ({"do_not_retry_for": [ValueError]}, True), ({"retry_for": [OSError], "do_not_retry_for": [BrokenPipeError]}, False)]


def real_cases(tier, seed):
    for kind in ("client", "pooled", "hash", "hash-pooled", "aws", "client:namespace", "pooled:namespace"):
        for ci in range(len(REAL_CALLS)):
            for fi in range(len(REAL_FILTERS)):
                for attempts in (1, 2, 3):
                    yield {"kind": kind, "call": ci, "filter": fi, "attempts": attempts}


def check_real(case):
    """RetryingClient around the library's own clients (and around stacks built on a Client subclass): the first attempt of a
    command fails with a broken pipe before anything is sent; whether the command is attempted again - and then answers like an undisturbed
    call - depends on attempts and the filters alone, not on which public spelling of the command was used"""
    from vlib import faultlab, subclasses
    from vlib.harness import Env, virtual_time
    name, args, kw = REAL_CALLS[case["call"]]
    fkw, retryable = REAL_FILTERS[case["filter"]]
    kind, _, sub = case["kind"].partition(":")
    if kind.startswith(("hash", "aws")) and name in ("gat",) and False:
        return False, ["n/a"]
    outcomes = []
    for faulty in (False, True):
        env = Env()
        faultlab.preload(env.server, b"")
        if sub:
            faultlab.preload(env.server, b"ns.")
        with virtual_time(env.clock):
            hkw = {"retry_timeout": 1, "retry_attempts": 2} if kind.startswith(("hash", "aws")) else {}
            c = env.client(kind, default_noreply=False, **hkw, **({"client_class": subclasses.CLIENT_CLASSES[sub]} if sub else {}))
            # (two seconds between attempts: a hash client tries a failing server again only after its retry_timeout)
            rc = R.RetryingClient(c, attempts=case["attempts"], retry_delay=2, **fkw)
            if not hasattr(c, name):
                return False, ["not-offered"]
            import inspect
            try:
                inspect.signature(getattr(c, name)).bind(*args, **kw)
            except TypeError:
                return False, ["other-signature"]      # (this class spells the parameters otherwise)
            env.call(rc.get, "warm-up")
            n0 = len(env.server.log)
            if faulty:
                # (the command does not reach the server, so that the second attempt finds what an undisturbed call finds)
                env.net.plan([{"call": env.ncalls, "kind": "sendall", "nth": 0, "what": "pipe", "delivered": "none"}])
            saved = R.sleep
            R.sleep = env.clock.advance
            try:
                out = env.call(getattr(rc, name), *args, **kw)
            finally:
                R.sleep = saved
            outcomes.append((out, len(env.server.log) - n0))
            c.close()
    (clean, n_clean), (got, n_got) = outcomes
    desc = "RetryingClient(%s, attempts=%d, %r).%s%r with a broken pipe at the first attempt's send" % (case["kind"], case["attempts"], fkw, name, args)
    if clean[0] != "ok":
        raise Violation(["real", "undisturbed-call-raises", name], "the undisturbed call raised %r: %s" % (clean[1], desc))
    again = retryable and case["attempts"] >= 2
    if again:
        if got[0] != "ok" or repr(got[1]) != repr(clean[1]):
            raise Violation(["real", "not-retried", name], "gave %r, an undisturbed call %r - the command was not attempted again although attempts and filters allow it: %s" % (got, clean, desc))
    else:
        if got[0] != "exc" or not isinstance(got[1], BrokenPipeError):
            raise Violation(["real", "retried-or-swallowed", name], "gave %r; the error of the only permitted attempt should have reached the caller: %s" % (got, desc))
    return True, ["real", name, "again" if again else "once"]


# ---- one RetryingClient for a long time ---------------------------------------------------------------------------------

class CountingInner:
    def __init__(self, fails_per_call):
        self.fails_per_call = fails_per_call
        self.n = 0
        self.this = 0

    def op(self, tag):
        self.n += 1
        self.this += 1
        if self.this <= self.fails_per_call:
            raise Base("attempt %d of call %r" % (self.this, tag))
        self.this = 0
        return tag


def long_life_cases(tier, seed):
    for attempts, fails in ((2, 1), (3, 2), (3, 1), (2, 2)):
        for delay in (0.25, 0):
            yield {"attempts": attempts, "fails": fails, "delay": delay, "calls": 2600 if tier == "quick" else 70000}


def check_long_life(case):
    """one RetryingClient object used for thousands of calls, each of which needs retries: the thousandth call is retried, slept
    for and answered like the first"""
    attempts, fails, delay = case["attempts"], case["fails"], case["delay"]
    inner = CountingInner(fails)
    rc = R.RetryingClient(inner, attempts=attempts, retry_delay=delay)
    sleeps = []
    saved = R.sleep
    R.sleep = sleeps.append
    try:
        for i in range(case["calls"]):
            del sleeps[:]
            before = inner.n
            try:
                got = ("ok", rc.op(i))
            except Base as e:
                got = ("exc", str(e))
                inner.this = 0
            made = inner.n - before
            want_made = min(fails + 1, attempts)
            want = ("ok", i) if fails < attempts else ("exc", "attempt %d of call %r" % (attempts, i))
            want_sleeps = [delay] * (want_made - 1)
            if got != want or made != want_made or sleeps != want_sleeps:
                raise Violation(["long-life", "differs-from-the-first-call"], "call number %d on one RetryingClient(attempts=%d, retry_delay=%r), each call failing %d time(s) first: result %r after %d attempt(s) and sleeps %r; expected %r, %d, %r"
                                % (i + 1, attempts, delay, fails, got, made, sleeps, want, want_made, want_sleeps))
    finally:
        R.sleep = saved
    return True, ["long-life", "attempts=%d" % attempts]


# ---- several calls in flight on one RetryingClient --------------------------------------------------------------------

class TurnInner:
    """two commands whose attempts proceed in a scripted order (threads) or of which one runs the other from inside (re-entrant)"""

    def __init__(self, fails, turns=None, nest_at=None):
        import threading
        self.fails = dict(fails)            # command -> number of failing attempts before it succeeds
        self.calls = {"a": 0, "b": 0}
        self.turns = list(turns or ())
        self.cv = threading.Condition()
        self.rc = None
        self.nest_at = nest_at              # attempt number of `a` (1-based) during which it calls rc.b()
        self.nested = []

    def _turn(self, who):
        if not self.turns:
            return
        with self.cv:
            ok = self.cv.wait_for(lambda: not self.turns or self.turns[0] == who, timeout=20)
            if not ok:
                raise RuntimeError("harness: turn order cannot be followed")
            if self.turns:
                self.turns.pop(0)
            self.cv.notify_all()

    def _do(self, who):
        self._turn(who)
        self.calls[who] += 1
        n = self.calls[who]
        if who == "a" and self.nest_at == n:
            try:
                self.nested.append(("ok", self.rc.b()))
            except Exception as e:  # noqa: BLE001
                self.nested.append(("exc", e))
        if n <= self.fails[who]:
            raise Base("%s-%d" % (who, n))
        return "%s-ok" % who

    def a(self):
        return self._do("a")

    def b(self):
        return self._do("b")


def inflight_cases(tier, seed):
    for attempts in (1, 2, 3):
        for fa in range(0, attempts + 1):
            for fb in range(0, attempts + 1):
                # re-entrant: command a, during its attempt number `nest_at`, runs command b through the same RetryingClient
                for nest_at in range(1, min(fa + 1, attempts) + 1):
                    yield {"mode": "reentrant", "attempts": attempts, "fails": [fa, fb], "nest_at": nest_at}
                # two threads: every order in which the attempts of the two commands can follow each other
                na, nb = min(fa + 1, attempts), min(fb + 1, attempts)
                for order in set(itertools.permutations("a" * na + "b" * nb)):
                    yield {"mode": "threads", "attempts": attempts, "fails": [fa, fb], "order": "".join(order)}


def check_inflight(case):
    """each call on a RetryingClient has its own budget of attempts, whatever other calls are in flight on the same object -
    from another thread, or started by the wrapped client from inside the call"""
    import threading
    attempts, (fa, fb) = case["attempts"], case["fails"]
    want = {w: (("ok", "%s-ok" % w) if f < attempts else ("exc", "%s-%d" % (w, attempts)), min(f + 1, attempts)) for w, f in (("a", fa), ("b", fb))}
    inner = TurnInner({"a": fa, "b": fb}, turns=case.get("order"), nest_at=case.get("nest_at"))
    rc = R.RetryingClient(inner, attempts=attempts)
    inner.rc = rc
    got = {}

    def run(who):
        try:
            got[who] = ("ok", getattr(rc, who)())
        except Base as e:
            got[who] = ("exc", str(e))
        except Exception as e:  # noqa: BLE001
            got[who] = ("exc", repr(e))
    desc = "RetryingClient(attempts=%d); command a fails %d time(s), command b %d time(s); %s" % (
        attempts, fa, fb, "a runs b through the same object during its attempt %d" % case["nest_at"] if case["mode"] == "reentrant" else "two threads, attempts in the order %s" % case["order"])
    if case["mode"] == "reentrant":
        run("a")
        if inner.nested:
            got["b"] = inner.nested[0] if inner.nested[0][0] == "ok" else ("exc", str(inner.nested[0][1]))
        nb_want = want["b"][1]
    else:
        ts = [threading.Thread(target=run, args=(w,)) for w in "ab"]
        for t in ts:
            t.start()
        for t in ts:
            t.join(30)
        if any(t.is_alive() for t in ts):
            with inner.cv:
                inner.turns = []
                inner.cv.notify_all()
            for t in ts:
                t.join(5)
            raise Violation(["inflight", "order-not-followed"], "the attempts did not happen in the scripted order (a call made fewer or more attempts than its budget allows): %s" % desc)
    for w in "ab":
        if w not in got:
            continue
        if got[w] != want[w][0] or inner.calls[w] != want[w][1]:
            raise Violation(["inflight", case["mode"], "budget-shared"], "command %s ended as %r after %d attempt(s); on its own it ends as %r after %d: %s"
                            % (w, got[w], inner.calls[w], want[w][0], want[w][1], desc))
    return (fa > 0 or fb > 0) and attempts > 1, ["inflight", case["mode"]]


PARTS = [
    Part("long-lives", "enum", check_long_life, cases=long_life_cases, shards={"quick": 4, "thorough": 8}),
    Part("calls-in-flight-together", "enum", check_inflight, cases=inflight_cases, exhaustive=True),
    Part("around-the-library's-clients", "enum", check_real, cases=real_cases, exhaustive=True),
    Part("exceptions-with-two-bases", "enum", check_diamond, cases=diamond_cases, exhaustive=True, distinct_by_construction=True),
    Part("library-exception-classes", "enum", check_lib, cases=lib_cases, exhaustive=True, distinct_by_construction=True),
    Part("results-that-are-exceptions", "enum", check_returned_exception, cases=returned_exception_cases, exhaustive=True),
    Part("calls-from-an-except-block", "enum", check, cases=ambient_cases, exhaustive=True, distinct_by_construction=True),
    Part("results-of-any-kind", "enum", check_any_result, cases=any_result_cases, exhaustive=True),
    Part("wrapped-instances", "enum", check_instances, cases=instance_cases, exhaustive=True),
    Part("decision-table", "enum", check, cases=cases, exhaustive=True, distinct_by_construction=True),
    Part("configurations", "enum", check_config, cases=config_cases, shards={"quick": 1, "thorough": 1}, exhaustive=True),
    Part("dunder", "enum", check_dunder, cases=dunder_cases, shards={"quick": 1, "thorough": 1}, exhaustive=True),
    Part("call-histories", "enum", check_history, cases=history_cases, exhaustive=True, distinct_by_construction=True),
]

"""C14 - murmur3_32 equals the reference MurmurHash3 x86_32."""
import itertools

from hypothesis import strategies as st

from vlib import refhash
from vlib.runner import Part, Violation

from pymemcache.client.murmur3 import murmur3_32

PROPERTY = "C14"
LEVEL = "exploration"
# parts repeated in a child interpreter started with -O and with warnings turned into errors (vlib/runner.py, MODES)
MODE_PARTS = {"OW": ['vectors', 'every-length', 'ring-hash-function', 'str-subclasses']}
RULE_THREADS = (" The hash function a RendezvousHash(seed=s) holds (fresh, built with nodes=, copy.copy, copy.deepcopy) equals the reference with seed s. Instances of str subclasses (a plain subclass, one overriding __str__/__repr__/__format__, a str-valued Enum member) hash as their characters. Two threads: each hashes its own string while the other is pre-empted at every bytecode of the hash function (deterministic scheduler, one pre-emption per run; thorough: two) - every call still returns the reference value (the function is a pure function of its arguments, also under concurrency). One RendezvousHash shared by two threads, pre-empted once (some twice) at every bytecode of the ring's code: every lookup gives what the rule gives. Input lengths run to 800 (every length) and a few far beyond: the function has no bound, and a node name, a dash and a 250-byte key make some 300 bytes. One long-lived ring places 18 000 to 40 000 different keys (more than 65 536 scored strings) like the rule. Strings with code points above 255 (non-ASCII keys under allow_unicode_keys) must keep the value every release so far gives them - the reference hash of the code points' low bytes - since placement must not change between releases. Placement under genuine ties: pairs of server names whose scores for a key are equal under the real hash (the second name is computed by inverting the hash's rounds) are placed by RendezvousHash as the published rule says - the greater name wins in either order. Other packages installed: with a stand-in for a hashing package of a well-known name (mmh3, pymmh3, murmurhash3: MurmurHash3 of bytes, str encoded as UTF-8) importable and the library's modules re-imported, the built-in function and the ring still give the reference values.")
RULE = ("cases are (string, 32-bit seed); enumerated: published vectors, every string of length 0-3 "
        "(thorough: 0-3 over a larger alphabet, 4-5 over reduced ones) over representative code points "
        "incl. 0x00,0x7f,0x80,0xff x seeds {0,1,2^31,2^32-1}; Hypothesis: every length 0..64 over code "
        "points 0..255 with random seeds, and arbitrary Unicode for determinism/range. Oracle: an "
        "independent byte-oriented MurmurHash3_x86_32 (validated against 24 published vectors, and "
        "cross-checked against Appleby's C routine when cc exists). Non-trivial: length % 4 != 0 (tail "
        "path), or a code point >= 0x80 in the 4th position of a block (un-masked load), or seed >= 2^31, "
        "or a code point > 255." + RULE_THREADS)
MANIFEST = {
    "category": "exploration",
    "technique": "bounded-exhaustive enumeration + Hypothesis random strings, differential against an independent reference MurmurHash3 (Python, and C via ctypes); schedule enumeration (every single pre-emption point of one call, deterministic opcode-level scheduler) for two concurrent callers",
    "text": "Every string up to length 3-5 over representative alphabets x 4 boundary seeds is enumerated, every length 0..64 and random seeds are sampled; each result is compared with an independent MurmurHash3_x86_32 validated on 24 published vectors. Right level: the function is pure and tiny, the bug classes (masking, tail, rotation, sign) are all reachable by short inputs.",
    "note": "Trusts vlib/refhash.py (validated against published vectors and the C original) and CPython integer arithmetic.",
    "design_ref": "DESIGN.md 3/C14"
}
ASSUMPTIONS = [
    "the reference implementation in vlib/refhash.py is MurmurHash3_x86_32 (checked against published vectors and, when cc is present, against the C original on every case)",
    "strings within code points 0..255 stand for the bytes with those values",
]

SEEDS = [0, 1, 2**31, 2**32 - 1]
REPS24 = [0x00, 0x01, 0x09, 0x0A, 0x0D, 0x20, 0x2D, 0x30, 0x39, 0x3A, 0x41, 0x5A, 0x61, 0x7A, 0x7E, 0x7F,
          0x80, 0x81, 0x9F, 0xA0, 0xC3, 0xE9, 0xFE, 0xFF]
REPS8 = [0x00, 0x2D, 0x61, 0x7F, 0x80, 0xC3, 0xFE, 0xFF]
REPS5 = [0x00, 0x61, 0x7F, 0x80, 0xFF]
REPS64 = sorted(set(REPS24 + list(range(0x28, 0x40)) + list(range(0xB0, 0xC0))))[:64]


def _nontrivial(s, seed):
    if len(s) % 4 != 0 or seed >= 2**31:
        return True
    full = len(s) & ~3
    return any(ord(s[i]) >= 0x80 for i in range(3, full, 4)) or any(ord(c) > 255 for c in s)


def check(case):
    s, seed = case
    try:
        got = murmur3_32(s, seed)
        again = murmur3_32(s, seed)
    except Exception as e:  # noqa: BLE001
        raise Violation(["raises", type(e).__name__], "murmur3_32(%r, %#x) raised %r" % (s[:40], seed, e))
    labels = ["len%%4=%d" % (len(s) % 4)]
    if type(got) is not int or not (0 <= got < 2**32):
        raise Violation(["range"], "murmur3_32(%r, %#x) = %r is not a 32-bit unsigned int" % (s[:40], seed, got))
    if got != again:
        raise Violation(["nondeterministic"], "murmur3_32(%r, %#x) gave %r then %r" % (s[:40], seed, got, again))
    b = refhash.latin1(s)
    if b is None:
        labels.append("non-latin1")
        # "placement does not change between releases": for a string with code points above 255 the pinned release's value is
        # the reference hash of every code point's low byte (bits above the 32nd never come back down: every right shift is
        # masked first) - frozen here as the value such strings (non-ASCII keys with allow_unicode_keys) keep
        low = bytes(ord(ch) & 0xFF for ch in s)
        frozen = refhash.murmur3(low, seed)
        if got != frozen:
            raise Violation(["wide-string-value-changed"],
                            "murmur3_32(%r, %#x) = %#010x; every release so far gives %#010x (the reference hash of the code points' low bytes): placement of such keys would move"
                            % (s[:40], seed, got, frozen))
        tail = s[len(s) & ~3:]
        if any(ord(ch) > 255 for ch in tail):
            labels.append("wide-char-in-tail")
        return True, labels
    want = refhash.murmur3(b, seed)
    c = refhash.c_reference()
    if c is not None and c(b, seed) != want:
        raise AssertionError("references disagree with each other on %r" % (b,))
    if got != want:
        raise Violation(["differs-from-reference"],
                        "murmur3_32(%r, %#x) = %#010x, reference MurmurHash3_x86_32 = %#010x" % (s[:40], seed, got, want))
    if seed >= 2**31:
        labels.append("seed>=2^31")
    return _nontrivial(s, seed), labels


def vector_cases(tier, seed):
    for data, sd, _want in refhash.VECTORS:
        yield (data.decode("latin-1"), sd)


def check_vector(case):
    # Published vectors: compare with the literal published value, not with the reference.
    s, seed = case
    want = next(w for d, sd, w in refhash.VECTORS if d.decode("latin-1") == s and sd == seed)
    got = murmur3_32(s, seed)
    if got != want:
        raise Violation(["published-vector"], "murmur3_32(%r, %#x) = %#010x, published %#010x" % (s[:40], seed, got, want))
    return True, ["vector"]


def short_cases(tier, seed):
    if tier == "quick":
        plan = [(0, REPS24), (1, REPS24), (2, REPS24), (3, REPS24), (4, REPS8), (5, REPS8)]
    else:
        plan = [(0, REPS64), (1, list(range(256))), (2, REPS64), (3, REPS64), (4, REPS24[::2] + [0xFF]),
                (5, REPS8 + [0x01, 0x20]), (6, REPS5), (7, REPS5), (8, REPS5)]
    for n, alpha in plan:
        chars = [chr(c) for c in alpha]
        for t in itertools.product(chars, repeat=n):
            s = "".join(t)
            for sd in SEEDS:
                yield (s, sd)


def latin1_strategy(tier):
    seeds = st.one_of(st.sampled_from(SEEDS), st.integers(0, 2**32 - 1))
    length = st.one_of(st.integers(0, 64), st.integers(0, 64), st.integers(65, 1500))
    chars = st.one_of(st.characters(min_codepoint=0, max_codepoint=255),
                      st.sampled_from([chr(c) for c in REPS8]))
    text = length.flatmap(lambda n: st.text(chars, min_size=n, max_size=n))
    return st.tuples(text, seeds)


def unicode_strategy(tier):
    seeds = st.one_of(st.sampled_from(SEEDS), st.integers(0, 2**32 - 1))
    return st.tuples(st.one_of(st.text(st.characters(min_codepoint=0, max_codepoint=0x10FFFF), max_size=40),
                               st.text(st.characters(min_codepoint=0, max_codepoint=0x10FFFF), min_size=200, max_size=600)), seeds)


def every_length_cases(tier, seed):
    # every length 0..64 (every block count and tail length), deterministic content derived from the seed
    x = (seed * 2654435761 + 12345) & 0xFFFFFFFF
    reps = 6 if tier == "quick" else 60
    # ... and, once or twice each, every length up to 800 (a node name, a dash and a 250-byte key make some 300 bytes; nothing
    # in the function bounds its input) and a few far beyond
    for n in list(range(0, 65)) + list(range(65, 801)) + [1023, 1024, 1025, 4096, 65537]:
        for r in range(reps if n <= 64 else (1 if tier == "quick" else 3)):
            cs = []
            for _ in range(n):
                x = (x * 1103515245 + 12345) & 0x7FFFFFFF
                cs.append(chr((x >> 16) & 0xFF))
            x = (x * 1103515245 + 12345) & 0x7FFFFFFF
            yield ("".join(cs), SEEDS[r % 4] if r % 2 == 0 else (x * 2 + 1) & 0xFFFFFFFF)


# ---- strings that are instances of str subclasses ----------------------------------------------------------------

class Plain(str):
    pass


class Loud(str):
    def __str__(self):
        return "LOUD:" + str.upper(self)

    def __repr__(self):
        return "Loud(%s)" % str.__repr__(self)

    def __format__(self, spec):
        return "formatted"


import enum  # noqa: E402


class Shard(str, enum.Enum):
    A = "shard-a"
    B = "\xe9\xff\x00"


def subclass_cases(tier, seed):
    contents = ["", "a", "abcd", "hello-abc", "\xff\x80\x00\x01tail", "node-1:11211-key", "k" * 33]
    for c in contents:
        for sd in (0, 1, 2**31, 2**32 - 1):
            for kind in ("plain", "loud"):
                yield (kind, c, sd)
    for m in ("A", "B"):
        for sd in (0, 7, 2**32 - 1):
            yield ("enum", m, sd)


def check_subclass(case):
    """a string is its characters, whatever its class prints as"""
    kind, c, seed = case
    s = Plain(c) if kind == "plain" else Loud(c) if kind == "loud" else Shard[c]
    content = str.__str__(s) if kind != "enum" else s.value
    want = refhash.murmur3(refhash.latin1(content), seed)
    try:
        got = murmur3_32(s, seed)
    except Exception as e:  # noqa: BLE001
        raise Violation(["subclass", "raises", type(e).__name__], "murmur3_32(%s instance %r, %#x) raised %r" % (type(s).__name__, content, seed, e))
    if got != want:
        raise Violation(["subclass", "differs-from-reference"], "murmur3_32 of the %s instance with content %r (seed %#x) = %r, reference for these characters %#010x (plain str: %#010x)"
                        % (type(s).__name__, content, seed, got, want, murmur3_32(content, seed)))
    return True, ["subclass", kind]


# ---- the hash as the placement code uses it ---------------------------------------------------------------------

def ring_hash_cases(tier, seed):
    for s in ("", "a", "abcd", "node-1:11211-key", "\xff\x80\x00\x01tail", "k" * 33, "n:1-" + "x" * 250):
        for sd in (0, 1, 7, 2**31, 2**32 - 1):
            for how in ("fresh", "copy", "deepcopy", "nodes-ctor"):
                yield (s, sd, how)


def check_ring_hash(case):
    """RendezvousHash(seed=s).hash_function is murmur3_32 with that seed - also on a copy of the ring"""
    import copy
    from pymemcache.client.rendezvous import RendezvousHash
    s, sd, how = case
    r = RendezvousHash(nodes=["a:1", "b:2"], seed=sd) if how == "nodes-ctor" else RendezvousHash(seed=sd)
    if how == "copy":
        r = copy.copy(r)
    elif how == "deepcopy":
        r = copy.deepcopy(r)
    want = refhash.murmur3(refhash.latin1(s), sd)
    got = r.hash_function(s)
    if got != want:
        raise Violation(["ring-hash", how], "RendezvousHash(seed=%#x) [%s].hash_function(%r) = %r, reference MurmurHash3 with that seed %#010x" % (sd, how, s[:30], got, want))
    return sd != 0, ["ring-hash", how]


def tie_cases(tier, seed):
    """placement 'matches other rendezvous / murmur3 implementations': two servers whose scores for a key collide under the real
    hash (the second name is solved for, refhash.tie_node; seeds 0 and others) - every implementation of the published rule gives
    the key to the greater name, whatever the order of the server list"""
    n = 40 if tier == "quick" else 400
    for i in range(n):
        a = ("10.0.%d.%d:11211" % (i % 7, 10 + i), "cache-%d.example.com:11211" % i, "/var/run/mc%d.sock" % i)[i % 3]
        key = ("user:%d" % (i + seed), "k" * (1 + i % 9) + str(i), "ключ%d" % i if False else "key/%d/%d" % (seed, i))[i % 3]
        yield (a, key, ("zz", "aa", "10.0.0.", "M")[i % 4], (0, 0, 1, 0xFFFFFFFF, 12345)[i % 5])


def check_tie(case):
    from pymemcache.client.rendezvous import RendezvousHash
    a, key, stem, sd = case
    b = refhash.tie_node(a, key, stem, sd)
    sa, sb = murmur3_32("%s-%s" % (a, key), sd), murmur3_32("%s-%s" % (b, key), sd)
    if sa != sb or sa != refhash.murmur3(("%s-%s" % (a, key)).encode("latin-1"), sd):
        raise Violation(["differs-from-reference", "tie"], "murmur3_32 gives %#010x and %#010x for two strings the reference hashes alike (%r / %r with key %r, seed %#x)" % (sa, sb, a, b, key, sd))
    want = max(a, b)
    for order in ([a, b], [b, a]):
        for how in ("ctor", "add"):
            r = RendezvousHash(nodes=list(order), seed=sd) if how == "ctor" else RendezvousHash(seed=sd)
            if how == "add":
                for nd in order:
                    r.add_node(nd)
            got = r.get_node(key)
            if got != want:
                raise Violation(["tie-placement"], "servers %r (both score %#010x for key %r, seed %#x): get_node gives %r, the rendezvous rule (ties to the greater name) gives %r"
                                % (order, sa, key, sd, got, want))
    return True, ["genuine-tie", "seed=0" if sd == 0 else "seed!=0"]


# ---- other packages installed next to the library ---------------------------------------------------------------------

def _standin_mmh3():
    """a module that behaves like the `mmh3` package an application may have installed: MurmurHash3 of BYTES; a str argument is
    encoded as UTF-8 first; results signed unless signed=False"""
    import types
    m = types.ModuleType("mmh3")

    def hash(key, seed=0, signed=True):      # noqa: A001
        b = key.encode("utf-8") if isinstance(key, str) else bytes(key)
        v = refhash.murmur3(b, seed & 0xFFFFFFFF)
        return v - (1 << 32) if signed and v >= (1 << 31) else v
    m.hash = hash
    m.hash_from_buffer = hash
    m.mmh3_32_uintdigest = lambda key, seed=0: hash(key, seed, False)
    m.mmh3_32_sintdigest = lambda key, seed=0: hash(key, seed, True)
    m.__version__ = "4.1.0"
    return m


def environment_cases(tier, seed):
    for name in ("mmh3", "pymmh3", "murmurhash3"):
        for i in range(3 if tier == "quick" else 12):
            yield (name, seed * 10 + i)


def check_environment(case):
    """what the hash function returns does not depend on which other packages can be imported in the process: with a hashing
    package of a well-known name installed, murmur3_32 (re-imported) still equals the reference for strings of code points 0..255,
    and still gives wide strings the value every release so far gives them"""
    import importlib
    import sys
    import pymemcache.client.murmur3 as M
    import pymemcache.client.rendezvous as R
    name, sd = case
    if name in sys.modules:
        return False, ["environment", "package-really-installed"]
    x = (sd * 2654435761 + 12345) & 0xFFFFFFFF
    strings = ["", "a", "caf\xe9", "\xff\xfe\x80", "cl\xe9-1", "node:1-k\xfc", "\u0416\u0416", "ab\u0416"]
    for i in range(150):
        x = (x * 1103515245 + 12345) & 0x7FFFFFFF
        n = x % 19
        strings.append("".join(chr(((x >> (j % 20)) + 37 * j) % (256 if i % 4 else 1200)) for j in range(n)))
    sys.modules[name] = _standin_mmh3()
    try:
        importlib.reload(M)
        importlib.reload(R)
        for s_ in strings:
            for hseed in (0, 1, 0xFFFFFFFF):
                want = refhash.murmur3(bytes(ord(ch) & 0xFF for ch in s_), hseed)
                try:
                    got = M.murmur3_32(s_, hseed)
                except Exception as e:  # noqa: BLE001
                    raise Violation(["environment", "raises"], "with a package named %r importable, murmur3_32(%r, %#x) raises %r" % (name, s_[:30], hseed, e))
                if got != want:
                    raise Violation(["environment", "differs"], "with a package named %r importable, murmur3_32(%r, %#x) = %r; without it (and by the reference) %#010x"
                                    % (name, s_[:30], hseed, got, want))
        nodes = ["n1:11211", "n2:11211", "caf\xe9:11211"]
        ring = R.RendezvousHash(nodes)
        for s_ in strings[:60]:
            b = refhash.latin1(s_)
            if b is None:
                continue
            want = refhash.place(nodes, s_)
            if ring.get_node(s_) != want:
                raise Violation(["environment", "placement"], "with a package named %r importable, key %r is placed on %r, the rule gives %r" % (name, s_[:30], ring.get_node(s_), want))
    finally:
        del sys.modules[name]
        importlib.reload(M)
        importlib.reload(R)
    return True, ["environment", "with-" + name]


# ---- callers in several threads ---------------------------------------------------------------------------------

PAIRS = [("hello-abc", "xyzzy"), ("abcd", "0123456789abc"), ("", "seven77"), ("\xff\x80\x00\x01tail", "\xe9" * 6), ("k" * 33, "k" * 34), ("node-1:11211-key", "node-2:11211-key")]


def _hash_steps(funcs, preempt, first=0):
    from vlib import sched
    import pymemcache.client.murmur3 as M
    fn = M.__file__
    sc = sched.Scheduler(sched.preemption_chooser(preempt), lambda code: code.co_filename == fn, max_steps=200000)
    sc.run(funcs, first=first)
    return sc


def thread_cases(tier, seed):
    """two threads hash different strings; the first is pre-empted once (thorough: also twice) at every bytecode of the hash"""
    for pi, (a, b) in enumerate(PAIRS):
        n = _hash_steps([lambda: murmur3_32(a, 0), lambda: None], [])
        total = n.steps
        stride = 1 if (tier == "thorough" or total < 400) else 3
        for p in range(1, total + 1, stride):
            yield {"a": a, "b": b, "seed": (0, 1, 2**32 - 1)[(p + pi) % 3], "preempt": [p]}
        if tier == "thorough":
            for p in range(1, total + 1, 5):
                for q in range(p + 7, p + 4 * total, 23):
                    yield {"a": a, "b": b, "seed": 0, "preempt": [p, q]}


def check_threads(case):
    a, b, seed = case["a"], case["b"], case["seed"]
    out = {}

    def ta():
        out["a"] = murmur3_32(a, seed)
        out["a2"] = murmur3_32(a, seed)

    def tb():
        out["b"] = murmur3_32(b, seed)
    sc = _hash_steps([ta, tb], case["preempt"])
    desc = "thread 0 hashing %r pre-empted at bytecode step(s) %r of its call while thread 1 hashes %r (seed %#x)" % (a, case["preempt"], b, seed)
    if sc.errors:
        raise Violation(["threads", "raises", type(list(sc.errors.values())[0]).__name__], "murmur3_32 raised %r: %s" % (sc.errors, desc))
    if sc.deadlock or sc.overrun:
        raise Violation(["threads", "stuck"], "the two calls did not finish: %s" % desc)
    for name, st_ in (("a", a), ("a2", a), ("b", b)):
        want = refhash.murmur3(refhash.latin1(st_), seed)
        if out.get(name) != want:
            raise Violation(["threads", "differs-from-reference"], "murmur3_32(%r, %#x) = %r, reference %#010x: %s" % (st_, seed, out.get(name), want, desc))
    return sc.switches > 0, ["threads", "switches=%d" % min(sc.switches, 3)]


# ---- one ring, two threads --------------------------------------------------------------------------------------------

RING_NODES = ["10.0.0.1:11211", "10.0.0.2:11211", "10.0.0.3:11211", "cache-a:11211"]
RING_KEYS = [("alpha", "beta"), ("user:0", "user:1"), ("k", "k" * 40), ("beta", "beta"), ("7", "seven")]


def _ring_steps(funcs, preempt, first=0):
    from vlib import sched
    import pymemcache.client.rendezvous as RZ
    fn = RZ.__file__
    sc = sched.Scheduler(sched.preemption_chooser(preempt), lambda code: code.co_filename == fn, max_steps=200000)
    sc.run(funcs, first=first)
    return sc


def ring_thread_cases(tier, seed):
    """two threads look different keys up in ONE RendezvousHash (what a HashClient shared by threads does); the first is
    pre-empted once (thorough: also twice) at every bytecode of the ring's own code"""
    from pymemcache.client.rendezvous import RendezvousHash
    for ki, (a, b) in enumerate(RING_KEYS):
        for nn in (2, 4):
            r = RendezvousHash(RING_NODES[:nn])
            total = _ring_steps([lambda: (r.get_node(a), r.get_node(a)), lambda: None], []).steps
            for p in range(1, total + 1):
                yield {"nodes": nn, "a": a, "b": b, "preempt": [p], "first": 0}
                if (p + ki) % 4 == 0:
                    yield {"nodes": nn, "a": a, "b": b, "preempt": [p], "first": 1}
            if tier == "thorough" or nn == 2:
                for p in range(1, total + 1, 2 if tier == "thorough" else 5):
                    for q in range(p + 3, p + 3 * total, 7 if tier == "thorough" else 19):
                        yield {"nodes": nn, "a": a, "b": b, "preempt": [p, q], "first": 0}


def check_ring_threads(case):
    from pymemcache.client.rendezvous import RendezvousHash
    nodes = RING_NODES[:case["nodes"]]
    r = RendezvousHash(list(nodes))
    a, b = case["a"], case["b"]
    out = {}

    def ta():
        out["a"] = r.get_node(a)
        out["a2"] = r.get_node(a)

    def tb():
        out["b"] = r.get_node(b)
        out["b2"] = r.get_node(a)
    sc = _ring_steps([ta, tb], case["preempt"], first=case.get("first", 0))
    desc = "two threads on one RendezvousHash over %r: thread 0 looks up %r twice, thread 1 %r and %r; pre-emption at bytecode step(s) %r of the ring's code (thread %d starts)" % (
        nodes, a, b, a, case["preempt"], case.get("first", 0))
    if sc.errors:
        raise Violation(["ring-threads", "raises", type(list(sc.errors.values())[0]).__name__], "get_node raised %r: %s" % (sc.errors, desc))
    if sc.deadlock or sc.overrun:
        raise Violation(["ring-threads", "stuck"], "the lookups did not finish: %s" % desc)
    for name, key in (("a", a), ("a2", a), ("b", b), ("b2", a)):
        want = refhash.place(nodes, key)
        if out.get(name) != want:
            raise Violation(["ring-threads", "differs-from-reference"], "get_node(%r) = %r, the rendezvous rule gives %r: %s" % (key, out.get(name), want, desc))
    if r.nodes != nodes:
        raise Violation(["ring-threads", "nodes-changed"], "the lookups changed the ring's node list to %r: %s" % (r.nodes, desc))
    return sc.switches > 0, ["ring-threads", "switches=%d" % min(sc.switches, 3)]


def long_ring_cases(tier, seed):
    """one ring that has placed tens of thousands of different keys (a long-lived HashClient): placement stays the rule"""
    for nn, total in ((3, 24000), (4, 18000), (2, 40000 if tier == "thorough" else 34000)):
        yield {"nodes": nn, "total": total, "salt": seed % 97}


def check_long_ring(case):
    from pymemcache.client.rendezvous import RendezvousHash
    nodes = RING_NODES[:case["nodes"]]
    r = RendezvousHash(list(nodes))
    bad = None
    for i in range(case["total"]):
        k = "key-%d-%d" % (case["salt"], i)
        try:
            got = r.get_node(k)
        except Exception as e:  # noqa: BLE001
            raise Violation(["long-ring", "raises", type(e).__name__], "get_node raised %r for key number %d (%r) of one ring over %r" % (e, i + 1, k, nodes))
        if i % 7 == 0 or i > case["total"] - 300:
            want = refhash.place(nodes, k)
            if got != want:
                raise Violation(["long-ring", "differs-from-reference"], "key number %d (%r) of one ring over %r is placed on %r, the rule gives %r" % (i + 1, k, nodes, got, want))
    for k in ("key-%d-%d" % (case["salt"], i) for i in (0, 1, 2, 500, 501)):
        if r.get_node(k) != refhash.place(nodes, k):
            raise Violation(["long-ring", "early-key-moved"], "%r, placed at the start, is now placed on %r" % (k, r.get_node(k)))
    return True, ["long-ring", "strings>65536" if case["total"] * case["nodes"] > 65536 else "strings<=65536"]


PARTS = [
    Part("one-long-lived-ring", "enum", check_long_ring, cases=long_ring_cases, shards={"quick": 3, "thorough": 3}),
    Part("one-ring-two-threads", "enum", check_ring_threads, cases=ring_thread_cases, exhaustive=True),
    Part("str-subclasses", "enum", check_subclass, cases=subclass_cases, shards={"quick": 1, "thorough": 1}, exhaustive=True),
    Part("placement-under-genuine-ties", "enum", check_tie, cases=tie_cases, shards={"quick": 2, "thorough": 8}, exhaustive=True),
    Part("other-packages-installed", "enum", check_environment, cases=environment_cases, shards={"quick": 1, "thorough": 2}, exhaustive=True),
    Part("ring-hash-function", "enum", check_ring_hash, cases=ring_hash_cases, shards={"quick": 1, "thorough": 1}, exhaustive=True),
    Part("two-threads", "enum", check_threads, cases=thread_cases, exhaustive=True),
    Part("vectors", "enum", check_vector, cases=vector_cases, shards={"quick": 1, "thorough": 1}, exhaustive=True),
    Part("short-exhaustive", "enum", check, cases=short_cases, exhaustive=True),
    Part("every-length", "enum", check, cases=every_length_cases, shards={"quick": 1, "thorough": 4}),
    Part("latin1-random", "hyp", check, strategy=latin1_strategy,
         examples={"quick": 3000, "thorough": 20000}, shards={"quick": 2, "thorough": 16}),
    Part("unicode-random", "hyp", check, strategy=unicode_strategy,
         examples={"quick": 1000, "thorough": 5000}, shards={"quick": 1, "thorough": 4}),
]


def selftest():
    refhash.selftest()

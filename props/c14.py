"""C14 - murmur3_32 equals the reference MurmurHash3 x86_32."""
import itertools

from hypothesis import strategies as st

from vlib import refhash
from vlib.runner import Part, Violation

from pymemcache.client.murmur3 import murmur3_32

PROPERTY = "C14"
LEVEL = "exploration"
RULE = ("cases are (string, 32-bit seed); enumerated: published vectors, every string of length 0-3 "
        "(thorough: 0-3 over a larger alphabet, 4-5 over reduced ones) over representative code points "
        "incl. 0x00,0x7f,0x80,0xff x seeds {0,1,2^31,2^32-1}; Hypothesis: every length 0..64 over code "
        "points 0..255 with random seeds, and arbitrary Unicode for determinism/range. Oracle: an "
        "independent byte-oriented MurmurHash3_x86_32 (validated against 24 published vectors, and "
        "cross-checked against Appleby's C routine when cc exists). Non-trivial: length % 4 != 0 (tail "
        "path), or a code point >= 0x80 in the 4th position of a block (un-masked load), or seed >= 2^31, "
        "or a code point > 255.")
MANIFEST = {
    "category": "exploration",
    "technique": "bounded-exhaustive enumeration + Hypothesis random strings, differential against an independent reference MurmurHash3 (Python, and C via ctypes)",
    "text": "Every string up to length 3-5 over representative alphabets x 4 boundary seeds is enumerated, every length 0..64 and random seeds are sampled; each result is compared with an independent MurmurHash3_x86_32 validated on 24 published vectors. Right level: the function is pure and tiny, the bug classes (masking, tail, rotation, sign) are all reachable by short inputs.",
    "note": "Trusts vlib/refhash.py (validated against published vectors and the C original) and CPython integer arithmetic.",
    "design_ref": "DESIGN.md 3/C14"
}
ASSUMPTIONS = [
    "the reference implementation in vlib/refhash.py is MurmurHash3_x86_32 (checked against published vectors and, when cc is present, against the C original on every case)",
    "strings within code points 0..255 stand for the bytes with those values",
]

SEEDS = [0, 1, 2**31, 2**32 - 1]
REPS24 = [0x00, 0x01, 0x09, 0x0A, 0x0D, 0x20, 0x2D, 0x30, 0x39, 0x3A, 0x41, 0x5A, 0x61, 0x7A, 0x7E, 0x7F,
          0x80, 0x81, 0x9F, 0xA0, 0xC3, 0xE9, 0xFE, 0xFF]
REPS8 = [0x00, 0x2D, 0x61, 0x7F, 0x80, 0xC3, 0xFE, 0xFF]
REPS5 = [0x00, 0x61, 0x7F, 0x80, 0xFF]
REPS64 = sorted(set(REPS24 + list(range(0x28, 0x40)) + list(range(0xB0, 0xC0))))[:64]


def _nontrivial(s, seed):
    if len(s) % 4 != 0 or seed >= 2**31:
        return True
    full = len(s) & ~3
    return any(ord(s[i]) >= 0x80 for i in range(3, full, 4)) or any(ord(c) > 255 for c in s)


def check(case):
    s, seed = case
    try:
        got = murmur3_32(s, seed)
        again = murmur3_32(s, seed)
    except Exception as e:  # noqa: BLE001
        raise Violation(["raises", type(e).__name__], "murmur3_32(%r, %#x) raised %r" % (s[:40], seed, e))
    labels = ["len%%4=%d" % (len(s) % 4)]
    if type(got) is not int or not (0 <= got < 2**32):
        raise Violation(["range"], "murmur3_32(%r, %#x) = %r is not a 32-bit unsigned int" % (s[:40], seed, got))
    if got != again:
        raise Violation(["nondeterministic"], "murmur3_32(%r, %#x) gave %r then %r" % (s[:40], seed, got, again))
    b = refhash.latin1(s)
    if b is None:
        labels.append("non-latin1")
        return True, labels
    want = refhash.murmur3(b, seed)
    c = refhash.c_reference()
    if c is not None and c(b, seed) != want:
        raise AssertionError("references disagree with each other on %r" % (b,))
    if got != want:
        raise Violation(["differs-from-reference"],
                        "murmur3_32(%r, %#x) = %#010x, reference MurmurHash3_x86_32 = %#010x" % (s[:40], seed, got, want))
    if seed >= 2**31:
        labels.append("seed>=2^31")
    return _nontrivial(s, seed), labels


def vector_cases(tier, seed):
    for data, sd, _want in refhash.VECTORS:
        yield (data.decode("latin-1"), sd)


def check_vector(case):
    # Published vectors: compare with the literal published value, not with the reference.
    s, seed = case
    want = next(w for d, sd, w in refhash.VECTORS if d.decode("latin-1") == s and sd == seed)
    got = murmur3_32(s, seed)
    if got != want:
        raise Violation(["published-vector"], "murmur3_32(%r, %#x) = %#010x, published %#010x" % (s[:40], seed, got, want))
    return True, ["vector"]


def short_cases(tier, seed):
    if tier == "quick":
        plan = [(0, REPS24), (1, REPS24), (2, REPS24), (3, REPS24), (4, REPS8), (5, REPS8)]
    else:
        plan = [(0, REPS64), (1, list(range(256))), (2, REPS64), (3, REPS64), (4, REPS24[::2] + [0xFF]),
                (5, REPS8 + [0x01, 0x20]), (6, REPS5), (7, REPS5), (8, REPS5)]
    for n, alpha in plan:
        chars = [chr(c) for c in alpha]
        for t in itertools.product(chars, repeat=n):
            s = "".join(t)
            for sd in SEEDS:
                yield (s, sd)


def latin1_strategy(tier):
    seeds = st.one_of(st.sampled_from(SEEDS), st.integers(0, 2**32 - 1))
    length = st.integers(0, 64)
    chars = st.one_of(st.characters(min_codepoint=0, max_codepoint=255),
                      st.sampled_from([chr(c) for c in REPS8]))
    text = length.flatmap(lambda n: st.text(chars, min_size=n, max_size=n))
    return st.tuples(text, seeds)


def unicode_strategy(tier):
    seeds = st.one_of(st.sampled_from(SEEDS), st.integers(0, 2**32 - 1))
    return st.tuples(st.text(st.characters(min_codepoint=0, max_codepoint=0x10FFFF), max_size=40), seeds)


def every_length_cases(tier, seed):
    # every length 0..64 (every block count and tail length), deterministic content derived from the seed
    x = (seed * 2654435761 + 12345) & 0xFFFFFFFF
    reps = 6 if tier == "quick" else 60
    for n in range(0, 65):
        for r in range(reps):
            cs = []
            for _ in range(n):
                x = (x * 1103515245 + 12345) & 0x7FFFFFFF
                cs.append(chr((x >> 16) & 0xFF))
            x = (x * 1103515245 + 12345) & 0x7FFFFFFF
            yield ("".join(cs), SEEDS[r % 4] if r % 2 == 0 else (x * 2 + 1) & 0xFFFFFFFF)


PARTS = [
    Part("vectors", "enum", check_vector, cases=vector_cases, shards={"quick": 1, "thorough": 1}, exhaustive=True),
    Part("short-exhaustive", "enum", check, cases=short_cases, exhaustive=True),
    Part("every-length", "enum", check, cases=every_length_cases, shards={"quick": 1, "thorough": 4}),
    Part("latin1-random", "hyp", check, strategy=latin1_strategy,
         examples={"quick": 3000, "thorough": 20000}, shards={"quick": 2, "thorough": 16}),
    Part("unicode-random", "hyp", check, strategy=unicode_strategy,
         examples={"quick": 1000, "thorough": 5000}, shards={"quick": 1, "thorough": 4}),
]


def selftest():
    refhash.selftest()

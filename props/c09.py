"""C09 - a failed pooled connection is discarded and pool capacity is conserved."""
import itertools

from hypothesis import strategies as st

from props import c01
from vlib import faultlab, mcserver, ops
from vlib.faultlab import interpret
from vlib.runner import Part, Violation

PROPERTY = "C09"
LEVEL = "fault_enumeration"
# parts repeated in a child interpreter started with -O and with warnings turned into errors (vlib/runner.py, MODES)
MODE_PARTS = {"OW": ['re-entrant-calls', 'fault-and-gap-sweep', 'fractional-idle-timeouts', 'deserialiser-failures']}
RULE = ("history = 1-15 PooledClient calls (legal arguments; store/fetch/multi-key/incr/touch/version/quit) over the fake "
        "network, each with at most one fault drawn per event kind (any socket-level fault or reply tampering of C01), "
        "clock advances with gaps below / at / above pool_idle_timeout; max_pool_size in {1, 2, None}; pool_idle_timeout "
        "in {0, 5} (and fractional ones - 0.5, 1.75, 2.5 s - with gaps a quarter of a second either side of the timeout and of its integer part); ignore_exc on/off. Calls may themselves take time (the virtual clock advances by a latency at every recv), so idle time measured from the checkout instead of the release is visible. A systematic part places every single fault of a dry run of each operation on the "
        "second call of a three-call history (so a healthy pooled connection exists before and a call follows), and "
        "sweeps the idle gap over {0, timeout-1, timeout, timeout+1, 3*timeout}. Oracle: after every call no pooled "
        "connection is checked out; a socket on which a fault fired, or that was used by a call that raised or swallowed "
        "an error, or by quit / close / disconnect_all (after which the object is used again), is closed when the call ends and never touched again; a socket that has only carried "
        "successful calls and idled <= timeout is reused by the next call (no new socket); idled > timeout: it is closed "
        "at the next checkout and a new one opened; 'Too many objects' never occurs. Deserialiser failures: reads in which one item of the reply cannot be deserialised (ten exception types, the first / a later / every key), replies apart or coalesced - the connection counts as failed. Re-entrant calls: a serializer that itself uses the same PooledClient, so that a second pooled call starts and ends while the first holds its connection (within one thread): outer set/set_many/get/get_many x inner get/set/get_many/version/quit x 0-2 warm connections x a fault on the nested exchange (swallowed by the serializer or not) x ignore_exc x max_pool_size {2,3,None}; afterwards nothing is checked out, no connection is listed twice, no open socket lives outside the pool, two healthy connections stay idle and are reused by the following calls, close() closes everything. Non-trivial: a fault that fired is "
        "followed by a later call, or a gap above the idle timeout is followed by a call. The re-entrant part also drives both nesting levels through a RetryingClient(attempts 2-3) around the PooledClient. Pooled objects may be of a falsy Client subclass; a shallow copy of the pooled client may be made and dropped between calls without touching the pool; in the nestings both calls must return what they return alone. Long lives: 1200 (thorough 4000) calls on one pooled client, every seventh faulted, idle gaps in between."
        + " A TLS configuration (closing handshake fails on broken connections); calls made from inside the caller's own except block; a call that succeeded with no fault injected keeps its connection open; several idle connections of different ages (2-4, released 0-40 s apart): at every checkout those idle longer than the timeout are closed and a younger one is reused.")
MANIFEST = {
    "category": "fault_enumeration",
    "technique": "Hypothesis-generated PooledClient histories with faults, idle gaps on a virtual clock and pool configurations + systematic single-fault / idle-gap sweep; invariants over the fake sockets' lifecycle log and the pool's accounting",
    "text": "The pool's clock is virtual and every pooled connection is a fake socket whose lifecycle is logged, so reuse, discard and idle expiry are observable facts: after each call the checked-out count must be zero, failed sockets closed and never referenced again, healthy ones reused until they idle past the timeout. Systematic over single faults per operation and over idle gaps around the timeout; random for longer histories.",
    "note": "A 'connection' is a socket: under ignore_exc the pooled Client object legitimately returns to the pool after a swallowed failure, with its socket closed. Illegal arguments are not generated (an input error is not a connection failure).",
    "design_ref": "DESIGN.md 3/C09",
}
ASSUMPTIONS = [
    "pymemcache.pool.time is rebound to a virtual clock for the duration of a case",
    "sequential use: one call at a time (C08 covers concurrency)",
]

OPS = [
    {"op": "set", "key": "k", "value": b"v", "noreply": False}, {"op": "set", "key": "k", "value": b"v", "noreply": True},
    {"op": "get", "key": "t"}, {"op": "gets", "key": "t"}, {"op": "get_many", "keys": ["t", "n"]}, {"op": "gat", "key": "t", "expire": 9},
    {"op": "delete", "key": "k", "noreply": False}, {"op": "incr", "key": "n", "delta": 1}, {"op": "touch", "key": "t", "expire": 5, "noreply": False},
    {"op": "version"}, {"op": "quit"}, {"op": "set_many", "values": {"a": b"1", "b": b"2"}, "noreply": False}, {"op": "get", "key": "x4"},
    {"op": "stats"}, {"op": "flush_all", "noreply": False}, {"op": "delete_many", "keys": ["a", "b"], "noreply": False},
    {"op": "close"}, {"op": "disconnect_all"},      # the pool is emptied; the object is used again afterwards
    {"op": "copy_drop", "set": {"ignore_exc": True}},      # a shallow copy of the object is made and garbage-collected
]


def check(case):
    cfg = case["cfg"]
    idle = cfg.get("pool_idle_timeout", 0)
    st_ = {"pos": 0, "live": None, "last_release": None, "dead": set(), "gap_seen": False, "fault_then_call": False, "had_fault": False}
    labels = set()

    def hist():
        return [(c.get("advance"), c["op"]["op"], c.get("faults")) for c in case["calls"]]

    def obs(run, i, call, out):
        net = run.env.net
        pool = run.client.client_pool
        now_end = run.env.clock.now
        # idle time is judged at the checkout, i.e. at the start of the call (the call itself may take time)
        now = (st_["last_release"] if st_["last_release"] is not None else now_end) + st_.get("carry", 0) + (call.get("advance") or 0) if st_["last_release"] is not None else now_end
        evs = net.log[st_["pos"]:]
        st_["pos"] = len(net.log)
        where = "call %d %r (outcome %r) of history %r; cfg %r" % (i, call["op"], c01._short(out), hist(), cfg)
        if st_["had_fault"]:
            st_["fault_then_call"] = True
        if out[0] == "exc" and isinstance(out[1], RuntimeError) and "Too many objects" in str(out[1]):
            raise Violation(["too-many-objects"], "pool exhausted in a sequential history: %s" % where)
        if len(pool.used):
            raise Violation(["checked-out-after-call"], "%d pooled connection(s) still checked out after %s" % (len(pool.used), where))
        for name, at, detail in net.flags:
            if name == "io-on-closed-socket":
                raise Violation(["discarded-socket-used"], "a socket that had been closed was used again (%r): %s" % (detail, where))
        for e in evs:
            if e[2] in st_["dead"] and e[3] != "close":
                raise Violation(["discarded-socket-used"], "socket %d was discarded earlier and is referred to again by %r: %s" % (e[2], e[3], where))
        new = [e[2] for e in evs if e[3] == "socket"]
        used_socks = sorted({e[2] for e in evs if e[2] is not None and e[3] in ("sendall", "recv", "connect")})
        fired = [f for f in net.fired if f["fault"].get("call") == i]
        fired_real = [f for f in fired if f["fault"].get("kind") != "close"]
        live = st_["live"]
        sockets = {s.id: s for s in net.sockets}
        if call["op"]["op"] == "copy_drop":
            # nothing was checked out: the pool is as it was (idle time keeps running from the last release)
            if out[0] != "ok" or evs:
                raise Violation(["copy-touched-the-connection"], "making and dropping a shallow copy of the object caused socket events %r: %s" % ([e[3] for e in evs][:4], where))
            labels.add("copy-made-and-dropped")
            st_["carry"] = st_.get("carry", 0) + (call.get("advance") or 0)
            return
        st_["carry"] = 0
        if live is not None:
            expired = bool(idle) and (now - st_["last_release"]) > idle
            if expired:
                labels.add("idle-expired")
                st_["gap_seen"] = True
                if not sockets[live].closed:
                    raise Violation(["idle-socket-not-closed"], "socket %d idled %s s (> pool_idle_timeout %s) and is still open after %s"
                                    % (live, now - st_["last_release"], idle, where))
                if live in used_socks:
                    raise Violation(["idle-socket-reused"], "socket %d idled %s s (> pool_idle_timeout %s) and was used again by %s" % (live, now - st_["last_release"], idle, where))
                st_["dead"].add(live)
                live = None
            else:
                if new:
                    raise Violation(["healthy-socket-not-reused"], "socket %d was healthy and idle for %s s (pool_idle_timeout %s) but %s opened a new one"
                                    % (live, now - st_["last_release"], idle, where))
                labels.add("reused")
        failed = out[0] == "exc" or bool(fired_real) and (out[0] == "ok" and cfg.get("ignore_exc") and call["op"]["op"] in faultlab.READ_OPS + ("stats",))
        fs = cfg.get("failing_serde")
        if fs and call["op"]["op"] in faultlab.READ_OPS:
            # an item of the reply could not be deserialised: a failed call like any other (raised, or swallowed under ignore_exc)
            ks = [call["op"]["key"]] if "key" in call["op"] else list(call["op"].get("keys", ()))
            if fs.get("keys") is None or any(k in fs["keys"] for k in ks):
                failed = True
                labels.add("deserialiser-failure")
                st_["had_fault"] = True
        opened = [s for s in net.sockets if not s.closed]
        if failed or call["op"]["op"] in ("quit", "close", "disconnect_all"):
            still = [s.id for s in opened if s.id in used_socks or s.id == live or s.id in new]
            if still:
                raise Violation(["failed-socket-open"], "socket(s) %r still open after %s" % (still, where))
            for sid in used_socks + new + ([live] if live is not None else []):
                st_["dead"].add(sid)
            st_["live"] = None
            if fired_real:
                st_["had_fault"] = True
                labels.add("fault-fired")
        else:
            if len(opened) > 1:
                raise Violation(["two-open-sockets"], "sockets %r open after %s" % ([s.id for s in opened], where))
            if out[0] == "ok" and not fired and not fs and used_socks and not opened and call["op"]["op"] not in ("shutdown", "raw_command"):
                # nothing went wrong: the connection goes back to the pool, open (a healthy one is reused rather than reopened)
                raise Violation(["healthy-socket-closed"], "the call succeeded, no fault was injected, yet its connection (socket %r) was closed instead of being kept for reuse: %s"
                                % (used_socks, where))
            st_["live"] = opened[0].id if opened else None
        st_["last_release"] = now_end
    run = interpret(case, obs)
    run.client.close()
    left = [s.id for s in run.env.net.sockets if not s.closed]
    if left:
        raise Violation(["leak-after-close"], "sockets %r still open after PooledClient.close(); history %r cfg %r" % (left, hist(), cfg))
    return st_["fault_then_call"] or st_["gap_seen"], sorted(labels | {"max=%s" % cfg.get("max_pool_size"), "idle=%s" % idle})


def sweep_cases(tier, seed):
    for mx in (1, 2, None):
        for idle in (0, 5):
            for ie in (False, True):
                cfg = {"max_pool_size": mx, "pool_idle_timeout": idle, "ignore_exc": ie}
                if mx == 2:
                    cfg["keepalive"] = [2, 3, 4]
                    cfg["no_delay"] = True
                if mx is None and ie:
                    # TLS connections: closing a wrapped socket whose connection broke (its closing handshake, unwrap, fails then)
                    cfg["tls"] = True
                if mx == 1 and not ie:
                    # the pooled objects are instances of a Client subclass that is falsy (it defines __len__)
                    cfg["client_class"] = "falsy"
                for oi, r in enumerate(OPS):
                    if tier == "quick" and (oi + (mx or 0) + idle) % 2:
                        continue
                    for gap in ((1, 6) if idle and oi % 3 == 0 else (1,)):     # gap 6 > idle timeout: the faulted call has to reconnect
                        base = {"kind": "pooled", "cfg": cfg, "coalesce": bool(oi % 2),
                                "calls": [{"op": OPS[0]}, {"op": r, "advance": gap}, {"op": OPS[2], "advance": 1}, {"op": OPS[0]}]}
                        dry = interpret(base)
                        for ev_kind, nth in dry.events_by_call[1]:
                            for f in faultlab.faults_for_event(ev_kind, nth):
                                calls = [dict(c) for c in base["calls"]]
                                calls[1] = dict(calls[1], faults=[f])
                                yield dict(base, calls=calls)
                        for j, ln in enumerate(faultlab.reply_lengths(base, 1)):
                            for f in faultlab.tampers_for_reply(j, ln):
                                calls = [dict(c) for c in base["calls"]]
                                calls[1] = dict(calls[1], faults=[f])
                                yield dict(base, calls=calls)
                # calls that take time themselves: idle time counts from the release, not from the checkout
                if idle:
                    for lat in (2, 4, 7):
                        for gap in (0, 1, 4, 5, 6):
                            yield {"kind": "pooled", "cfg": cfg, "latency": lat,
                                   "calls": [{"op": OPS[0]}, {"op": OPS[2], "advance": gap}, {"op": OPS[4], "advance": gap}, {"op": OPS[0], "advance": gap}]}
                # idle-gap sweep
                for gap in (0, 4, 5, 6, 15):
                    for r in (OPS[0], OPS[2], OPS[10], OPS[16], OPS[17], OPS[18]):
                        yield {"kind": "pooled", "cfg": cfg, "calls": [{"op": OPS[0]}, {"op": r, "advance": gap}, {"op": OPS[2], "advance": gap}, {"op": OPS[3]}]}
                        # the same with calls made from inside the application's own except block
                        yield {"kind": "pooled", "cfg": cfg, "calls": [{"op": OPS[0], "ambient": True}, {"op": r, "advance": gap, "ambient": bool(gap % 2)}, {"op": OPS[2], "advance": gap, "ambient": True}, {"op": OPS[3]}]}
                        if r["op"] in ("close", "disconnect_all", "quit"):
                            yield {"kind": "pooled", "cfg": cfg, "calls": [{"op": OPS[0]}, {"op": r, "advance": gap}, {"op": OPS[2]}, {"op": r}, {"op": r}, {"op": OPS[0], "advance": gap}, {"op": OPS[4]}, {"op": OPS[3]}]}


def soak_cases(tier, seed):
    """a pool that has been in use for a long time: a thousand and more calls on one pooled client, every few of them failing
    at the socket, idle gaps in between - after each of them the same rules hold as after the first"""
    n = 1200 if tier == "quick" else 4000
    faults = [{"kind": "recv", "nth": 0, "what": "reset"}, {"kind": "sendall", "nth": 0, "what": "pipe", "delivered": "none"}, {"kind": "recv", "nth": 0, "what": "timeout"},
              {"reply": 0, "tamper": "garbage"}, {"kind": "connect", "nth": 0, "what": "refused"}, {"reply": 0, "tamper": "server_error"}]
    for mi, mx in enumerate((1, 2, None)):
        for idle in (0, 5):
            for ie in (False, True):
                x = (seed * 6151 + mi * 31 + idle * 7 + ie + 1) & 0x7FFFFFFF
                calls = []
                for i in range(n):
                    x = (x * 1103515245 + 12345) & 0x7FFFFFFF
                    c = {"op": OPS[(x >> 16) % 16]}
                    if (x >> 4) % 7 == 0:
                        c["faults"] = [faults[(x >> 9) % len(faults)]]
                    if (x >> 12) % 11 == 0:
                        c["advance"] = (1, 4, 6, 20)[(x >> 20) % 4]
                    calls.append(c)
                yield {"kind": "pooled", "cfg": {"max_pool_size": mx, "pool_idle_timeout": idle, "ignore_exc": ie}, "calls": calls}


def serde_failure_cases(tier, seed):
    """mixed outcomes inside one read: some items of the reply deserialise, a later one does not (any exception type); the
    rest of the reply is still on the wire when the call ends - that connection is failed, not healthy"""
    for case in c01.serde_failure_cases(tier, seed):
        if case["kind"] != "pooled":
            continue
        for idle in (0, 5):
            yield dict(case, cfg=dict(case["cfg"], pool_idle_timeout=idle))


def fractional_idle_cases(tier, seed):
    """pool_idle_timeout is a number of seconds, not necessarily a whole one"""
    for mx in (1, 2, None):
        for idle in (0.5, 2.5, 1.75):
            for ie in (False, True):
                cfg = {"max_pool_size": mx, "pool_idle_timeout": idle, "ignore_exc": ie}
                gaps = sorted({0.25, idle - 0.25, idle, idle + 0.25, int(idle) if int(idle) else 0.125, int(idle) + 0.25, int(idle) + 1, 3 * idle})
                for g1 in gaps:
                    for g2 in (gaps if tier == "thorough" else (gaps[0], idle + 0.25, int(idle) + 0.25)):
                        for r in (OPS[0], OPS[2]):
                            yield {"kind": "pooled", "cfg": cfg, "calls": [{"op": OPS[0]}, {"op": r, "advance": g1}, {"op": OPS[2], "advance": g2}, {"op": OPS[3]}]}


def history_strategy(tier):
    fault = c01.fault_strategy(False)
    call = st.builds(lambda r, f, adv: dict({"op": r}, **({"faults": [f]} if f else {}), **({"advance": adv} if adv else {})),
                     st.sampled_from(OPS), st.one_of(st.none(), st.none(), fault), st.sampled_from([0, 0, 1, 4, 5, 6, 20, 0.25, 0.75, 2.25, 2.75]))
    cfg = st.fixed_dictionaries({"max_pool_size": st.sampled_from([1, 2, None]), "pool_idle_timeout": st.sampled_from([0, 5, 5, 2.5, 0.5]),
                                 "ignore_exc": st.booleans(), "default_noreply": st.booleans()})
    return st.builds(lambda c, calls, p, co, lat: {"kind": "pooled", "cfg": c, "calls": calls, "pieces": p, "coalesce": co, "latency": lat},
                     cfg, st.lists(call, min_size=2, max_size=15), st.one_of(st.none(), st.lists(st.sampled_from([1, 3, 4096]), min_size=1, max_size=3)), st.booleans(),
                     st.sampled_from([0, 0, 1, 3, 7]))


# ---- re-entrant calls -----------------------------------------------------------------------------------------------

class ReentrantSerde:
    """a serializer that itself uses the same PooledClient (a value whose serialization looks something up in the cache):
    a second pooled call starts and ends while the first one holds its connection - within one thread, one sequence"""

    def __init__(self, when, inner_op, swallow):
        self.client = None
        self.when, self.inner_op, self.swallow = when, inner_op, swallow
        self.depth = 0
        self.inner_results = []

    def _inner(self):
        if self.client is None or self.depth:
            return
        self.depth += 1
        try:
            c = self.client
            r = {"get": lambda: c.get("t"), "set": lambda: c.set("inner", b"i", noreply=False), "get_many": lambda: c.get_many(["t", "n"]),
                 "version": lambda: c.version(), "quit": lambda: c.quit()}[self.inner_op]()
            self.inner_results.append(("ok", r))
        except Exception as e:  # noqa: BLE001
            self.inner_results.append(("exc", e))
            if not self.swallow:
                raise
        finally:
            self.depth -= 1

    def serialize(self, key, value):
        if self.when == "serialize":
            self._inner()
        return value, 0

    def deserialize(self, key, value, flags):
        if self.when == "deserialize":
            self._inner()
        return value


def reentrant_cases(tier, seed):
    inner_faults = [None, {"kind": "recv", "nth": 0, "what": "reset"}, {"kind": "connect", "nth": 0, "what": "refused"}, {"reply": 0, "tamper": "garbage"}]
    for mx in (2, 3, None):
        for when, outer in (("serialize", {"op": "set", "key": "k", "value": b"v", "noreply": False}), ("serialize", {"op": "set_many", "values": {"a": b"1"}, "noreply": False}),
                            ("deserialize", {"op": "get", "key": "t"}), ("deserialize", {"op": "get_many", "keys": ["t", "n"]})):
            for inner_op in ("get", "set", "get_many", "version", "quit"):
                for fi, fault in enumerate(inner_faults):
                    for swallow in ((True, False) if fault else (True,)):
                        for ie in (False, True):
                            for warm in (0, 1, 2):
                                yield {"max_pool_size": mx, "when": when, "outer": outer, "inner_op": inner_op, "inner_fault": fault, "swallow": swallow,
                                       "ignore_exc": ie, "warm": warm}
                                if swallow and not ie:
                                    # the same through a RetryingClient around the PooledClient: a failing nested call is tried again
                                    yield {"max_pool_size": mx, "when": when, "outer": outer, "inner_op": inner_op, "inner_fault": fault, "swallow": swallow,
                                           "ignore_exc": ie, "warm": warm, "retrying": 2 + fi % 2}


def check_reentrant(case, interruption=None):
    from vlib.harness import Env, virtual_time
    env = Env()
    net = env.net
    faultlab.preload(env.server, b"")
    sd = ReentrantSerde(case["when"], case["inner_op"], case["swallow"])
    desc = "outer %r, its %s() runs %s on the same PooledClient%s (max_pool_size %r, ignore_exc %r, %d warm connection(s))%s" % (
        case["outer"], case["when"], case["inner_op"], " - both through a RetryingClient(attempts=%d) around it -" % case["retrying"] if case.get("retrying") else "",
        case["max_pool_size"], case["ignore_exc"], case["warm"],
        ", the inner call hits %r (%s by the serializer)" % (case["inner_fault"], "swallowed" if case["swallow"] else "not caught") if case["inner_fault"] else "")
    with virtual_time(env.clock):
        c = env.client("pooled", max_pool_size=case["max_pool_size"], serde=sd, ignore_exc=case["ignore_exc"], default_noreply=False)
        pool = c.client_pool
        # warm connections: 0, 1 or 2 idle sockets in the pool before the nested call
        if case["warm"] >= 1:
            env.call(c.get, "warm")
        if case["warm"] == 2:
            sd.client, sd.inner_op_saved = c, sd.inner_op
            sd.inner_op = "get"
            env.call(ops.invoke, c, case["outer"])
            sd.inner_op = sd.inner_op_saved
            del sd.inner_results[:]
        user = c
        if case.get("retrying"):
            from pymemcache.client.retrying import RetryingClient
            user = RetryingClient(c, attempts=case["retrying"])
        sd.client = user
        before = {s.id for s in net.open_sockets()}
        ncall = env.ncalls
        if case["inner_fault"]:
            # the inner call is the second to touch the network in a serialize-nesting (nothing of the outer command has
            # been sent yet) and uses a second connection in a deserialize-nesting: address the fault by socket order
            f = dict(case["inner_fault"], call=ncall)
            if case.get("raw_fault"):
                pass          # the event index is meant as given (C10 sweeps all of them)
            elif case["when"] == "deserialize" and "kind" in f and f["kind"] in ("recv",):
                f["nth"] = 1 if case["outer"]["op"] == "get" else 1
            if case["when"] == "deserialize" and "reply" in f:
                f["reply"] = 1
            net.plan([f])
        out = env.call(ops.invoke, user, case["outer"])
        where = "%s (outcome %r, inner outcomes %r)" % (desc, c01._short(out), [c01._short(x) for x in sd.inner_results])
        if interruption:
            hit = [x for x in net.fired if x["fault"].get("call") == ncall and x["fault"].get("what") in interruption]
            if hit and not (out[0] == "exc" and type(out[1]) is interruption[hit[0]["fault"]["what"]]):
                raise Violation(["reentrant", "interruption-swallowed"], "%s raised inside %s did not reach the caller: %s" % (hit[0]["fault"]["what"], hit[0]["fault"]["kind"], where))
        ran = bool(sd.inner_results) or bool(interruption)      # (a fault that hits the outer call's own connect keeps the nested call from happening)
        if len(pool.used):
            raise Violation(["reentrant", "checked-out-after-call"], "%d pooled connection(s) still checked out after %s" % (len(pool.used), where))
        if len(set(map(id, pool.free))) != len(pool.free):
            raise Violation(["reentrant", "listed-twice"], "a connection is listed twice among the idle ones after %s" % where)
        for name, at, detail in net.flags:
            if name in ("io-on-closed-socket", "cross-call-read"):
                raise Violation(["reentrant", name], "%s (%r): %s" % (name, detail, where))
        fired = [x for x in net.fired if x["fault"].get("call") == ncall]
        failed_socks = {x.get("sock") for x in fired if x.get("sock") is not None}
        open_now = net.open_sockets()
        idle_socks = {id(cl.sock) for cl in pool.free if getattr(cl, "sock", None) is not None}
        for s_ in open_now:
            # (a socket whose connect() was aborted by an interruption is simply dropped, unreferenced: not judged - C10 is about slots and replies)
            if id(s_) not in idle_socks and not (interruption and not s_.connected):
                raise Violation(["reentrant", "open-socket-outside-pool"], "socket %d is open but belongs to no idle pooled connection after %s" % (s_.id, where))
        healthy = ran and out[0] == "ok" and all(r[0] == "ok" for r in sd.inner_results) and not fired and case["inner_op"] != "quit"
        if ran and not fired and not interruption:
            # each of the two calls got the answer to its own command
            want_outer = {"set": True, "set_many": [], "get": b"text", "get_many": {"t": b"text", "n": b"10"}}[case["outer"]["op"]]
            want_inner = {"get": b"text", "set": True, "get_many": {"t": b"text", "n": b"10"}, "quit": None}.get(case["inner_op"], Ellipsis)
            if out != ("ok", want_outer):
                raise Violation(["reentrant", "outer-result"], "the outer call returned %r, on its own it returns %r: %s" % (c01._short(out), want_outer, where))
            for r_ in sd.inner_results:
                if want_inner is not Ellipsis and r_ != ("ok", want_inner):
                    raise Violation(["reentrant", "inner-result"], "the nested call returned %r, on its own it returns %r: %s" % (c01._short(r_), want_inner, where))
        if healthy and len(open_now) != 2 and case["warm"] != 0:
            raise Violation(["reentrant", "healthy-connection-dropped"], "both calls succeeded but %d socket(s) are open afterwards (2 expected: one per nesting level): %s" % (len(open_now), where))
        # afterwards: sequential calls reuse what is idle, nothing new is opened while an idle connection exists
        n_open = len(open_now)
        sd.client = None          # (plain calls from here on)
        a = env.call(c.set, "after", b"x", noreply=False)
        b = env.call(c.get, "after")
        if a != ("ok", True) or b != ("ok", b"x"):
            raise Violation(["reentrant", "follow-up"], "follow-up set/get gave %r / %r after %s" % (c01._short(a), c01._short(b), where))
        if len(pool.used):
            raise Violation(["reentrant", "checked-out-after-call"], "%d pooled connection(s) checked out after the follow-up calls: %s" % (len(pool.used), where))
        # (after a swallowed failure under ignore_exc a pooled Client object without a socket sits in the pool as well and
        #  may be the one handed out: only the fault-free nesting is judged here)
        if healthy and n_open >= 1 and len(net.open_sockets()) > n_open:
            raise Violation(["reentrant", "idle-not-reused"], "an idle connection existed but the follow-up calls opened another socket (%d -> %d): %s" % (n_open, len(net.open_sockets()), where))
        c.close()
        if [x for x in net.open_sockets() if x.connected or not interruption]:
            raise Violation(["reentrant", "leak-after-close"], "sockets still open after close(): %s" % where)
    return ran, ["reentrant", case["when"], "inner-fault" if fired else "no-fault", "max=%s" % case["max_pool_size"]] + ([] if ran else ["nested-call-did-not-happen"])


# ---- several idle connections of different ages -----------------------------------------------------------------------

def several_idle_cases(tier, seed):
    """a burst left two to four connections in the pool, released at different moments; calls follow after gaps: at every checkout
    the connections that have idled longer than pool_idle_timeout are closed, a younger one is reused"""
    gaps = (0, 10, 35, 61, 90)
    for n in (2, 3, 4):
        for rel in itertools.product((0, 25, 40), repeat=n - 1):          # time between one release and the next
            for g in gaps:
                for follow in ((0,), (30, 30), (61,)):
                    yield {"n": n, "release_gaps": list(rel), "gap": g, "follow": list(follow), "idle": 60, "max_pool_size": (None, n, n + 1)[(sum(rel) + g) % 3]}


def check_several_idle(case):
    from vlib.harness import Env, virtual_time
    env = Env()
    net = env.net
    faultlab.preload(env.server, b"")
    idle = case["idle"]
    desc = "%d connections released %r s apart (pool_idle_timeout %d, max_pool_size %r), first call %r s after the last release, then calls after %r s" % (
        case["n"], case["release_gaps"], idle, case["max_pool_size"], case["gap"], case["follow"])
    with virtual_time(env.clock):
        c = env.client("pooled", max_pool_size=case["max_pool_size"], pool_idle_timeout=idle, default_noreply=False)
        pool = c.client_pool
        held = [pool.get() for _ in range(case["n"])]
        for cl in held:
            if env.call(cl.get, "t") != ("ok", b"text"):
                raise Violation(["several-idle", "setup"], "a checked-out client could not be used: %s" % desc)
        released_at = {}
        for i, cl in enumerate(held):
            if i:
                env.clock.advance(case["release_gaps"][i - 1])
            pool.release(cl)
            released_at[id(cl.sock)] = env.clock.now
        socks = {id(cl.sock): cl.sock for cl in held}
        expired_seen = False
        for gap in [case["gap"]] + case["follow"]:
            env.clock.advance(gap)
            now = env.clock.now
            mark = len(net.log)
            n_before = len(net.sockets)
            out = env.call(c.get, "t")
            where = "%s; at the call made at +%s s (outcome %r)" % (desc, now - min(released_at.values()) if released_at else 0, c01._short(out))
            if out != ("ok", b"text"):
                raise Violation(["several-idle", "result"], "the call did not return the stored value: %s" % where)
            used = {e[2] for e in net.log[mark:] if e[3] in ("sendall", "recv")}
            young = [sid for sid, t in released_at.items() if now - t <= idle and not socks[sid].closed]
            old = [sid for sid, t in released_at.items() if now - t > idle]
            for sid in old:
                expired_seen = True
                if not socks[sid].closed:
                    raise Violation(["several-idle", "idle-socket-not-closed"], "socket %d has idled %s s (> pool_idle_timeout %s) and is still open after a checkout: %s"
                                    % (socks[sid].id, now - released_at[sid], idle, where))
                if socks[sid].id in used:
                    raise Violation(["several-idle", "idle-socket-reused"], "socket %d idled %s s and was used again: %s" % (socks[sid].id, now - released_at[sid], where))
            if young and len(net.sockets) != n_before:
                raise Violation(["several-idle", "healthy-socket-not-reused"], "%d connection(s) idle for less than the timeout, yet a new socket was opened: %s" % (len(young), where))
            for sid in old:
                released_at.pop(sid, None)
            # the connection the call used is idle from now on
            for s_ in net.sockets:
                if s_.id in used and not s_.closed:
                    socks[id(s_)] = s_
                    released_at[id(s_)] = env.clock.now
            if len(pool.used):
                raise Violation(["several-idle", "checked-out-after-call"], "%d connection(s) still checked out: %s" % (len(pool.used), where))
        c.close()
        left = [s_.id for s_ in net.sockets if not s_.closed]
        if left:
            raise Violation(["several-idle", "open-after-close"], "sockets %r open after close(): %s" % (left, desc))
    return expired_seen, ["several-idle", "n=%d" % case["n"], "expired" if expired_seen else "none-expired"]


PARTS = [
    Part("several-idle-connections-of-different-ages", "enum", check_several_idle, cases=several_idle_cases, exhaustive=True),
    Part("re-entrant-calls", "enum", check_reentrant, cases=reentrant_cases, exhaustive=True),
    Part("long-lives", "enum", check, cases=soak_cases, shards={"quick": 6, "thorough": 12}),
    Part("fault-and-gap-sweep", "enum", check, cases=sweep_cases, exhaustive=True),
    Part("deserialiser-failures", "enum", check, cases=serde_failure_cases, exhaustive=True),
    Part("fractional-idle-timeouts", "enum", check, cases=fractional_idle_cases, exhaustive=True),
    Part("random-histories", "hyp", check, strategy=history_strategy,
         examples={"quick": 300, "thorough": 4000}, shards={"quick": 4, "thorough": 16}),
]


def selftest():
    mcserver.selftest()

"""C19 - ElastiCache auto-discovery: rotation equals the advertised node list."""
import itertools
import logging

from hypothesis import strategies as st

from vlib import mcserver
from vlib.harness import virtual_time
from vlib.fakenet import FakeNet
from vlib.mcserver import Clock, McServer
from vlib.runner import Part, Violation

from pymemcache.client.ext.aws_ec_client import AWSElastiCacheHashClient
from pymemcache.exceptions import MemcacheError

logging.getLogger("pymemcache.client.ext.aws_ec_client").disabled = True   # its error report is itself mis-formatted; not our subject

PROPERTY = "C19"
LEVEL = "exploration"
# parts repeated in a child interpreter started with -O and with warnings turned into errors (vlib/runner.py, MODES)
MODE_PARTS = {"OW": ['reply-segmentations', 'fixed-histories']}
RULE = ("history = a configuration endpoint and up to 8 node servers behind one fake network; construct the AWS client, "
        "then 0-5 reconfigure_nodes() after the advertised list changed (scale up, scale down, replace, reorder; 1-6 "
        "nodes with distinct host names, IPs and ports), use_vpc on/off, use_pooling on/off; between reconfigurations "
        "20-200 keys are written and read. The 'config get cluster' reply is delivered under every 1-cut and 2-cut "
        "segmentation (systematic; around the node line and the end token for long replies) and drawn piece lists. "
        "Optionally nodes fail between two reconfigurations (traffic marks them failing or dead), heal, and discovery runs again. Separately the endpoint answers ERROR. Oracle (fake network log + per-node command logs): after construction "
        "and every reconfigure the rotation's node names equal the advertised (ip|host, port) set; every address the "
        "client connects to while routing the corpus is advertised (with >= 50 keys and <= 6 nodes: all advertised "
        "nodes are used); no command reaches a node that is no longer advertised; every key-addressed call succeeds; "
        "sockets to replaced nodes are closed; the ERROR endpoint makes construction fail with a MemcacheError "
        "(MemcacheUnknownCommandError), without waiting for an end token that will never come. Node lists include nodes that share an address and differ only in the port (one host name and IP with three ports; a node sharing only its IP, another only its host name, with a second node). Large clusters: 1 ... 200 nodes (thorough 1000), sizes straddling the points where the reply crosses one and two receive buffers, delivered whole, in buffer-sized and in small pieces; scale-down to a third and back. Clients side by side: two ElastiCache clients for two clusters (each behind its own endpoint and fake network; overlapping or disjoint node sets, any use_vpc mix, pooled or not) alive in one process and used alternately / one after the other with the same keys, optionally with a re-discovery of one of them half-way: every set/get of a client reaches exactly one node its own endpoint advertises and nothing of the other cluster. Non-trivial: a "
        "scale-down or replacement followed by traffic, or a reply cut inside the node line or the end token. Before a reconfiguration the application may add a server of its own through add_server, in eight spellings (tuple, host:port, host alone, [v6]:port, unix:path, path, text port, capitals), followed by single-key traffic; after the reconfiguration the usual rules apply (rotation and client table = advertised list, no command or open socket to anything else). Node clients may be of a Client subclass that holds a second connection (closed by its own close()). Two users refreshing one client at once (every pattern of handing over at the first six socket calls): both succeed, rotation = advertised list, nothing stale left open. The cluster payload may come with CR LF line ends or a very large version number. A refresh may fail (the endpoint answers ERROR / SERVER_ERROR, or is unreachable) between refreshes that succeed: it raises the memcached or network error, and after the next successful refresh everything is as if it had not happened."
        + ' Node names of other shapes (one label, *.ec2.internal, a trailing dot, a 63-character label, an IPv6 address, a long top-level domain with port 65535); a TLS context with check_hostname on, with use_vpc on and off.')
MANIFEST = {
    "category": "exploration",
    "technique": "Hypothesis-generated reconfiguration histories + systematic 1-/2-cut segmentations of the discovery reply, against a fake configuration endpoint and per-node memcached models; set-equality oracle between advertised nodes, rotation, contacted addresses and closed sockets",
    "text": "The configuration endpoint and every node are models behind one fake network, so which addresses the client contacts, which nodes receive commands and which sockets are closed are observable facts; they are compared with the advertised list after construction and after every generated scale-up/scale-down/replacement, with the discovery reply cut at every 1- and 2-cut position. Random exploration of histories, systematic over reply segmentations.",
    "note": "Node host names are syntactically valid DNS names; the advertised list always has at least one node.",
    "design_ref": "DESIGN.md 3/C19",
}
ASSUMPTIONS = [
    "the ElastiCache reply format is 'CONFIG cluster 0 <n>\\r\\n<version>\\n<host|ip|port ...>\\n\\r\\nEND\\r\\n'",
    "each node is reachable under both its host name and its IP address",
]

CFG_HOST = "cluster.abcxyz.cfg.use1.cache.amazonaws.com"
CFG = CFG_HOST + ":11211"
NODES = [("node%d.abcxyz.use1.cache.amazonaws.com" % i, "10.0.%d.%d" % (i // 4, 10 + i), 11211 + (i % 3)) for i in range(8)]
# nodes 8-10: one address (host name and IP alike), three ports - a port-forwarding gateway, a tunnel, a local test cluster
NODES += [("gateway.abcxyz.use1.cache.amazonaws.com", "10.0.9.9", 11311 + i) for i in range(3)]
# node 11 shares only its IP with node 0 (another port), node 12 only its host name with node 1
NODES += [("alias-of-0.abcxyz.use1.cache.amazonaws.com", NODES[0][1], 11999), (NODES[1][0], "10.0.7.77", 11998)]
# nodes 13-18: other shapes a node's name and address may have - one label, a private DNS zone, a trailing dot, a 63-character label,
# an IPv6 address (used with use_vpc), a long top-level domain with the highest port
NODES += [("memcached-0", "10.0.8.1", 11211), ("cache-node-1.ec2.internal", "10.0.8.2", 11211), ("node.prod.example.internal.", "10.0.8.3", 11212),
          ("a" * 63 + ".corp.example.com", "10.0.8.4", 11211), ("v6node.abcxyz.use1.cache.amazonaws.com", "fd00::1:17", 11211),
          ("xn--cache-9qa.example.museum", "192.168.255.254", 65535)]
HUGE = 1 << 30
# servers of its own the application may put into rotation through the inherited add_server, in the spellings a server can have;
# the next reconfigure_nodes() makes the rotation the advertised list again
APP_SERVERS = [("10.9.9.9", 11211), "10.9.9.9:11211", "10.9.9.9", "[fd00::9]:11211", "unix:/tmp/app.sock", "/tmp/app.sock", ("App-Host", "11211"), "App-Host:11211"]
APP_ADDRS = [("10.9.9.9", 11211), ("fd00::9", 11211), "/tmp/app.sock", ("App-Host", 11211)]


def cluster_body(version, idxs, layout=None):
    """the payload of 'config get cluster': version line, node line; `layout` names a variation an endpoint, an emulator or a
    proxy may serve: CR LF line ends, a very large version number (a blank at the end of the node line is NOT among them: the
    pinned parser takes it for an empty node, and the documented format has none)"""
    nodes = " ".join("%s|%s|%d" % NODES[i] for i in idxs).encode()
    if layout == "crlf":
        return b"%d\r\n" % version + nodes + b"\r\n"
    if layout == "huge-version":
        return b"%d\n" % (version + 10 ** 30) + nodes + b"\n"
    return b"%d\n" % version + nodes + b"\n"


class World:
    def __init__(self, schedule=None):
        self.clock = Clock()
        self.net = FakeNet()
        if schedule:
            self.net.schedule = schedule
        self.cfg = McServer(self.clock, name="cfg")
        self.net.add_server((CFG_HOST, 11211), self.cfg)
        self.nodes = []
        for host, ip, port in NODES:
            s = McServer(self.clock, name=host)
            self.net.add_server((host, port), s)
            self.net.add_server((ip, port), s)
            self.nodes.append(s)
        self.app = McServer(self.clock, name="app-server")
        for a in APP_ADDRS:
            self.net.add_server(a, self.app)

    def advertise(self, version, idxs, layout=None):
        self.cfg.cluster_config = cluster_body(version, idxs, layout if layout is not None else getattr(self, "layout", None))


def check(case):
    w = World(case.get("schedule"))
    w.layout = case.get("layout")
    use_vpc = case.get("use_vpc", True)
    steps = case["steps"]                       # list of node-index lists; steps[0] is the list at construction
    nkeys = case.get("nkeys", 60)
    desc = "use_vpc=%r pooling=%r steps=%r schedule=%r%s%s" % (use_vpc, case.get("pooling", False), steps, (case.get("schedule") or [])[:6],
                                                               " app_add=%r" % case["app_add"] if case.get("app_add") else "",
                                                               " payload layout %s" % case["layout"] if case.get("layout") else "")
    labels = ["vpc" if use_vpc else "fqdn"]
    if case.get("endpoint_error"):
        w.cfg.cluster_error = case["endpoint_error"]
        w.net.begin_call(0)
        try:
            with virtual_time(w.clock):
                AWSElastiCacheHashClient(CFG, socket_module=w.net, use_vpc=use_vpc, timeout=1, connect_timeout=1)
            raise Violation(["error-endpoint-accepted"], "endpoint answered %r to 'config get cluster' but construction succeeded" % (case["endpoint_error"],))
        except Violation:
            raise
        except MemcacheError as e:
            ok = e
        except Exception as e:  # noqa: BLE001
            raise Violation(["error-endpoint-internal-error", type(e).__name__],
                            "endpoint answered %r to 'config get cluster'; construction raised %r instead of the memcached error" % (case["endpoint_error"], e))
        finally:
            w.net.end_call(0)
        if any(f[0] == "blocks-forever" for f in w.net.flags):
            raise Violation(["error-endpoint-blocks"], "endpoint answered %r; the client kept waiting for the end token (would block until the timeout) before raising %r"
                            % (case["endpoint_error"], ok))
        if w.net.open_sockets():
            raise Violation(["error-endpoint-socket-leak"], "socket to the endpoint left open after the failed construction")
        return True, ["endpoint-error"]

    call = [0]

    def bracket(fn, *a, **k):
        w.net.begin_call(call[0])
        try:
            return ("ok", fn(*a, **k))
        except Exception as e:  # noqa: BLE001
            return ("exc", e)
        finally:
            w.net.end_call(call[0])
            call[0] += 1

    def advertised(idxs):
        return {(NODES[i][1] if use_vpc else NODES[i][0], NODES[i][2]) for i in idxs}

    with virtual_time(w.clock):
        vbase = case.get("version_base", 1)
        w.advertise(vbase, steps[0])
        klass = AWSElastiCacheHashClient
        tunnel = None
        if case.get("client_class"):
            # the node clients are instances of a Client subclass that holds a second connection, closed by its own close()
            from vlib import subclasses
            tunnel = subclasses.TunnelClient.tunnel_addr
            if tunnel not in w.net.servers:
                w.net.add_server(tunnel, McServer(w.clock, name="tunnel"))
            klass = type("Tunnelled", (AWSElastiCacheHashClient,), {"client_class": subclasses.TunnelClient})
            labels.append("client_class")
        tkw = {}
        if case.get("tls"):
            # in-transit encryption: a TLS context (as ssl.create_default_context() makes it: check_hostname on) for every connection
            from vlib.fakenet import FakeTLSContext
            tkw["tls_context"] = FakeTLSContext(w.net)
            labels.append("tls")
        r = bracket(lambda: klass(CFG, socket_module=w.net, use_vpc=use_vpc, use_pooling=case.get("pooling", False),
                                                     default_noreply=False, timeout=1, retry_attempts=case.get("retry_attempts", 2), **tkw))
        if r[0] == "exc":
            raise Violation(["construction-raises", type(r[1]).__name__], "construction raised %r: %s" % (r[1], desc))
        hc = r[1]
        if any(f[0] == "blocks-forever" for f in w.net.flags):
            raise Violation(["discovery-blocks"], "discovery waited for bytes that would never come: %s" % desc)
        shrunk = False
        for si, idxs in enumerate(steps):
            if si > 0:
                # optionally some nodes fail between two reconfigurations: traffic marks them failing / dead, then they
                # heal and the application re-runs discovery (what the docstring recommends after errors)
                for ai in (case.get("app_add") or {}).get(str(si), []):
                    labels.append("application-added-a-server")
                    r = bracket(hc.add_server, APP_SERVERS[ai % len(APP_SERVERS)])
                    if r[0] == "exc":
                        raise Violation(["add_server-raises", type(r[1]).__name__], "add_server(%r) raised %r before step %d: %s" % (APP_SERVERS[ai % len(APP_SERVERS)], r[1], si, desc))
                    for kk in range(8):
                        bracket(hc.get, "app-%d-%d" % (si, kk))              # single-key traffic in between; not judged
                down = [j for j in (case.get("fail_before") or {}).get(str(si), []) if j in steps[si - 1]]
                if down:
                    labels.append("node-failure-before-reconfigure")
                    for j in down:
                        w.nodes[j].down = "refused"
                    for t in range(10):
                        w.clock.advance(2)
                        for kk in range(6):
                            bracket(hc.get, "probe-%d-%d" % (si, kk))          # errors are expected here and not judged
                    for j in down:
                        w.nodes[j].down = None
                fr = (case.get("fail_refresh") or {}).get(str(si))
                if fr:
                    # one refresh fails (the endpoint answers with an error line, or is unreachable): it raises; whatever it left
                    # behind, the next successful refresh makes the rotation the advertised list again and nothing stale stays open
                    labels.append("a-refresh-failed")
                    if fr == "down":
                        w.cfg.down = "refused"
                    else:
                        w.cfg.cluster_error = fr.encode()
                    r = bracket(hc.reconfigure_nodes)
                    w.cfg.down = None
                    w.cfg.cluster_error = None
                    if r[0] == "ok":
                        raise Violation(["failed-refresh-succeeds"], "reconfigure_nodes returned although the endpoint answered %r (step %d): %s" % (fr, si, desc))
                    if not isinstance(r[1], (MemcacheError, OSError)):
                        raise Violation(["failed-refresh-internal-error", type(r[1]).__name__], "reconfigure_nodes raised %r when the endpoint answered %r: %s" % (r[1], fr, desc))
                    for kk in range(6):
                        q = bracket(hc.get, "during-%d-%d" % (si, kk))
                        if q[0] == "exc" and not isinstance(q[1], (MemcacheError, OSError)):
                            raise Violation(["after-failed-refresh-internal-error", type(q[1]).__name__], "after the failed refresh get raised %r: %s" % (q[1], desc))
                w.advertise(vbase + si, idxs)
                r = bracket(hc.reconfigure_nodes)
                if r[0] == "exc":
                    raise Violation(["reconfigure-raises", type(r[1]).__name__], "reconfigure_nodes raised %r at step %d: %s" % (r[1], si, desc))
                if set(steps[si - 1]) - set(idxs):
                    shrunk = True
                    labels.append("scale-down-or-replace")
            want = advertised(idxs)
            names = {"%s:%s" % (h, p) for h, p in want}
            rot = set(hc.hasher.nodes)
            if rot != names:
                raise Violation(["rotation-differs"], "after step %d the rotation is %r, advertised %r: %s" % (si, sorted(rot), sorted(names), desc))
            if set(hc.clients) != names:
                raise Violation(["clients-differ"], "after step %d the client table is %r, advertised %r: %s" % (si, sorted(hc.clients), sorted(names), desc))
            # traffic
            retired = [n for j, n in enumerate(w.nodes) if j not in idxs]
            marks = [len(n.log) for n in retired]
            n0 = len(w.net.log)
            for i in range(nkeys):
                k = "key-%d-%d" % (si, i)
                a = bracket(hc.set, k, b"v%d" % i)
                b = bracket(hc.get, k)
                if a != ("ok", True) or b != ("ok", b"v%d" % i):
                    raise Violation(["traffic-fails", type(a[1]).__name__ if a[0] == "exc" else type(b[1]).__name__ if b[0] == "exc" else "value"],
                                    "after step %d set/get of %r gave %r / %r: %s" % (si, k, a, b, desc))
            def _a(x):
                return x if isinstance(x, str) else (x[0], int(x[1]))
            contacted = {_a(e[4]) for e in w.net.log[n0:] if e[3] == "connect"} - {tunnel}
            used = (contacted | {_a(s.addr) for s in w.net.sockets if not s.closed and s.addr and s.addr[0] != CFG_HOST}) - {tunnel}
            if tunnel:
                nt = len([s for s in w.net.sockets if not s.closed and s.addr and _a(s.addr) == tunnel])
                nn = len([s for s in w.net.sockets if not s.closed and s.addr and _a(s.addr) != tunnel and s.addr[0] != CFG_HOST])
                if nt != nn:
                    raise Violation(["stale-connection-open", "second-connection"], "after step %d %d node connections are open but %d of the second connections their clients hold (closed by the client class's own close()): %s" % (si, nn, nt, desc))
            if not used <= want:
                raise Violation(["contacted-unadvertised"], "after step %d the client talks to %r, advertised are %r: %s" % (si, sorted(used - want), sorted(want), desc))
            if nkeys >= 30 * len(want) and used != want:      # chance of an unused node by luck < 1e-12
                raise Violation(["advertised-node-unused"], "after step %d %d keys were routed but nodes %r were never used: %s" % (si, nkeys, sorted(want - used), desc))
            for n, m in zip(retired, marks):
                if len(n.log) != m:
                    raise Violation(["command-to-retired-node"], "node %s is not advertised after step %d but received %r: %s" % (n.name, si, n.log[m:][:2], desc))
            for s in w.net.sockets:
                if not s.closed and s.addr and isinstance(s.addr, str):
                    raise Violation(["stale-connection-open"], "socket to %r still open after step %d although the node is not advertised: %s" % (s.addr, si, desc))
                if not s.closed and s.addr and s.addr[0] != CFG_HOST and (s.addr[0], int(s.addr[1])) not in want and (s.addr[0], int(s.addr[1])) != tunnel:
                    raise Violation(["stale-connection-open"], "socket to %r still open after step %d although the node is no longer advertised: %s" % (s.addr, si, desc))
            for s in w.net.sockets:
                if not s.closed and s.addr and s.addr[0] == CFG_HOST:
                    raise Violation(["endpoint-connection-left-open"], "the connection to the configuration endpoint was left open after step %d: %s" % (si, desc))
        hc.close()
        if tunnel and w.net.open_sockets():
            raise Violation(["socket-left-open-after-close"], "sockets to %r left open after close(): %s" % (sorted({str(s.addr) for s in w.net.open_sockets()}), desc))
    sched = case.get("schedule")
    cut_inside = bool(sched) and len(sched) > 1
    return shrunk or cut_inside, labels + (["segmented-reply"] if cut_inside else [])


def segmentation_cases(tier, seed):
    idxs = [0, 1, 2]
    body = cluster_body(1, idxs)
    stream = b"CONFIG cluster 0 %d\r\n" % len(body) + body + b"\r\nEND\r\n"
    L = len(stream)
    for c in range(1, L):
        yield {"steps": [idxs], "use_vpc": bool(c % 2), "nkeys": 6, "schedule": [c, HUGE]}
    interesting = sorted(set(list(range(1, 30)) + list(range(L - 14, L)) + [stream.find(b"|"), stream.find(b"|") + 1, stream.find(b" node1"), L // 2]))
    pairs = itertools.combinations(interesting if tier == "quick" else range(1, L), 2)
    for a, b in pairs:
        yield {"steps": [idxs], "use_vpc": True, "nkeys": 4, "schedule": [a, b - a, HUGE]}
    yield {"steps": [idxs], "use_vpc": True, "nkeys": 4, "schedule": [1]}         # every byte on its own
    yield {"steps": [idxs, [2]], "use_vpc": False, "nkeys": 20, "schedule": [3]}
    for err in (b"ERROR", b"SERVER_ERROR out of memory", b"CLIENT_ERROR bad command line format"):
        for sched in (None, [1], [3, HUGE]):
            yield {"steps": [idxs], "endpoint_error": err, "schedule": sched}


def fixed_history_cases(tier, seed):
    hist = [
        [[0, 1, 2], [0]], [[0, 1, 2], [1, 2]], [[0], [0, 1, 2, 3]], [[0, 1], [2, 3]], [[0, 1, 2], [2, 1, 0]], [[0, 1, 2, 3, 4, 5], [5], [0, 1, 2, 3, 4, 5]],
        [[3], [4], [5], [3]], [[0, 1, 2], [0, 1, 2]], [[7, 6], [6, 7, 0], [0]], [[0, 1, 2, 3], [0, 1, 2], [0, 1], [0]],
    ]
    hist += [[[8, 9, 10]], [[8, 9], [9, 10], [8]], [[0, 8, 9, 10], [10]], [[0, 11], [0, 11, 1, 12]], [[1, 12], [12]], [[11, 0, 12, 1, 8, 9]]]
    hist += [[[13, 14, 15]], [[16, 17, 18], [18]], [[0, 13], [13, 14, 17], [17]], [[15], [15, 16]], [[13, 14, 15, 16, 17, 18], [0, 1], [14, 18, 2]]]
    for h in hist:
        for vpc in (True, False, 1, 0):
            for pooling in (False, True):
                yield {"steps": h, "use_vpc": vpc, "pooling": pooling, "nkeys": 60}
    for h in hist[:6] + hist[-3:]:
        for vpc in (True, False):
            yield {"steps": h, "use_vpc": vpc, "pooling": bool(len(h) % 2), "nkeys": 60, "tls": True}
    # the configuration version the endpoint reports grows with every topology change and crosses digit boundaries
    for vb in (7, 8, 9, 97, 98, 99, 998, 4294967294):
        for h in ([[0, 1, 2], [0, 1, 2, 3], [1, 4], [4]], [[0], [1], [2], [0, 1, 2]]):
            yield {"steps": h, "use_vpc": bool(vb % 2), "pooling": False, "nkeys": 60, "version_base": vb}
    # the application adds a server of its own, in every spelling, before a reconfiguration (and again before the next)
    for ai in range(len(APP_SERVERS)):
        for h in ([[0, 1, 2], [0, 1, 2], [1, 2, 3]], [[0], [1], [0, 1]]):
            for pooling in (False, True):
                yield {"steps": h, "use_vpc": bool(ai % 2), "pooling": pooling, "nkeys": 60, "app_add": {"1": [ai], "2": [ai + 1]} if pooling else {"1": [ai]}}
    # node clients of a Client subclass that holds a second connection: replaced nodes' clients must be closed through its close()
    for h in ([[0, 1, 2], [0]], [[0, 1], [2, 3], [0, 1]], [[0, 1, 2, 3], [0, 1, 2, 3], [3]]):
        for pooling in (False, True):
            for vpc in (True, False):
                yield {"steps": h, "use_vpc": vpc, "pooling": pooling, "nkeys": 60, "client_class": "tunnel"}
    # a refresh that fails, then one that succeeds with fewer / other nodes
    for fr in ("ERROR", "SERVER_ERROR out of memory", "down"):
        for h in ([[0, 1, 2], [0, 1]], [[0, 1, 2], [3, 4]], [[0, 1], [0, 1], [1]], [[0], [0, 1, 2]]):
            for vpc in (True, False):
                for pooling in (False, True):
                    yield {"steps": h, "use_vpc": vpc, "pooling": pooling, "nkeys": 60, "fail_refresh": {"1": fr} if len(h) == 2 else {"1": fr, "2": fr}}
    # other layouts of the configuration payload
    for layout in ("crlf", "huge-version"):
        for h in ([[0, 1, 2], [0]], [[0], [0, 1, 2, 3]], [[4, 5], [5, 4]]):
            for vpc in (True, False):
                for sched in (None, [1], [7, 3]):
                    yield {"steps": h, "use_vpc": vpc, "pooling": bool(sched), "nkeys": 60, "layout": layout, "schedule": sched}
    # a node fails (and is marked failing / dead by traffic), heals, and discovery runs again
    for h, fb in [([[0, 1, 2], [0, 1, 2]], {"1": [1]}), ([[0, 1, 2], [0, 1, 2, 3]], {"1": [0, 2]}), ([[0, 1], [1], [0, 1]], {"1": [0], "2": [1]}),
                  ([[0, 1, 2], [0, 1, 2], [0, 1, 2]], {"1": [0, 1, 2], "2": [2]}), ([[4, 5], [4, 5]], {"1": [5]})]:
        for ra in (0, 1, 2):
            for vpc in (True, False):
                yield {"steps": h, "fail_before": fb, "retry_attempts": ra, "use_vpc": vpc, "pooling": bool(ra % 2), "nkeys": 90}


# ---- large clusters --------------------------------------------------------------------------------------------------

def _big_nodes(n):
    return [("cache-%03d.bigcluster.use1.cache.amazonaws.com" % i, "10.%d.%d.%d" % (1 + i // 60000, (i // 250) % 250, 1 + i % 250), 11211 + (i % 2)) for i in range(n)]


def big_cluster_cases(tier, seed):
    """any number of nodes: node lists whose reply is longer than one receive buffer (4096 bytes), sizes straddling the
    buffer boundary, delivered whole, in buffer-sized pieces and in small pieces"""
    # reply length is about 67 bytes per node: 4096 is crossed near 60 nodes, 8192 near 121
    sizes = [1, 20, 58, 59, 60, 61, 62, 63, 119, 120, 121, 122, 123, 124, 200] + ([500, 1000] if tier == "thorough" else [])
    for n in sizes:
        for vpc in (True, False):
            for sched in (None, [4096], [4095, 2, 4096], [1000], [7]):
                if sched == [7] and n > 70:
                    continue
                yield {"n": n, "use_vpc": vpc, "schedule": sched, "shrink_to": max(1, n // 3)}


def check_big_cluster(case):
    n, use_vpc = case["n"], case["use_vpc"]
    nodes = _big_nodes(n)
    w = World(case.get("schedule"))
    servers = {}
    for host, ip, port in nodes:
        s_ = McServer(w.clock, name=host)
        w.net.add_server((host, port), s_)
        w.net.add_server((ip, port), s_)
        servers[(ip if use_vpc else host, port)] = s_
    desc = "%d nodes, use_vpc=%r, reply delivered in pieces %r" % (n, use_vpc, case.get("schedule"))

    def advertise(version, sub):
        w.cfg.cluster_config = b"%d\n" % version + " ".join("%s|%s|%d" % x for x in sub).encode() + b"\n"

    with virtual_time(w.clock):
        for step, sub in enumerate((nodes, nodes[:case["shrink_to"]], nodes)):
            advertise(step + 1, sub)
            w.net.begin_call(step)
            try:
                if step == 0:
                    hc = AWSElastiCacheHashClient(CFG, socket_module=w.net, use_vpc=use_vpc, default_noreply=False, timeout=1)
                else:
                    hc.reconfigure_nodes()
            except Exception as e:  # noqa: BLE001
                raise Violation(["big-cluster", "raises", type(e).__name__], "step %d raised %r: %s" % (step, e, desc))
            finally:
                w.net.end_call(step)
            if any(f[0] == "blocks-forever" for f in w.net.flags):
                raise Violation(["big-cluster", "blocks"], "discovery waited for bytes that would never come at step %d: %s" % (step, desc))
            want = {"%s:%s" % ((ip if use_vpc else host), port) for host, ip, port in sub}
            rot = set(hc.hasher.nodes)
            if rot != want or set(hc.clients) != want:
                raise Violation(["big-cluster", "rotation-differs"], "after step %d the rotation has %d nodes (%d missing, %d extra: %r), %d advertised: %s"
                                % (step, len(rot), len(want - rot), len(rot - want), sorted(rot - want)[:3], len(want), desc))
            marks = {a: len(s_.log) for a, s_ in servers.items()}
            for i in range(min(3 * len(sub), 90)):
                k = "key-%d-%d" % (step, i)
                try:
                    ok, got = hc.set(k, b"v"), hc.get(k)
                except Exception as e:  # noqa: BLE001
                    raise Violation(["big-cluster", "traffic-raises", type(e).__name__], "set/get of %r raised %r after step %d: %s" % (k, e, step, desc))
                if ok is not True or got != b"v":
                    raise Violation(["big-cluster", "traffic"], "set/get of %r gave %r / %r after step %d: %s" % (k, ok, got, step, desc))
            live = {"%s:%s" % a for a, s_ in servers.items() if len(s_.log) != marks[a]}
            if not live <= want:
                raise Violation(["big-cluster", "contacted-unadvertised"], "after step %d commands reached %r, which are not advertised: %s" % (step, sorted(live - want)[:3], desc))
        hc.close()
    if w.net.open_sockets():
        raise Violation(["big-cluster", "socket-left-open"], "sockets left open after close(): %s" % desc)
    return n >= 59, ["big-cluster", "n>=60" if n >= 60 else "n<60"]


# ---- several clients in one process --------------------------------------------------------------------------------

def side_by_side_cases(tier, seed):
    sets = [([0, 1, 2], [3, 4, 5]), ([0, 1], [0, 1]), ([0, 1, 2, 3], [2]), ([5], [6, 7, 0])]
    for a, b in sets:
        for vpcs in ((True, True), (True, False), (False, False)):
            for pooling in (False, True):
                for pattern in ("alternate", "a-then-b", "b-then-a"):
                    for reconf in (None, [1, 2, 6]):
                        yield {"a": a, "b": b, "vpc": list(vpcs), "pooling": pooling, "pattern": pattern, "reconfigure_a": reconf}


def check_side_by_side(case):
    """two ElastiCache clients (two clusters, each behind its own endpoint and network) alive in one process and used in
    turn with the same keys: each talks to the nodes ITS endpoint advertises, whatever the other one did"""
    worlds = [World(), World()]
    idxs = [list(case["a"]), list(case["b"])]
    desc = "clusters %r / %r, use_vpc %r, pooling %r, %s%s" % (case["a"], case["b"], case["vpc"], case["pooling"], case["pattern"],
                                                             ", cluster A re-discovered as %r half-way" % case["reconfigure_a"] if case.get("reconfigure_a") else "")
    with virtual_time(worlds[0].clock):
        hcs = []
        for w, ix, vpc in zip(worlds, idxs, case["vpc"]):
            w.advertise(1, ix)
            hcs.append(AWSElastiCacheHashClient(CFG, socket_module=w.net, use_vpc=vpc, use_pooling=case["pooling"], default_noreply=False, timeout=1))
        keys = ["key-%d" % i for i in range(40)]
        order = {"alternate": [(x, k) for k in keys for x in (0, 1)], "a-then-b": [(0, k) for k in keys] + [(1, k) for k in keys],
                 "b-then-a": [(1, k) for k in keys] + [(0, k) for k in keys]}[case["pattern"]]
        order = order + order[::-1]
        for n, (x, k) in enumerate(order):
            if case.get("reconfigure_a") and n == len(order) // 2:
                idxs[0] = list(case["reconfigure_a"])
                worlds[0].advertise(2, idxs[0])
                hcs[0].reconfigure_nodes()
            marks = [[len(nd.log) for nd in w.nodes] for w in worlds]
            try:
                ok = hcs[x].set(k, b"%d" % x)
                got = hcs[x].get(k)
            except Exception as e:  # noqa: BLE001
                raise Violation(["side-by-side", "raises", type(e).__name__], "client %d raised %r on %r (operation %d): %s" % (x, e, k, n, desc))
            touched = [[j for j, nd in enumerate(w.nodes) if len(nd.log) != m[j]] for w, m in zip(worlds, marks)]
            if touched[1 - x]:
                raise Violation(["side-by-side", "other-cluster-contacted"], "client %d's set/get of %r sent commands to nodes %r of the OTHER cluster (operation %d): %s" % (x, k, touched[1 - x], n, desc))
            if len(touched[x]) != 1 or touched[x][0] not in idxs[x]:
                raise Violation(["side-by-side", "not-an-advertised-node"], "client %d's set/get of %r went to nodes %r, its endpoint advertises %r (operation %d): %s" % (x, k, touched[x], idxs[x], n, desc))
            if ok is not True or got != b"%d" % x:
                raise Violation(["side-by-side", "wrong-answer"], "client %d: set/get of %r gave %r / %r (operation %d): %s" % (x, k, ok, got, n, desc))
        for hc in hcs:
            hc.close()
    for x, w in enumerate(worlds):
        if w.net.open_sockets():
            raise Violation(["side-by-side", "socket-left-open"], "client %d left sockets open after close(): %s" % (x, desc))
    return True, ["side-by-side", case["pattern"]]


# ---- two users of one client refresh at the same time ------------------------------------------------------------------

def two_users_cases(tier, seed):
    for before, after in (([0, 1, 2], [1, 2, 3]), ([0, 1], [0, 1]), ([0, 1, 2, 3], [3]), ([0], [1, 2])):
        for pooling in (False, True):
            for vpc in (True, False):
                for first in (0, 1):
                    for nch in range(0, 7):
                        # the i-th socket call decides who goes on: all patterns of handing over at the first six calls
                        for mask in ((0, 1, 2, 5, 9, 21, 63) if tier == "quick" else range(64)):
                            if nch != 6:
                                continue
                            yield {"before": before, "after": after, "pooling": pooling, "use_vpc": vpc, "first": first,
                                   "choices": [(mask >> b) & 1 for b in range(6)] + [1, 0, 1, 1, 0, 0, 1] * 3}


def check_two_users(case):
    """two users of ONE client (threads, or tasks that switch at socket calls) both call reconfigure_nodes() after the
    cluster changed: both calls succeed, the rotation is the advertised list, connections to replaced nodes are closed,
    nothing is left open to the configuration endpoint"""
    from vlib import interleave
    w = World()
    use_vpc = case["use_vpc"]
    desc = "two overlapping reconfigure_nodes() on one client (use_vpc=%r pooling=%r), cluster %r -> %r, hand-over pattern %r, user %d starts" % (
        use_vpc, case["pooling"], case["before"], case["after"], case["choices"][:6], case["first"])
    with virtual_time(w.clock):
        w.advertise(1, case["before"])
        hc = AWSElastiCacheHashClient(CFG, socket_module=w.net, use_vpc=use_vpc, use_pooling=case["pooling"], default_noreply=False, timeout=1)
        for i in range(30):
            hc.set("warm-%d" % i, b"v")           # connections to the old nodes exist
        w.advertise(2, case["after"])
        out, sc = interleave.run(w.net, [hc.reconfigure_nodes, hc.reconfigure_nodes], choices=case["choices"], first=case["first"])
        for u, r in enumerate(out):
            if r[0] == "exc":
                raise Violation(["two-users", "reconfigure-raises", type(r[1]).__name__], "user %d's reconfigure_nodes raised %r although the endpoint is healthy: %s" % (u, r[1], desc))
        want = {(NODES[i][1] if use_vpc else NODES[i][0], NODES[i][2]) for i in case["after"]}
        names = {"%s:%s" % a for a in want}
        if set(hc.hasher.nodes) != names or set(hc.clients) != names:
            raise Violation(["two-users", "rotation-differs"], "rotation %r / clients %r, advertised %r: %s" % (sorted(hc.hasher.nodes), sorted(hc.clients), sorted(names), desc))
        for i in range(40):
            k = "key-%d" % i
            if hc.set(k, b"x") is not True or hc.get(k) != b"x":
                raise Violation(["two-users", "traffic-fails"], "set/get of %r fails afterwards: %s" % (k, desc))
        for s in w.net.sockets:
            if not s.closed and s.addr and (s.addr[0] == CFG_HOST or (s.addr[0], int(s.addr[1])) not in want):
                raise Violation(["two-users", "stale-connection-open"], "socket to %r still open afterwards: %s" % (s.addr, desc))
        hc.close()
        if w.net.open_sockets():
            raise Violation(["two-users", "socket-left-open"], "sockets left open after close(): %s" % desc)
    return sc.switches > 0, ["two-users", "switches=%d" % min(sc.switches, 6)]


def history_strategy(tier):
    nodes = st.lists(st.one_of(st.integers(0, 7), st.integers(0, 12), st.integers(0, 18)), min_size=1, max_size=6, unique=True)
    sched = st.one_of(st.none(), st.lists(st.sampled_from([1, 2, 3, 5, 8, 13, 50, 4096]), min_size=1, max_size=4))
    fb = st.dictionaries(st.sampled_from(["1", "2", "3"]), st.lists(st.integers(0, 7), min_size=1, max_size=3, unique=True), max_size=2)
    return st.fixed_dictionaries({"steps": st.lists(nodes, min_size=1, max_size=6), "use_vpc": st.sampled_from([True, False, 1, 0]), "pooling": st.booleans(),
                                  "nkeys": st.sampled_from([20, 60, 200]), "schedule": sched, "fail_before": fb, "tls": st.sampled_from([False, False, True]),
                                  "client_class": st.sampled_from([None, None, "tunnel"]), "layout": st.sampled_from([None, None, "crlf", "huge-version"]),
                                  "fail_refresh": st.one_of(st.none(), st.dictionaries(st.sampled_from(["1", "2", "3"]), st.sampled_from(["ERROR", "SERVER_ERROR busy", "down"]), max_size=2)), "app_add": st.one_of(st.none(), st.dictionaries(st.sampled_from(["1", "2", "3"]), st.lists(st.integers(0, 7), min_size=1, max_size=2), max_size=2)),
                                  "retry_attempts": st.sampled_from([0, 1, 2]), "version_base": st.sampled_from([1, 1, 8, 9, 98, 99, 65535])})


PARTS = [
    Part("reply-segmentations", "enum", check, cases=segmentation_cases, exhaustive=True),
    Part("fixed-histories", "enum", check, cases=fixed_history_cases, shards={"quick": 4, "thorough": 8}),
    Part("large-clusters", "enum", check_big_cluster, cases=big_cluster_cases, shards={"quick": 8, "thorough": 16}, exhaustive=True),
    Part("two-users-refresh-together", "enum", check_two_users, cases=two_users_cases, shards={"quick": 4, "thorough": 8}, exhaustive=True),
    Part("clients-side-by-side", "enum", check_side_by_side, cases=side_by_side_cases, shards={"quick": 4, "thorough": 8}, exhaustive=True),
    Part("random-histories", "hyp", check, strategy=history_strategy,
         examples={"quick": 60, "thorough": 4000}, shards={"quick": 4, "thorough": 16}),
]


def selftest():
    mcserver.selftest()

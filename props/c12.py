"""C12 - HashClient single-key and multi-key operations agree on where a key lives."""
from hypothesis import strategies as st

from vlib import mcserver, refhash
from vlib.harness import Env, virtual_time
from vlib.runner import Part, Violation

from pymemcache.client.hash import HashClient
from pymemcache.exceptions import MemcacheServerError

PROPERTY = "C12"
LEVEL = "exploration"
# parts repeated in a child interpreter started with -O and with warnings turned into errors (vlib/runner.py, MODES)
MODE_PARTS = {"OW": ['grid']}
RULE = ("case = 1-5 servers (TCP host:port and UNIX paths, each its own memcached model behind one fake network), "
        "use_pooling on/off, key prefix, 0-50 distinct keys (str or bytes, one spelling per key; some given as "
        "(server_key, key) pairs), and a script: half the keys written by set, the rest by one set_many, then "
        "get/gets/get_many/gets_many/gat/gats, incr/decr, touch, append/prepend/replace/add, cas, delete/delete_many "
        "on drawn subsets. Oracle (per-server parsed command logs + an independent rendezvous reference): every "
        "command for key k arrives at place(node names, routing key of k) and nowhere else; a multi-key call "
        "delivers each requested key to exactly one server exactly once; get_many(keys) == {k: get(k)} for present "
        "keys (likewise gets); everything written by set / set_many is found by each single-key reader and mutator. "
        "Also multi-key calls listing the same bare key under different server keys (each entry must reach its own server; the merged value is unspecified and not judged). Epilogue: a set_many in which one server refuses one item (too large for it / out of memory) and stores the rest - the server's error comes back, and afterwards set and get of every key still reach the server placement assigns (a refusal is not a server failure). The key collection of get_many / gets_many / delete_many is passed as list, tuple, dict view, or a one-shot iterable (iterator, generator, map object). Non-trivial: >= 2 servers each owning >= 1 of the keys and >= 1 multi-key call. The server list may be configured in equivalent spellings ('host:port', '[v6]:port', the host alone for the default port, the port as text, 'unix:' before a path). The client may be a HashClient subclass that maps keys and server keys into a namespace in every public command (mapped once, in single-key and multi-key commands alike). Two threads on one HashClient(use_pooling=True), pre-empted at every bytecode of the ring's lookup code: every key is stored where the rule puts it and found again. Second epilogue: one server adds an item nobody asked for to its answer - a multi-key read reports no key the caller did not ask for. Very long key lists: 10 001 to 31 000 (thorough 100 003) keys in one multi-key read - every key asked of its own server exactly once, every value in the result."
        + ' Keys that carry the key prefix (twins prefix+K next to K); server keys spelled like a node name; set_many of which the servers refuse every n-th item (NOT_STORED): the answer names exactly those keys.')
MANIFEST = {
    "category": "exploration",
    "technique": "Hypothesis-generated server sets, key sets and operation scripts over several memcached models behind one fake network; per-server command logs compared with an independent rendezvous/murmur3 reference, plus metamorphic agreement between multi-key and single-key operations",
    "text": "Each server is its own model with its own parsed-command log, so where every command went is an observable fact; it is compared with the independent reference placement for every key and every operation, and multi-key results are compared with the per-key results. Random exploration over 1-5 servers and up to 50 keys per case.",
    "note": "One spelling (str or bytes) per key per case: HashClient hashes the key object as given, so 'k' and b'k' may live on different servers by design.",
    "design_ref": "DESIGN.md 3/C12",
}
ASSUMPTIONS = [
    "vlib/refhash.py is the published rendezvous rule (C11/C14 check it against the repository's implementation)",
    "one spelling per key per case",
]


def node_name(addr):
    return addr if isinstance(addr, str) else "%s:%s" % (addr[0], addr[1])


def _coll(keys, how):
    """the key collection as the caller may pass it: any iterable, one-shot ones included"""
    from vlib.ops import _keys_as
    return _keys_as(list(keys), how)


def spelled(addr, how):
    """an equivalent spelling of a server for the configuration: 'host:port', '[host]:port', the host alone when the port is the
    default one, the port as text, 'unix:' in front of a socket path"""
    if isinstance(addr, str):
        return "unix:" + addr if how % 2 else addr
    h, p = addr
    how %= 5
    if how == 1:
        return "%s:%d" % (h, p)
    if how == 2:
        return "[%s]:%d" % (h, p) if ":" in h else "%s:%d" % (h, p)
    if how == 3:
        return ("[%s]" % h if ":" in h else h) if p == 11211 else "%s:%d" % (h, p)
    if how == 4:
        return (h, str(p))
    return (h, p)


def check(case):
    addrs = [a if isinstance(a, str) else tuple(a) for a in case["addrs"]]
    config = [spelled(a, case["spell"][i % len(case["spell"])]) for i, a in enumerate(addrs)] if case.get("spell") else addrs
    prefix = case.get("prefix", b"")
    env = Env(addrs=addrs)
    names = [node_name(a) for a in addrs]
    srv_of = {n: s for n, s in zip(names, env.servers)}
    with virtual_time(env.clock):
        klass, ns = HashClient, (lambda x: x)
        if case.get("subclass") == "namespace":
            # a HashClient subclass that maps every key (and server key) into a namespace in each public command: single-key and
            # multi-key commands must agree on the mapped key - mapped once - and on the server it selects
            from vlib import subclasses
            klass, ns = subclasses.NamespaceHashClient, subclasses._ns
        hc = klass(config, socket_module=env.net, key_prefix=prefix, use_pooling=case.get("pooling", False), default_noreply=False)
        keys = list(case["keys"])          # entries: key | (server_key, key)
        # a server key may be any text - also one that is spelled like one of the servers ("@nodeN" in a case stands for the name of
        # the N-th server): it is hashed like any other
        keys = [(names[int(k[0][5:]) % len(names)], k[1]) if isinstance(k, tuple) and isinstance(k[0], str) and k[0].startswith("@node") else k for k in keys]
        # keys that carry the key prefix themselves: next to some key K the caller also uses the different key prefix+K
        # (on the server: prefix+prefix+K) - str or bytes like its twin
        if prefix and prefix.isascii():
            have = {(inner_ if isinstance(inner_, bytes) else inner_.encode()) for inner_ in (k[1] if isinstance(k, tuple) else k for k in keys)}
            for idx in case.get("nest") or ():
                if not keys:
                    break
                k0 = keys[idx % len(keys)]
                k0 = k0[1] if isinstance(k0, tuple) else k0
                twin = prefix + k0 if isinstance(k0, bytes) else prefix.decode() + k0
                tb = twin if isinstance(twin, bytes) else twin.encode()
                if tb not in have and len(prefix + tb) <= 250:
                    have.add(tb)
                    keys.insert((idx * 7) % (len(keys) + 1), twin)
        desc = "servers %r%s pooling=%r prefix=%r%s" % (names, " configured as %r" % (config,) if case.get("spell") else "", case.get("pooling", False), prefix,
                                                      " (namespace subclass)" if case.get("subclass") else "")

        def inner(k):
            return k[1] if isinstance(k, tuple) else k

        def routing(k):
            return ns(k[0] if isinstance(k, tuple) else k)

        def wire(k):
            k = ns(inner(k))
            return prefix + (k.encode("ascii") if isinstance(k, str) else k)

        def owner(k):
            n = refhash.place(names, routing(k))
            return n

        marks = {n: 0 for n in names}

        def new_cmds():
            out = {}
            for n in names:
                log = srv_of[n].log
                out[n] = log[marks[n]:]
                marks[n] = len(log)
            return out

        def expect_only_at(k, what):
            cmds = new_cmds()
            own = owner(k)
            for n, cs in cmds.items():
                touching = [c for c in cs if c.get("key") == wire(k) or wire(k) in (c.get("keys") or [])]
                others = [c for c in cs if c not in touching]
                if n == own and not touching:
                    raise Violation(["not-at-owner", what], "%s(%r): the owner %r received nothing (commands per server: %r); %s" % (what, k, own, _brief(cmds), desc))
                if n != own and cs:
                    raise Violation(["wrong-server", what], "%s(%r): server %r received %r, the key lives on %r; %s" % (what, k, n, _brief({n: cs}), own, desc))
                if others and n == own:
                    raise Violation(["extra-commands", what], "%s(%r): owner also received %r; %s" % (what, k, _brief({n: others}), desc))

        def call(fn, *a, **kw):
            r = env.call(fn, *a, **kw)
            if r[0] == "exc":
                raise Violation(["raises", getattr(fn, "__name__", "?"), type(r[1]).__name__], "%s%r raised %r; %s" % (getattr(fn, "__name__", "?"), a[:1], r[1], desc))
            return r[1]

        vals = {i: b"%d" % (500 + i) for i in range(len(keys))}
        half = len(keys) // 2
        for i, k in enumerate(keys[:half]):
            if call(hc.set, k, vals[i]) is not True:
                raise Violation(["set-failed"], "set(%r) did not return True; %s" % (k, desc))
            expect_only_at(k, "set")
        multi_calls = 0
        if keys[half:]:
            failed = call(hc.set_many, {k: vals[half + j] for j, k in enumerate(keys[half:])})
            multi_calls += 1
            if failed:
                raise Violation(["set_many-failed"], "set_many reported %r; %s" % (failed, desc))
            cmds = new_cmds()
            _check_multi(cmds, keys[half:], wire, owner, "set_many", desc)
        # a set_many of which the servers refuse some items (NOT_STORED): the merged answer names exactly those keys, whichever
        # server each lives on
        if len(keys) >= 2 and case.get("refuse_every"):
            step_ = case["refuse_every"]
            refused = [k for i, k in enumerate(keys) if i % step_ == 0]
            for k in refused:
                srv_of[owner(k)].refuse[wire(k)] = "not-stored"
            failed = call(hc.set_many, {k: vals[i] for i, k in enumerate(keys)}, noreply=False)
            for n in names:
                srv_of[n].refuse.clear()
            multi_calls += 1
            want_failed = sorted(repr(inner(k)) for k in refused)
            if not isinstance(failed, list) or sorted(repr(x) for x in failed) != want_failed:
                raise Violation(["set_many-failed-list"], "set_many returned %r as the keys that were not stored; the servers refused exactly %r (living on %r); %s"
                                % (failed, [inner(k) for k in refused], sorted({owner(k) for k in refused}), desc))
            cmds = new_cmds()
            _check_multi(cmds, keys, wire, owner, "set_many", desc)
        # where the data lives
        for i, k in enumerate(keys):
            own = owner(k)
            for n in names:
                has = wire(k) in srv_of[n].store
                if has != (n == own):
                    raise Violation(["stored-on-wrong-server"], "key %r is %s server %r, placement says %r; %s" % (k, "on" if has else "missing from", n, own, desc))
        # multi-key reads agree with single-key reads
        single = {}
        for i, k in enumerate(keys):
            v = call(hc.get, k)
            expect_only_at(k, "get")
            single[inner(k)] = v
            if v != vals[i]:
                raise Violation(["get-wrong-value"], "get(%r) = %r, stored %r; %s" % (k, v, vals[i], desc))
        owners_used = {owner(k) for k in keys}
        if keys:
            gm = call(hc.get_many, _coll(keys, case.get("coll")))
            multi_calls += 1
            _check_multi(new_cmds(), keys, wire, owner, "get_many", desc)
            if gm != single:
                raise Violation(["get_many-differs"], "get_many = %r, per-key gets = %r; %s" % (_brief(gm), _brief(single), desc))
            gsm = call(hc.gets_many, _coll(keys, case.get("coll")))
            multi_calls += 1
            _check_multi(new_cmds(), keys, wire, owner, "gets_many", desc)
            for i, k in enumerate(keys):
                g = call(hc.gets, k)
                expect_only_at(k, "gets")
                if gsm.get(inner(k)) != g or g[0] != vals[i]:
                    raise Violation(["gets_many-differs"], "gets_many[%r] = %r, gets = %r; %s" % (k, gsm.get(inner(k)), g, desc))
        # the same bare key under different server keys: each (server_key, key) entry of ONE multi-key call must
        # still reach its own server (which value wins in the merged answer is not specified, so only routing is judged)
        for bare, sks in case.get("dups", []):
            entries = [(sk, bare) for sk in sks]
            if len({owner(e) for e in entries}) < 2:
                continue
            for e in entries:
                call(hc.set, e, b"dup")
                new_cmds()
            call(hc.get_many, _coll(entries, case.get("coll")))
            multi_calls += 1
            _check_multi(new_cmds(), entries, wire, owner, "get_many(same key, different server keys)", desc)
            call(hc.gets_many, list(entries) + [bare])
            _check_multi(new_cmds(), entries + [bare], wire, owner, "gets_many(same key, different server keys)", desc)
            call(hc.delete_many, _coll(entries, case.get("coll")))
            _check_multi(new_cmds(), entries, wire, owner, "delete_many(same key, different server keys)", desc)
        # single-key mutators find what set / set_many wrote
        script = case.get("script", [])
        alive = {i: True for i in range(len(keys))}
        for step in script:
            if not keys:
                break
            i = step["i"] % len(keys)
            k = keys[i]
            op = step["op"]
            if not alive[i] and op != "add":
                continue
            if op == "incr":
                r = call(hc.incr, k, 5)
                vals[i] = b"%d" % (int(vals[i]) + 5)
                ok = r == int(vals[i])
            elif op == "decr":
                r = call(hc.decr, k, 1)
                vals[i] = b"%d" % (int(vals[i]) - 1)
                ok = r == int(vals[i])
            elif op == "touch":
                r = call(hc.touch, k, 50)
                ok = r is True
            elif op == "gat":
                r = call(hc.gat, k, expire=50)
                ok = r == vals[i]
            elif op == "gats":
                r = call(hc.gats, k, expire=50)
                ok = isinstance(r, tuple) and r[0] == vals[i]
            elif op == "append":
                r = call(hc.append, k, b"0")
                vals[i] = vals[i] + b"0"
                ok = r is True
            elif op == "prepend":
                r = call(hc.prepend, k, b"1")
                vals[i] = b"1" + vals[i]
                ok = r is True
            elif op == "replace":
                r = call(hc.replace, k, b"77")
                vals[i] = b"77"
                ok = r is True
            elif op == "add":
                r = call(hc.add, k, b"55")
                ok = (r is False) if alive[i] else (r is True)
                if not alive[i]:
                    vals[i] = b"55"
                    alive[i] = True
            elif op == "cas":
                tok = call(hc.gets, k)[1]
                expect_only_at(k, "gets")
                r = call(hc.cas, k, b"88", tok)
                vals[i] = b"88"
                ok = r is True
            elif op == "delete":
                r = call(hc.delete, k)
                alive[i] = False
                ok = r is True
            elif op == "get":
                r = call(hc.get, k)
                ok = r == vals[i]
            else:
                raise ValueError(op)
            expect_only_at(k, op)
            if not ok:
                raise Violation(["single-op-misses", op], "%s(%r) returned %r although the key was written by set/set_many (value %r); %s" % (op, k, r, vals[i], desc))
        rest = [k for i, k in enumerate(keys) if alive[i]]
        if rest:
            if call(hc.delete_many, _coll(rest, case.get("coll"))) is not True:
                raise Violation(["delete_many-failed"], "delete_many did not return True; %s" % desc)
            multi_calls += 1
            _check_multi(new_cmds(), rest, wire, owner, "delete_many", desc)
            for n in names:
                if srv_of[n].store:
                    raise Violation(["delete_many-left-items"], "server %r still holds %r after delete_many of everything; %s" % (n, list(srv_of[n].store)[:4], desc))
        # epilogue - a mixed outcome inside one multi-key write: the server that owns one of the keys refuses that item
        # (too large for it) and stores the others. The documented error comes back; no server has failed, so every key still
        # lives where placement puts it and every later operation reaches that server
        if case.get("refusal", True) and len(names) >= 1:
            fresh = ["fresh\x7f%d" % j for j in range(6)]
            bad = fresh[2]
            for s in env.servers:
                s.refuse[wire(bad)] = ("too-large", "oom")[len(keys) % 2]
            new_cmds()
            r = env.call(hc.set_many, {k: b"f" for k in fresh})
            if not (r[0] == "exc" and isinstance(r[1], MemcacheServerError)):
                raise Violation(["refused-item", "outcome"], "set_many with one item the server refuses returned %r, expected the server's error; %s" % (r, desc))
            new_cmds()
            for k in fresh + [kk for kk in keys[:4]]:
                if k == bad:
                    continue
                r = env.call(hc.set, k, b"after")
                if r != ("ok", True):
                    raise Violation(["refused-item", "later-set"], "after a set_many in which %r refused one item, set(%r) returned %r; %s" % (owner(bad), k, r, desc))
                expect_only_at(k, "set after a refused item")
                r = env.call(hc.get, k)
                if r != ("ok", b"after"):
                    raise Violation(["refused-item", "later-get"], "after a set_many in which %r refused one item, get(%r) returned %r; %s" % (owner(bad), k, r, desc))
                expect_only_at(k, "get after a refused item")
        # second epilogue - a server answers a multi-key read with an item nobody asked it for (a proxy out of step): whatever
        # the multi-key read makes of that, it does not report items for keys the caller did not ask for, nor - for a key that
        # lives elsewhere - something else than the single-key read of that key gives
        if len(names) >= 2 and not case.get("subclass"):
            ask = [k for k in keys[:6] if not isinstance(k, tuple)]
            if ask:
                for i_, s in enumerate(env.servers):
                    s.dialect = {"unasked"} if i_ == 0 else set()
                for opn in ("get_many", "gets_many"):
                    r = env.call(getattr(hc, opn), list(ask))
                    if r[0] == "ok":
                        extra = [k for k in r[1] if k not in ask]
                        if extra:
                            raise Violation(["unasked-item", opn], "%s(%r) with %r adding an item nobody asked for returned keys %r; %s" % (opn, ask, names[0], extra, desc))
                for s in env.servers:
                    s.dialect = set()
        for s in env.servers:
            if s.errors:
                raise Violation(["server-parse-errors"], "server logged %r; %s" % (s.errors[:2], desc))
    nontrivial = len(owners_used) >= 2 and multi_calls >= 1
    return nontrivial, ["servers=%d" % len(names), "owners=%d" % len(owners_used), "pooling=%s" % case.get("pooling", False)] + (["pairs"] if any(isinstance(k, tuple) for k in keys) else [])


def _check_multi(cmds, keys, wire, owner, what, desc):
    want = {}
    for k in keys:
        want.setdefault(owner(k), []).append(wire(k))
    seen = {}
    for n, cs in cmds.items():
        for c in cs:
            for wk in (c.get("keys") or ([c["key"]] if "key" in c else [])):
                seen.setdefault(n, []).append(wk)
    for n in set(want) | set(seen):
        if sorted(want.get(n, [])) != sorted(seen.get(n, [])):
            raise Violation(["multi-routing", what], "%s: server %r received keys %r, placement assigns it %r; %s" % (what, n, sorted(seen.get(n, []))[:8], sorted(want.get(n, []))[:8], desc))


def _brief(x):
    s = repr(x)
    return s if len(s) < 300 else s[:200] + "...(%d chars)" % len(s)


SERVER_POOL = [["h%d" % i, 11211 + j] for i in range(4) for j in range(2)] + [["10.0.0.%d" % i, 11211] for i in (1, 11)] + [["fe80::%d" % i, 11211] for i in (1, 2)] + ["/tmp/mc-a.sock", "/tmp/mc-b.sock", "/var/run/mc"]


def case_strategy(tier):
    servers = st.one_of(st.lists(st.sampled_from(SERVER_POOL), min_size=2, max_size=5, unique_by=repr),
                        st.lists(st.sampled_from(SERVER_POOL), min_size=1, max_size=5, unique_by=repr))
    keytext = st.text(st.characters(min_codepoint=0x21, max_codepoint=0x7E), min_size=1, max_size=24)
    key = st.one_of(keytext, keytext.map(lambda s: s.encode()), st.integers(0, 10 ** 6).map(lambda i: "key%d" % i))
    uniq = lambda k: k if isinstance(k, bytes) else k.encode()          # noqa: E731
    keys = st.one_of(st.lists(key, min_size=4, max_size=50, unique_by=uniq), st.lists(key, max_size=50, unique_by=uniq))

    def pairify(ks, mask, sks):
        out = []
        for i, k in enumerate(ks):
            if mask and mask[i % len(mask)]:
                out.append((sks[i % len(sks)], k))
            else:
                out.append(k)
        return out
    keys2 = st.builds(pairify, keys, st.lists(st.booleans(), max_size=7), st.lists(st.one_of(keytext, st.just(""), st.just(b""), st.sampled_from(["@node0", "@node1", "@node2", "@node4"])), min_size=1, max_size=5))
    script = st.lists(st.fixed_dictionaries({"i": st.integers(0, 60), "op": st.sampled_from(
        ["incr", "decr", "touch", "gat", "gats", "append", "prepend", "replace", "add", "cas", "delete", "get"])}), max_size=12)
    dups = st.lists(st.tuples(st.sampled_from(["dup\x7fkey", "d\x7f2", "\x7fx"]), st.lists(st.sampled_from(["tenant-a", "tenant-b", "sk3", "sk4", "zz"]), min_size=2, max_size=4, unique=True)).map(list),
                    max_size=2)
    return st.fixed_dictionaries({"addrs": servers, "pooling": st.booleans(), "prefix": st.sampled_from([b"", b"", b"p:", b"p:", b"\xffns/"]), "nest": st.lists(st.integers(0, 60), max_size=3), "refuse_every": st.sampled_from([None, 1, 2, 3, 5]),
                                  "keys": keys2, "script": script, "dups": dups, "spell": st.one_of(st.none(), st.lists(st.integers(0, 4), min_size=1, max_size=5)),
                                  "subclass": st.sampled_from([None, None, "namespace"]),
                                  "coll": st.sampled_from(["list", "list", "tuple", "iter", "generator", "map", "dictview", "wrapper"])})


def grid_cases(tier, seed):
    # fixed larger cases: every server count with 50 keys, pooled and not
    for n in (1, 2, 3, 4, 5):
        for pooling, coll in ((False, "list"), (True, "list"), (False, "generator"), (True, "iter"), (False, "tuple"), (True, "map")):
            keys = ["key%d" % (i * 7 + seed) for i in range(50)]
            keys = [k.encode() if i % 3 == 0 else k for i, k in enumerate(keys)]
            keys = [(("@node%d" % i if i % 10 == 5 else "sk%d" % (i % 4)) if i % 15 else "", k) if i % 5 == 0 else k for i, k in enumerate(keys)]
            yield {"addrs": SERVER_POOL[:n - 1] + [SERVER_POOL[-1]], "pooling": pooling, "prefix": b"g:" if n % 2 else b"",
                   "keys": keys, "nest": [3, 11, 22, 40], "refuse_every": (None, 2, 3, 7, 1)[n % 5], "script": [{"i": i, "op": op} for i, op in enumerate(
                       ["incr", "touch", "gat", "append", "cas", "delete", "add", "decr", "gats", "prepend", "replace", "get"])],
                   "dups": [["dup\x7fkey", ["tenant-a", "tenant-b", "sk3", "sk4"]], ["d\x7f2", ["a", "b", "c", "d", "e"]]], "coll": coll,
                   "spell": None if coll == "list" else [n + pooling, 3, 1, 4, 2], "subclass": "namespace" if coll in ("list", "generator") and n > 1 else None}


# ---- very long key lists ---------------------------------------------------------------------------------------------------

def long_list_cases(tier, seed):
    for nsrv, n in ((1, 10001), (1, 25000), (3, 31000)) if tier == "quick" else ((1, 10001), (1, 25000), (3, 31000), (2, 60001), (1, 100003)):
        for op in ("get_many", "gets_many"):
            for pooling in (False, True):
                yield {"servers": nsrv, "n": n, "op": op, "pooling": pooling}


def check_long_list(case):
    """a multi-key read of tens of thousands of keys: every key is asked of the server placement gives it, exactly once, and the
    merged result holds every key with the value a single-key read gives"""
    from vlib.mcserver import Item
    addrs = T_SERVERS[:case["servers"]]
    env = Env(addrs=addrs)
    names = [node_name(a) for a in addrs]
    keys = ["key%d" % i for i in range(case["n"])]
    home = {}
    for k in keys:
        nm = names[0] if len(names) == 1 else refhash.place(names, k)
        home[k] = nm
        srv = env.servers[names.index(nm)]
        srv.store[k.encode()] = Item(b"v-" + k.encode(), 0, 0, srv._next_cas(), srv.clock.now)
    desc = "%s of %d keys over %r (pooling %r)" % (case["op"], case["n"], names, case["pooling"])
    with virtual_time(env.clock):
        hc = HashClient(list(addrs), socket_module=env.net, use_pooling=case["pooling"], default_noreply=False)
        r = env.call(getattr(hc, case["op"]), list(keys))
        if r[0] != "ok":
            raise Violation(["long-list", "raises", type(r[1]).__name__], "raised %r: %s" % (r[1], desc))
        asked = {}
        for nm, srv in zip(names, env.servers):
            for c in srv.log:
                for wk in c.get("keys", ()):
                    asked.setdefault(wk.decode(), []).append(nm)
        for k in keys:
            if asked.get(k) != [home[k]]:
                raise Violation(["long-list", "asked"], "%r was asked of %r, it lives on %r: %s" % (k, asked.get(k), home[k], desc))
            got = r[1].get(k)
            got = got[0] if case["op"] == "gets_many" and isinstance(got, tuple) else got
            if got != b"v-" + k.encode():
                raise Violation(["long-list", "value"], "the result holds %r for %r; a single-key read gives %r: %s" % (got, k, b"v-" + k.encode(), desc))
        if len(r[1]) != len(keys):
            raise Violation(["long-list", "size"], "the result holds %d keys, %d were asked for: %s" % (len(r[1]), len(keys), desc))
        one = env.call(hc.get, keys[-1])
        if one != ("ok", b"v-" + keys[-1].encode()):
            raise Violation(["long-list", "single"], "get(%r) gives %r: %s" % (keys[-1], one, desc))
        hc.close()
    return True, ["long-list", "servers=%d" % len(names)]


# ---- two threads, one HashClient -------------------------------------------------------------------------------------

def _ring_sched(funcs, preempt, first=0):
    from vlib import sched
    import pymemcache.client.rendezvous as RZ
    fn = RZ.__file__
    sc = sched.Scheduler(sched.preemption_chooser(preempt), lambda code: code.co_filename == fn, max_steps=200000)
    sc.run(funcs, first=first)
    return sc


T_SERVERS = [("h0", 11211), ("h1", 11211), ("h2", 11211)]


def _two_thread_run(case, preempt):
    env = Env(addrs=T_SERVERS)
    names = [node_name(a) for a in T_SERVERS]
    with virtual_time(env.clock):
        hc = HashClient(list(T_SERVERS), socket_module=env.net, use_pooling=True, default_noreply=False)
        k1, k2, k3 = case["keys"]
        out = {}

        def t0():
            out["set_many"] = hc.set_many({k1: b"one", k3: b"three"})
            out["get1"] = hc.get(k1)

        def t1():
            out["set2"] = hc.set(k2, b"two")
            out["get_many"] = hc.get_many([k2, k1])
        sc = _ring_sched([t0, t1], preempt, first=case.get("first", 0))
        stored = {}
        for n, srv in zip(names, env.servers):
            for k in srv.store:
                stored.setdefault(k.decode(), []).append(n)
        after = hc.get_many([k1, k2, k3])
        hc.close()
    return sc, out, stored, after, names


def two_thread_cases(tier, seed):
    for ki, keys in enumerate((["user:0", "user:1", "user:2"], ["alpha", "beta", "gamma"], ["k", "k" * 30, "7"])):
        total = _two_thread_run({"keys": keys}, [])[0].steps
        for p in range(1, total + 1):
            yield {"keys": keys, "preempt": [p], "first": (p + ki) % 2}
        for p in range(1, total + 1, 3 if tier == "thorough" else 7):
            for q in range(p + 2, total + 1, 5 if tier == "thorough" else 11):
                yield {"keys": keys, "preempt": [p, q], "first": 0}


def check_two_threads(case):
    """two threads share one HashClient(use_pooling=True) and are pre-empted inside the ring's lookup code: every key is stored
    on the server the placement rule gives it, by the single-key and by the multi-key command alike, and is found again"""
    sc, out, stored, after, names = _two_thread_run(case, case["preempt"])
    k1, k2, k3 = case["keys"]
    desc = "thread 0: set_many({%r, %r}), get(%r); thread 1: set(%r), get_many([%r, %r]); one HashClient over %r, pre-emption at step(s) %r of the ring's code (thread %d starts)" % (
        k1, k3, k1, k2, k2, k1, names, case["preempt"], case.get("first", 0))
    if sc.errors:
        raise Violation(["two-threads", "raises", type(list(sc.errors.values())[0]).__name__], "a call raised %r: %s" % (sc.errors, desc))
    if sc.deadlock or sc.overrun:
        raise Violation(["two-threads", "stuck"], "the calls did not finish: %s" % desc)
    for k in (k1, k2, k3):
        want = refhash.place(names, k)
        if stored.get(k) != [want]:
            raise Violation(["two-threads", "placement"], "%r is stored on %r, placement assigns it to %r: %s" % (k, stored.get(k), want, desc))
    if after != {k1: b"one", k2: b"two", k3: b"three"} or out.get("set_many") != [] or out.get("set2") is not True:
        raise Violation(["two-threads", "not-found-again"], "afterwards get_many gives %r (set_many returned %r, set %r): %s" % (after, out.get("set_many"), out.get("set2"), desc))
    return sc.switches > 0, ["two-threads", "switches=%d" % min(sc.switches, 3)]


PARTS = [
    Part("very-long-key-lists", "enum", check_long_list, cases=long_list_cases, shards={"quick": 12, "thorough": 16}, exhaustive=True),
    Part("two-threads-one-client", "enum", check_two_threads, cases=two_thread_cases, shards={"quick": 4, "thorough": 8}, exhaustive=True),
    Part("grid", "enum", check, cases=grid_cases, shards={"quick": 4, "thorough": 8}),
    Part("random", "hyp", check, strategy=case_strategy,
         examples={"quick": 250, "thorough": 8000}, shards={"quick": 6, "thorough": 16}),
]


def selftest():
    mcserver.selftest()
    refhash.selftest()

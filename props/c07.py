"""C07 - ignore_exc turns every read failure into a cache miss."""
import copy
import inspect

from hypothesis import strategies as st

from vlib import faultlab, mcserver
from vlib.harness import Env, virtual_time
from vlib.mcserver import Item
from vlib.runner import Part, Violation

from pymemcache import serde as S

PROPERTY = "C07"
LEVEL = "fault_enumeration"
# parts repeated in a child interpreter started with -O and with warnings turned into errors (vlib/runner.py, MODES)
MODE_PARTS = {"OW": ['failure-sweep']}
RULE = ("case = (client stack: Client / PooledClient / HashClient with 1-3 servers, pooled or not; all with ignore_exc=True), "
        "a read call (get, gets, gat, gats, get_many, gets_many) with default / cas_default / expire passed by keyword "
        "- only the parameters that class's method accepts according to inspect.signature - and get's default also "
        "positionally, defaults being fresh sentinel objects; and a failure: every socket-level fault at every socket "
        "event and every reply tampering at every reply of the fault-free call (positions from a dry run), a raising "
        "deserialiser, an item whose bytes the serializer cannot decode, every server refusing / timing out / resetting, "
        "a HashClient inside its retry window, with every server dead, and through an outage that outlasts dead_timeout several times (servers brought back, failing again, brought back again). Oracle (differential): the same call on a "
        "healthy empty server gives `miss`, on a healthy server holding the keys gives `hit`; under the failure the "
        "call must not raise and must return miss - same shape, the same default objects by identity (defaults that are callables - a class, a function, dict, list - included: they are handed back, not called) - or, when the "
        "fault turned out harmless, the genuine hit; afterwards (clock advanced past two dead_timeouts) set+get on the "
        "same-shaped call on another client object, made after the first caller filled in the (empty) dict it was handed, still returns a clean miss; the same read call, repeated with no other traffic in between, returns the genuine hit (the items were on the servers all along) and set+get on the same object work. Non-trivial: the fault fired (from the log) and the method is not plain get. Stacks whose servers are put into rotation at run time through add_server in its spellings ((host, port), (host, 'port'), 'host:port', legacy two-argument forms), host names with capitals; with several servers the items of the servers that did not fail may be present. The ElastiCache subclass is a stack like HashClient. Two users at once: two threads / tasks switching at socket calls make the same read on one HashClient(use_pooling=True, ignore_exc=True) while the server's retry is due, while it fails, or after it was given up - neither raises, each returns the miss or the hit. Dialect failures: the server answers a read in a dialect (an unasked item, a cas field, reordered, repeated, blanks, hang-up after an error line) - with ignore_exc the read does not raise and gives the miss or the hit. Reads of very many keys (1001 to 25 000, thorough 70 000) that fail late - the last value undeserialisable, the connection lost near the end of the reply - are a miss as a whole."
        + ' TLS stacks whose closing handshake (unwrap) fails on a broken connection; outages that change their nature at a chosen read (refused / timeout, then accepted-and-hung-up, garbage lines, SERVER_ERROR busy); a failed node whose name is re-pointed at a replacement while the old address stays dead (failure type moved).'
        + ' A batch and a failure at once: two users of one HashClient over two servers (pooled or not, retry_attempts 0-2, ignore_exc on), one reading a batch that spans both servers, the other reading a key of the server that is failing (refused, or reset at the first read) and whose retry budget this failure uses up, switching at socket calls under 16 (thorough 64) hand-over patterns, either user first: neither call raises, the batch returns a part of what it returns with both servers healthy.')
MANIFEST = {
    "category": "fault_enumeration",
    "technique": "systematic enumeration of (read method x client stack x argument shape x every fault position/kind of a dry run) with a differential oracle: the failing call's result must be identical (by identity of the default objects) to the same call's miss result, or be the genuine hit",
    "text": "For every read method of every client class the miss value is obtained by running the identical call against a healthy empty server; the same call is then run under each enumerated failure and must return that miss value with the very same default objects, never raise, and leave the client usable. Accepting the genuine hit as well means no prediction of which faults bite is needed, and a failure cannot fabricate the stored value. Exhaustive over single faults per call shape; special states (retry window, all servers dead, failing deserialiser) are enumerated explicitly.",
    "note": "A corrupt pickle is not used as a failure: PickleSerde swallows it and returns None by design. Arguments are restricted to what each class's method signature accepts.",
    "design_ref": "DESIGN.md 3/C07",
}
ASSUMPTIONS = [
    "a failure can never fabricate the stored value, so admitting the genuine hit never hides a defect",
    "defaults are compared by identity",
]

KEYS = ["t", "n"]


class RaisingSerde:
    def serialize(self, key, value):
        return value, 0

    def deserialize(self, key, value, flags):
        raise ValueError("cannot deserialize")


class NotCached:
    """a class used as the 'not cached' marker: a default that happens to be callable"""


def _marker():
    return "called"


# defaults that are callables are defaults like any other: handed back as they are
CALLABLE_DEFAULTS = {"F:class": NotCached, "F:function": _marker, "F:dict": dict, "F:list": list}


def build_call(c, call, D, C):
    """-> callable, or None when this class's method does not accept these arguments"""
    op = call["op"]
    kw = {}
    for k, v in call.get("kw", {}).items():
        kw[k] = D if v == "D" else C if v == "C" else CALLABLE_DEFAULTS[v] if v in CALLABLE_DEFAULTS else v
    m = getattr(c, op)
    if op in ("get_many", "gets_many"):
        args = (list(call["keys"]),)
    elif call.get("pos_default"):
        args = (call["key"], CALLABLE_DEFAULTS.get(call["pos_default"], D))
    else:
        args = (call["key"],)
    try:
        inspect.signature(m).bind(*args, **kw)
    except TypeError:
        return None
    return lambda: m(*args, **kw)


def same_miss(a, b):
    if isinstance(a, tuple) and isinstance(b, tuple):
        return len(a) == len(b) and all(x is y for x, y in zip(a, b))
    if isinstance(a, dict) and isinstance(b, dict):
        return a == b and type(a) is type(b)
    return a is b


def setup(case, with_items, serde_mode=None):
    hosts = case.get("hosts") or case.get("cfg", {}).get("hosts")      # e.g. host names with capitals
    addrs = [(h, 11211 + j) for j, h in enumerate(hosts)] if hosts else None
    env = Env(nservers=case.get("nservers", 1), pieces=case.get("pieces"), addrs=addrs)
    if case.get("coalesce") is False:
        env.net.coalesce = False
    if with_items:
        for srv in env.servers:
            flags = 0
            val = b"text"
            if serde_mode == "badutf8":
                flags, val = S.FLAG_TEXT, b"\xff\xfe bad utf8"
            srv.store[b"t"] = Item(val, flags, 0, srv._next_cas(), srv.clock.now)
            srv.store[b"n"] = Item(b"\xc3\x28 10" if serde_mode == "badutf8" else b"10", flags, 0, srv._next_cas(), srv.clock.now)
    cfg = dict(case.get("cfg", {}), ignore_exc=True)
    if serde_mode == "raise":
        cfg["serde"] = RaisingSerde()
    elif serde_mode == "badutf8":
        cfg["serde"] = S.pickle_serde
    with virtual_time(env.clock):      # HashClient reads the clock in its constructor
        c = faultlab.make_client(env, case["kind"], cfg)
    return env, c


def check(case):
    kind, call, failure = case["kind"], case["call"], case["failure"]
    D, C = object(), object()
    ftype = failure["type"]
    serde_mode = failure.get("how") if ftype == "serde" else None
    desc = "%s(%s) %r under %r on %s (%d server(s)) cfg %r" % (call["op"], call.get("key", call.get("keys")), call.get("kw", {}) or ("positional default" if call.get("pos_default") else ""),
                                                           failure, kind, case.get("nservers", 1), case.get("cfg", {}))
    # 1. miss and hit of the same call on healthy servers
    results = {}
    for name, items in (("miss", False), ("hit", True)):
        env, c = setup(case, items)
        with virtual_time(env.clock):
            fn = build_call(c, call, D, C)
            if fn is None:
                return False, ["not-applicable-signature"]
            r = env.call(fn)
        if r[0] != "ok":
            raise Violation(["healthy-call-raised", kind, call["op"]], "the call raised %r on a healthy server: %s" % (r[1], desc))
        results[name] = r[1]
    miss, hit = results["miss"], results["hit"]
    # 2. the same call under the failure
    env, c = setup(case, True, serde_mode)
    net = env.net
    snapshot = [{k: copy.copy(v) for k, v in srv.store.items()} for srv in env.servers]
    with virtual_time(env.clock):
        fn = build_call(c, call, D, C)
        pre = 0
        if ftype in ("retry-window", "all-dead", "dead-again"):
            for srv in env.servers:
                srv.down = failure.get("what", "refused")
            # one failing call per server puts every server into the failed (or, with retry_attempts=0, dead) state
            for k in ["t", "n", "zz", "q", "a", "b", "c", "d", "e", "f"]:
                env.call(c.get, k)
                pre += 1
        elif ftype in ("down", "moved"):
            for srv in env.servers:
                srv.down = failure["what"]
        elif ftype == "dialect":
            # the server answers in a dialect of the protocol (another version, a proxy): whatever the client makes of it,
            # with ignore_exc a read does not raise
            for srv in env.servers:
                srv.dialect = set(failure["what"])
        elif ftype == "fault":
            f = dict(failure["fault"], call=env.ncalls)
            net.plan([f])
        elif ftype == "faults":
            if case.get("warm"):
                env.call(c.get, "warm-up")          # the connection exists before the failing call
            net.plan([dict(f, call=env.ncalls) for f in failure["faults"]])
        if ftype == "dead-again":
            # the servers stay down: they are brought back after dead_timeout, fail again, are brought back again ...
            # every read on the way is a miss like the first
            for gi, gap in enumerate(failure.get("gaps", (61, 0, 2, 61, 0, 130))):
                env.clock.advance(gap)
                if failure.get("then") and gi == failure.get("then_at", 0):
                    # the outage changes its nature: what was unreachable now accepts connections and hangs up, or answers
                    # with lines that are no memcached replies (a load balancer in front of a server that is starting)
                    for srv in env.servers:
                        srv.down = failure["then"]
                rr = env.call(fn)
                pre += 1
                if rr[0] != "ok":
                    raise Violation(["raised", kind, call["op"], type(rr[1]).__name__, "dead-again"], "raised %r instead of returning a miss (read number %d of an outage that outlasts dead_timeout): %s" % (rr[1], pre, desc))
                if not same_miss(rr[1], miss):
                    raise Violation(["shape", kind, call["op"], "dead-again"], "returned %s, a miss returns %s (read number %d of an outage that outlasts dead_timeout): %s"
                                    % (_show(rr[1], D, C), _show(miss, D, C), pre, desc))
        r = env.call(fn)
        fired = bool([x for x in net.fired if x["fault"].get("call") == env.ncalls - 1 or x["fault"].get("server_down")]) or ftype in ("serde", "retry-window", "all-dead", "dead-again")
        if r[0] != "ok":
            raise Violation(["raised", kind, call["op"], type(r[1]).__name__], "raised %r instead of returning a miss: %s" % (r[1], desc))
        got = r[1]
        if not same_miss(got, miss):
            # a planned fault may turn out harmless (a swallowed close() error, a tampering aimed at a reply that was
            # never produced): then, and only for injected faults, the genuine hit is the right answer
            # and with the keys spread over several servers of which one fails, the other servers' items are still found
            partial = (ftype in ("fault", "faults") and kind.startswith(("hash", "aws")) and case.get("nservers", 1) > 1 and isinstance(got, dict)
                       and isinstance(hit, dict) and type(got) is type(hit) and all(k in hit and _equal_hit({k: v}, {k: hit[k]}) for k, v in got.items()))
            if not (ftype in ("fault", "faults", "dialect") and _equal_hit(got, hit)) and not partial:
                raise Violation(["shape", kind, call["op"]], "returned %s, a miss returns %s (hit would be %s): %s"
                                % (_show(got, D, C), _show(miss, D, C), _show(hit, D, C), desc))
        # 2b. what a failed multi-key read returns belongs to the caller: filling it in (the cache-aside step) must not
        #     show in what another failing call - on another client object - returns
        if isinstance(got, dict) and not got and ftype in ("down", "all-dead", "retry-window", "dead-again"):
            got["filled-in-by-the-caller"] = b"from the database"
            env2, c2 = setup(case, True, serde_mode)
            with virtual_time(env2.clock):
                for srv in env2.servers:
                    srv.down = failure.get("what", "refused")
                if ftype in ("retry-window", "all-dead"):
                    for k in ["t", "n", "zz", "q", "a", "b", "c", "d", "e", "f"]:
                        env2.call(c2.get, k)
                r2 = env2.call(build_call(c2, call, D, C))
            if r2[0] != "ok" or not same_miss(r2[1], miss):
                raise Violation(["miss-container-shared", kind, call["op"]], "a second client's failing call returned %r after the first caller had filled in the dict it was given; a miss is %r: %s"
                                % (r2[1], miss, desc))
            del got["filled-in-by-the-caller"]
        # 3a. the very call that was answered with a miss finds the items again once the servers are back (they were on
        #     the servers all along), with no other traffic in between: repeating it is all an application does
        for srv in env.servers:
            srv.down = None
            srv.dialect = set()
        if ftype == "moved":
            # the failed node is not coming back: its name now points at a replacement (holding the items) at another address,
            # the old address stays dead - the client is usable again as soon as it looks the name up again
            from vlib.mcserver import McServer
            for j, (addr, srv) in enumerate(list(zip(env.addrs, env.servers))):
                stub = McServer(env.clock)
                stub.down = "refused"
                old_addr = (addr[0], int(addr[1]))
                new_addr = ("10.77.0.%d" % (j + 1), int(addr[1]))
                env.net.servers[old_addr] = stub
                env.net.servers[new_addr] = srv
                env.net.resolve[addr[0]] = [(env.net.AF_INET, new_addr)]
        if ftype != "serde":
            again = None
            for attempt in range(4):
                env.clock.advance(130)
                for srv, snap in zip(env.servers, snapshot):      # (a get-and-touch that did reach the server has shortened their life)
                    srv.store.update({k: copy.copy(v) for k, v in snap.items()})
                again = env.call(build_call(c, call, D, C))
                if again[0] == "ok" and _equal_hit(again[1], hit):
                    break
            else:
                raise Violation(["still-a-miss-afterwards", kind, call["op"]], "with every server healthy again the same call, repeated over four dead_timeouts, returns %s; the stored items give %s: %s"
                                % (_show(again[1], D, C) if again[0] == "ok" else repr(again[1]), _show(hit, D, C), desc))
        # 3b. still usable afterwards
        for srv in env.servers:
            srv.down = None
            srv.dialect = set()
        ok = False
        last = None
        for attempt in range(4):
            env.clock.advance(130)
            a = env.call(c.set, "after", b"av", noreply=False)
            b = env.call(c.get, "after")
            last = (a, b)
            if a == ("ok", True) and (b == ("ok", b"av") or (serde_mode and b[0] == "ok")):
                ok = True
                break
        if not ok:
            raise Violation(["unusable-afterwards", kind], "after the failure, set/get on the same object give %r: %s" % (last, desc))
    labels = [kind, call["op"], "failure=" + ftype + (":" + str(failure.get("what") or failure.get("how") or (failure.get("fault", {}).get("tamper") or failure.get("fault", {}).get("what")))
                                                       if ftype in ("down", "serde", "fault") else "")]
    if ftype == "faults":
        labels.append("two-faults-fired=%d" % len([x for x in net.fired if x["fault"].get("call") is not None]))
    if not fired:
        labels.append("fault-did-not-fire")
    return bool(fired) and call["op"] != "get", labels


def _equal_hit(a, b):
    return a == b and type(a) is type(b)


def _show(v, D, C):
    def one(x):
        return "<default>" if x is D else "<cas_default>" if x is C else repr(x)
    if isinstance(v, tuple):
        return "(" + ", ".join(one(x) for x in v) + ")"
    return one(v)


CALLS = [
    {"op": "get", "key": "t"},
    {"op": "get", "key": "t", "pos_default": True},
    {"op": "get", "key": "t", "kw": {"default": "D"}},
    {"op": "gets", "key": "t"},
    {"op": "gets", "key": "t", "kw": {"default": "D", "cas_default": "C"}},
    {"op": "gets", "key": "t", "kw": {"default": "D"}},
    {"op": "gets", "key": "t", "kw": {"cas_default": "C"}},
    {"op": "gat", "key": "t", "kw": {"expire": 3}},
    {"op": "gat", "key": "t", "kw": {"expire": 3, "default": "D"}},
    {"op": "gats", "key": "t", "kw": {"expire": 3}},
    {"op": "gats", "key": "t", "kw": {"expire": 3, "default": "D", "cas_default": "C"}},
    {"op": "gats", "key": "t", "kw": {"default": "D"}},
    {"op": "gats", "key": "t", "kw": {"cas_default": "C"}},
    {"op": "get", "key": "t", "kw": {"default": "F:class"}},
    {"op": "get", "key": "t", "pos_default": "F:dict"},
    {"op": "gets", "key": "t", "kw": {"default": "F:function", "cas_default": "F:list"}},
    {"op": "gat", "key": "t", "kw": {"expire": 3, "default": "F:dict"}},
    {"op": "gats", "key": "t", "kw": {"expire": 3, "default": "F:class", "cas_default": "F:function"}},
    {"op": "get_many", "keys": ["t", "n"]},
    {"op": "gets_many", "keys": ["t", "n", "zz"]},
    {"op": "get_many", "keys": ["t"]},
]
STACKS = [("client", 1, {}), ("pooled", 1, {"max_pool_size": 1}), ("hash", 1, {}), ("hash-pooled", 1, {}), ("hash", 3, {}), ("hash-pooled", 2, {}),
          # servers put into rotation at run time through add_server, in its various spellings, host names with capitals
          ("hash", 1, {"add_at_runtime": 0, "hosts": ["Cache-A"]}), ("hash-pooled", 2, {"add_at_runtime": 1, "hosts": ["Cache-A", "MC.Example.COM"]}),
          ("hash", 2, {"add_at_runtime": 2, "hosts": ["Cache-A", "mc2"]}), ("hash", 1, {"add_at_runtime": 4, "hosts": ["CACHE"]}),
          # the ElastiCache subclass of HashClient (it re-implements the constructor), its nodes learnt from a configuration endpoint
          ("aws", 1, {}), ("aws-pooled", 2, {}), ("aws", 3, {}),
          # TLS connections (tls_context): the wrapped socket's closing handshake (unwrap) fails on a connection that broke
          ("client", 1, {"tls": True}), ("pooled", 1, {"tls": True, "max_pool_size": 1}), ("hash", 2, {"tls": True})]


def sweep_cases(tier, seed):
    for kind, n, extra in STACKS:
        for ci, call in enumerate(CALLS):
            base = {"kind": kind, "nservers": n, "cfg": dict(extra), "call": call, "coalesce": bool(ci % 2)}
            # special failures
            for what in ("refused", "timeout", "reset", "oserror"):
                yield dict(base, failure={"type": "down", "what": what})
            if not kind.startswith("aws") and not extra.get("add_at_runtime") and ci % 2 == 0:
                yield dict(base, failure={"type": "moved", "what": ("refused", "timeout", "oserror")[ci % 3]})
            for how in ("raise", "badutf8"):
                yield dict(base, failure={"type": "serde", "how": how})
            for dia in (["unasked"], ["cas-always"], ["reverse"], ["dedupe"], ["repeat-first"], ["value-trailing-blank"], ["unasked", "reverse"], ["hangup-after-error"]):
                yield dict(base, failure={"type": "dialect", "what": dia})
            if kind.startswith(("hash", "aws")):
                yield dict(base, failure={"type": "retry-window"})
                yield dict(base, cfg=dict(extra, retry_attempts=0), failure={"type": "all-dead"})
                yield dict(base, cfg=dict(extra, retry_attempts=1), failure={"type": "retry-window"})
                for ra in (0, 1, 2):
                    yield dict(base, cfg=dict(extra, retry_attempts=ra), failure={"type": "dead-again", "what": ("refused", "timeout", "reset-recv")[(ra + ci) % 3]})
                    yield dict(base, cfg=dict(extra, retry_attempts=ra), failure={"type": "dead-again", "gaps": [61, 1.5, 1.5, 61, 61, 0, 0], "what": "oserror"})
                    then = ("hangup", "garbage", "busy")[(ra + ci) % 3]
                    yield dict(base, cfg=dict(extra, retry_attempts=ra), failure={"type": "dead-again", "what": ("refused", "timeout", "oserror")[ci % 3], "then": then, "then_at": (0, 1, 3)[(ci + ra) % 3]})
            # every socket event / reply of the fault-free call
            D, C = object(), object()
            env, c = setup(base, True)
            with virtual_time(env.clock):
                fn = build_call(c, call, D, C)
                if fn is None:
                    continue
                from vlib.fakenet import FakeSocket
                lens = []
                real = FakeSocket._deliver

                def tapped(self, data, mc, lens=lens, real=real):
                    before = len(self.rx)
                    real(self, data, mc)
                    lens.extend(len(ch) for ch, _ in list(self.rx)[before:])
                FakeSocket._deliver = tapped
                try:
                    env.call(fn)
                finally:
                    FakeSocket._deliver = real
            counts = {}
            for e in env.net.log:
                k = e[3]
                nth = counts.get(k, 0)
                counts[k] = nth + 1
                for f in faultlab.faults_for_event(k, nth):
                    yield dict(base, failure={"type": "fault", "fault": f})
            for j, ln in enumerate(lens):
                for f in faultlab.tampers_for_reply(j, ln):
                    yield dict(base, failure={"type": "fault", "fault": f})
            # a first socket-level fault followed - should anything retry inside the call - by a fault of a different kind
            firsts = [{"kind": "recv", "nth": 0, "what": "reset"}, {"kind": "sendall", "nth": 0, "what": "pipe", "delivered": "none"},
                      {"kind": "sendall", "nth": 0, "what": "reset", "delivered": "all"}, {"kind": "recv", "nth": 0, "what": "timeout"}]
            seconds = [{"kind": "recv", "nth": 1, "what": "eof"}, {"reply": 1, "tamper": "server_error"}, {"reply": 1, "tamper": "garbage"},
                       {"reply": 1, "tamper": "error"}, {"reply": 1, "tamper": "trunc", "at": 3, "then": "eof"}, {"kind": "connect", "nth": 1, "what": "refused"},
                       {"reply": 0, "tamper": "client_error"}, {"kind": "recv", "nth": 2, "what": "eof"}]
            for warm in (False, True):
                for f1 in firsts:
                    for f2 in seconds:
                        yield dict(base, warm=warm, failure={"type": "faults", "faults": [f1, f2]})


def random_strategy(tier):
    def sock(k):
        d = {"kind": st.just(k), "nth": st.integers(0, 4), "what": st.sampled_from(faultlab.SOCK_FAULTS[k])}
        if k == "sendall":
            d["delivered"] = st.sampled_from(["none", "first", "all"])
        return st.fixed_dictionaries(d)
    fault = st.one_of(*([sock(k) for k in faultlab.SOCK_FAULTS if k not in ("wrap", "setsockopt")] + [
        st.fixed_dictionaries({"reply": st.integers(0, 2), "tamper": st.sampled_from(faultlab.TAMPERS)}),
        st.fixed_dictionaries({"reply": st.integers(0, 2), "tamper": st.just("trunc"), "at": st.integers(0, 60), "then": st.sampled_from(["eof", "silence"])})]))
    failure = st.one_of(fault.map(lambda f: {"type": "fault", "fault": f}),
                        st.sampled_from(["refused", "timeout", "reset", "oserror"]).map(lambda w: {"type": "down", "what": w}),
                        st.sampled_from([{"type": "serde", "how": "raise"}, {"type": "serde", "how": "badutf8"}, {"type": "retry-window"}, {"type": "all-dead"}]))
    stack = st.sampled_from(STACKS)
    dflt = st.sampled_from(["D", None, 0, b"", "C", "F:class", "F:function", "F:dict"])
    kwargs = st.fixed_dictionaries({}, optional={"default": dflt, "cas_default": dflt, "expire": st.sampled_from([0, 5, -1])})
    call = st.one_of(
        st.builds(lambda op, k, kw: {"op": op, "key": k, "kw": kw}, st.sampled_from(["get", "gets", "gat", "gats"]), st.sampled_from(KEYS + ["zz"]), kwargs),
        st.builds(lambda op, ks: {"op": op, "keys": ks}, st.sampled_from(["get_many", "gets_many"]), st.lists(st.sampled_from(KEYS + ["zz", "q"]), min_size=1, max_size=4, unique=True)),
        st.just({"op": "get", "key": "t", "pos_default": True}))

    def mk(stk, call, failure, ra, pieces, co):
        kind, n, extra = stk
        cfg = dict(extra)
        if kind.startswith(("hash", "aws")):
            cfg["retry_attempts"] = ra
        elif failure["type"] in ("retry-window", "all-dead"):
            failure = {"type": "down", "what": "refused"}
        if failure["type"] == "all-dead":
            cfg["retry_attempts"] = 0
        return {"kind": kind, "nservers": n, "cfg": cfg, "call": call, "failure": failure, "pieces": pieces, "coalesce": co}
    return st.builds(mk, stack, call, failure, st.sampled_from([0, 1, 2]),
                     st.one_of(st.none(), st.lists(st.sampled_from([1, 2, 5, 4096]), min_size=1, max_size=3)), st.booleans())


# ---- reads of very many keys -----------------------------------------------------------------------------------------------

class LastKeySerde:
    """fails on the value of one key"""

    def __init__(self, bad):
        self.bad = bad

    def serialize(self, key, value):
        return value, 0

    def deserialize(self, key, value, flags):
        k = key if isinstance(key, bytes) else str(key).encode()
        if k == self.bad:
            raise ValueError("cannot deserialize the value of %r" % (key,))
        return value


def long_read_cases(tier, seed):
    for kind in ("client", "pooled", "hash", "hash-pooled", "aws"):
        for n in (1001, 10001, 25000) if tier == "quick" else (1001, 10001, 25000, 70000):
            for failure in ("last-value", "first-value", "reset-late", "eof-late"):
                for op in ("get_many", "gets_many"):
                    if n > 10001 and op == "gets_many":
                        continue
                    yield {"kind": kind, "n": n, "failure": failure, "op": op}


def check_long_read(case):
    """a multi-key read of thousands of keys that fails late - the last value cannot be deserialised, the connection breaks while
    the server is streaming the reply - is a miss as a whole with ignore_exc: an empty dict, not the part that had arrived"""
    kind, n = case["kind"], case["n"]
    env = Env(nservers=1)
    srv = env.servers[0]
    keys = ["key-%d" % i for i in range(n)]
    for i, k in enumerate(keys):
        srv.store[k.encode()] = Item(b"v%d" % i, 0, 0, srv._next_cas(), srv.clock.now)
    bad = {"last-value": keys[-1], "first-value": keys[0]}.get(case["failure"])
    cfg = {"ignore_exc": True}
    if bad:
        cfg["serde"] = LastKeySerde(bad.encode())
    with virtual_time(env.clock):
        c = faultlab.make_client(env, kind, cfg)
        if case["failure"] in ("reset-late", "eof-late"):
            # the reply is some 20 bytes per key: the failure comes when most of it has been received
            nth = max(1, (n * 22) // 4096 - 2)
            env.net.plan([{"call": env.ncalls, "kind": "recv", "nth": nth, "what": "reset" if case["failure"] == "reset-late" else "eof"}])
        r = env.call(getattr(c, case["op"]), list(keys))
    desc = "%s of %d keys on %s with ignore_exc, failure %s" % (case["op"], n, kind, case["failure"])
    if r[0] != "ok":
        raise Violation(["long-read", "raised", type(r[1]).__name__], "raised %r instead of returning a miss: %s" % (r[1], desc))
    fired = bool(env.net.fired) or bool(bad)
    if fired and r[1] != {}:
        raise Violation(["long-read", "partial"], "returned %d items of a read that failed; a miss is {}: %s" % (len(r[1]), desc))
    if not fired and len(r[1]) != n:
        raise Violation(["long-read", "incomplete"], "returned %d of %d items of a read that did not fail: %s" % (len(r[1]), n, desc))
    return fired, ["long-read", kind, case["failure"]]


# ---- two users of one hash client ---------------------------------------------------------------------------------------

def two_users_cases(tier, seed):
    for kind in ("hash-pooled", "aws-pooled"):
        for ra in (1, 2, 0):
            for ci, call in enumerate(CALLS):
                if tier == "quick" and ci % 3 and ra != 1:
                    continue
                for phase in ("retry", "failing", "dead"):
                    for mask in ((0, 1, 2, 3, 5, 6) if tier == "quick" else range(16)):
                        yield {"kind": kind, "retry_attempts": ra, "call": call, "phase": phase, "choices": [(mask >> b) & 1 for b in range(4)] + [1, 0, 1, 1, 0, 1, 0, 0, 1] * 3}


def check_two_users(case):
    """two users of one HashClient(use_pooling=True, ignore_exc=True) - threads, or tasks switching at socket calls - read at the
    same time while the failover bookkeeping of their server is at work (a failure was recorded and the retry is due; or the
    server is failing right now; or it has been given up): neither call raises, each returns the miss or the genuine hit"""
    from vlib import interleave
    kind, call, phase = case["kind"], case["call"], case["phase"]
    D, C = object(), object()
    base = {"kind": kind, "nservers": 1, "cfg": {"retry_attempts": case["retry_attempts"], "max_pool_size": 4}}
    results = {}
    for name, items in (("miss", False), ("hit", True)):
        env, c = setup(base, items)
        with virtual_time(env.clock):
            fn = build_call(c, call, D, C)
            if fn is None:
                return False, ["not-applicable-signature"]
            results[name] = env.call(fn)[1]
    miss, hit = results["miss"], results["hit"]
    env, c = setup(base, True)
    desc = "%s(%s) %r by two users at once on %s (retry_attempts=%d), phase %r, hand-over pattern %r" % (
        call["op"], call.get("key", call.get("keys")), call.get("kw", {}), kind, case["retry_attempts"], phase, case["choices"][:4])
    with virtual_time(env.clock):
        fn = build_call(c, call, D, C)
        srv = env.servers[0]
        if phase in ("retry", "dead"):
            srv.down = "refused"
            for _ in range(1 if phase == "retry" else case["retry_attempts"] + 2):
                env.call(c.get, "t")                      # swallowed: recorded as a failure (then retried, then given up)
                env.clock.advance(1.5)
            srv.down = None
            env.clock.advance(61 if phase == "dead" else 1.5)
        elif phase == "failing":
            srv.down = "reset-recv"
        out, sc = interleave.run(env.net, [fn, fn], choices=case["choices"])
        srv.down = None
    for u, r in enumerate(out):
        if r[0] != "ok":
            raise Violation(["two-users", "raised", call["op"], type(r[1]).__name__], "user %d's call raised %r instead of returning a miss: %s" % (u, r[1], desc))
        if not same_miss(r[1], miss) and not _equal_hit(r[1], hit):
            raise Violation(["two-users", "shape", call["op"]], "user %d's call returned %s; a miss is %s, the hit %s: %s" % (u, _show(r[1], D, C), _show(miss, D, C), _show(hit, D, C), desc))
    return sc.switches > 0, ["two-users", kind, phase]


BATCH_KEYS = ["t", "n", "a", "b", "c", "d", "e", "f"]


def batch_and_failure_cases(tier, seed):
    """two users of one HashClient over two servers: one reads a batch that spans both servers, the other reads one key of
    the server that is failing and whose retry budget this failure uses up - the server is given up while the batch is
    between its two servers"""
    for kind in ("hash-pooled", "hash"):
        for ra in (0, 1, 2):
            for down in (0, 1):
                for how in ("refused", "reset-recv"):
                    for batch in ("get_many", "gets_many"):
                        for first in (0, 1):
                            for mask in (range(16) if tier == "quick" else range(64)):
                                yield {"kind": kind, "retry_attempts": ra, "down": down, "how": how, "batch": batch, "first": first,
                                       "choices": [(mask >> b) & 1 for b in range(6)] + [1, 0, 1, 1, 0, 1, 0, 0, 1] * 3}


def check_batch_and_failure(case):
    from vlib import interleave
    kind, ra, down = case["kind"], case["retry_attempts"], case["down"]
    base = {"kind": kind, "nservers": 2, "cfg": {"retry_attempts": ra, "max_pool_size": 4} if kind.endswith("pooled") else {"retry_attempts": ra}}
    env, c = setup(base, True)
    with virtual_time(env.clock):
        full = env.call(getattr(c, case["batch"]), list(BATCH_KEYS))
        if full[0] != "ok":
            raise Violation(["batch-and-failure", "healthy-read-raised"], "%s of %r with both servers healthy raised %r" % (case["batch"], BATCH_KEYS, full[1]))
        full = full[1]
        owner = {k: c.hasher.get_node(k) for k in BATCH_KEYS}           # (only to pick the keys; nothing is judged by it)
        nodes = sorted(set(owner.values()))
        dsrv = env.servers[down]
        dname = "%s:%s" % tuple(env.addrs[down])
        mine = [k for k in BATCH_KEYS if owner[k] == dname]
        desc = "%s(%r) by one user, get(%r) by another, on one %s over two servers (retry_attempts=%d) while %s is %s and this failure uses its retry budget up; user %d first, hand-over pattern %r" % (
            case["batch"], BATCH_KEYS, mine[:1], kind, ra, dname, case["how"], case["first"], case["choices"][:6])
        if len(nodes) < 2 or not mine:
            return False, ["batch-and-failure", "keys-on-one-server"]
        dsrv.down = case["how"]
        for _ in range(ra):
            env.call(c.get, mine[0])              # swallowed: the failure and then each failed retry is recorded
            env.clock.advance(1.5)
        u0 = lambda: getattr(c, case["batch"])(list(BATCH_KEYS))
        u1 = lambda: c.get(mine[0])
        out, sc = interleave.run(env.net, [u0, u1], choices=case["choices"], first=case["first"])
        dsrv.down = None
    for u, r in enumerate(out):
        if r[0] != "ok":
            raise Violation(["batch-and-failure", "raised", type(r[1]).__name__], "user %d's call raised %r although ignore_exc is set: %s" % (u, r[1], desc))
    got = out[0][1]
    if type(got) is not dict or any(k not in full or full[k] != v for k, v in got.items()):
        raise Violation(["batch-and-failure", "shape"], "the batch returned %r; with both servers healthy it returns %r: %s" % (got, full, desc))
    if out[1][1] is not None and out[1][1] != b"text":
        raise Violation(["batch-and-failure", "shape"], "the single read returned %r, neither a miss nor the stored value: %s" % (out[1][1], desc))
    given_up = dname not in c.hasher.nodes if hasattr(c.hasher, "nodes") else False
    return sc.switches > 0 and given_up, ["batch-and-failure", kind, "given-up" if given_up else "still-in-rotation", "ra=%d" % ra]


PARTS = [
    Part("reads-of-very-many-keys", "enum", check_long_read, cases=long_read_cases, shards={"quick": 10, "thorough": 16}, exhaustive=True),
    Part("two-users-at-once", "enum", check_two_users, cases=two_users_cases, exhaustive=True),
    Part("a-batch-and-a-failure-at-once", "enum", check_batch_and_failure, cases=batch_and_failure_cases, exhaustive=True),
    Part("failure-sweep", "enum", check, cases=sweep_cases, exhaustive=True),
    Part("random", "hyp", check, strategy=random_strategy,
         examples={"quick": 300, "thorough": 12000}, shards={"quick": 4, "thorough": 16}),
]


def selftest():
    mcserver.selftest()

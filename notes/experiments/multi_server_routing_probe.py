"""C12 probe: multi-server routing through HashClient over a canned multi-server net."""
import random, collections, socket
exec(open(__file__.replace("multi_server_routing_probe","reply_ownership_oracle_prototype")).read().split("OPS=[")[0])
from pymemcache.client.hash import HashClient
from pymemcache.client.murmur3 import murmur3_32
class MNet(Net):
    def __init__(self): super().__init__(); self.stores=collections.defaultdict(dict); self.cmds=collections.defaultdict(list); self.call=0; self.reply_fault=None
    def socket(self,*a): s=MSock(self); self.socks.append(s); return s
class MSock(Sock):
    def connect(self,a): self.addr=a if isinstance(a,str) else (a[0],int(a[1]))
    def sendall(self,b):
        self.net.store=self.net.stores[self.addr]
        n0=len(self.net.cmds[self.addr])
        # log command lines
        buf=b
        while buf:
            line,_,rest=buf.partition(b"\r\n"); t=line.split()
            self.net.cmds[self.addr].append(line)
            if t and t[0] in (b"set",b"add",b"replace",b"append",b"prepend",b"cas"): rest=rest[int(t[4])+2:]
            buf=rest
        super().sendall(b)
def place(nodes,key): return max(nodes,key=lambda n:(murmur3_32(f"{n}-{key}",0),n))
random.seed(11); bad=collections.Counter(); first={}; nt=0
for trial in range(600):
    ns=random.randint(1,5)
    servers=random.sample([("h%d"%i,11211+i) for i in range(6)]+["/tmp/u%d"%i for i in range(3)], ns)
    names=[s if isinstance(s,str) else "%s:%s"%s for s in servers]; addr={n:s for n,s in zip(names,servers)}
    pfx=random.choice([b"",b"p:"]); pool=random.choice([False,True])
    net=MNet(); hc=HashClient(servers, socket_module=net, key_prefix=pfx, use_pooling=pool, default_noreply=False)
    nk=random.randint(0,30); keys=random.sample(["key%d"%i for i in range(200)], nk)
    keys=[k.encode() if random.random()<0.3 else k for k in keys]
    vals={k:("%d"%i).encode() for i,k in enumerate(keys)}
    half=keys[:nk//2]; rest=keys[nk//2:]
    for k in half: hc.set(k, vals[k])
    if rest: 
        f=hc.set_many({k:vals[k] for k in rest})
        if f: bad["set_many failed"]+=1
    wire=lambda k: pfx+(k if isinstance(k,bytes) else k.encode())
    # every key on exactly its server
    for k in keys:
        own=addr[place(names,k)]
        for a,st in net.stores.items():
            if (wire(k) in st)!=(a==own): bad["stored on wrong server"]+=1; first.setdefault("w",(names,k,a,own))
    gm=hc.get_many(keys) if keys else {}
    single={k:hc.get(k) for k in keys}
    if gm!={k:v for k,v in single.items() if v is not None} or single!=vals: bad["get_many != gets"]+=1; first.setdefault("g",(gm,single))
    gsm=hc.gets_many(keys) if keys else {}
    if {k:v[0] for k,v in gsm.items()}!=vals: bad["gets_many"]+=1
    # each key requested exactly once in multi-get
    for a in net.cmds: net.cmds[a].clear()
    hc.get_many(keys)
    seen=collections.Counter()
    for a,lines in net.cmds.items():
        for l in lines:
            for kk in l.split()[1:]: seen[(kk)]+=1; 
            own_ok=all(addr[place(names,k)]==a for k in keys if wire(k) in l.split()[1:])
            if not own_ok: bad["multi-get to wrong server"]+=1
    if keys and (set(seen)!={wire(k) for k in keys} or any(v!=1 for v in seen.values())): bad["multi-get key count"]+=1; first.setdefault("c",(seen,keys))
    for k in keys[:5]:
        if hc.incr(k,1)!=int(vals[k])+1: bad["incr"]+=1
        if hc.touch(k,5) is not True: bad["touch"]+=1
        if hc.delete(k) is not True: bad["delete"]+=1
        if hc.get(k) is not None: bad["get after delete"]+=1
    nt+=1
print("trials",nt,dict(bad)); print(first)

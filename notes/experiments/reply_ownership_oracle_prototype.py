"""Prototype of the fakenet reply-ownership oracle (C01/C10) with a tiny canned server."""
import socket, collections, random, sys
from pymemcache.client import base as B
from pymemcache.client.base import Client, PooledClient
from pymemcache.exceptions import *
class Net:
    AF_UNIX=socket.AF_UNIX; AF_UNSPEC=0; SOCK_STREAM=1; IPPROTO_TCP=6; TCP_NODELAY=1
    def __init__(self): self.socks=[]; self.call=None; self.ev=0; self.fault=None; self.viol=[]; self.sizes=[4096]; self.si=0; self.store={}
    def getaddrinfo(self,h,p,*a): return [(2,1,6,"",(h,p))]
    def socket(self,*a): s=Sock(self); self.socks.append(s); return s
    def begin(self,i,fault):
        self.call=i; self.ev=0; self.fault=fault; self.reply_fault=None
        if fault and fault[1] in ("garbage","error","trunc"): self.reply_fault=fault[1]; self.fault=None
    def end(self,i):
        for s in self.socks:
            if not s.closed and s.rx: self.viol.append(("unread on live conn", i, bytes(b"".join(x for x,_ in s.rx))[:20]))
        self.call=None
    def step(self, kind):
        k=self.ev; self.ev+=1
        if self.fault and self.fault[0]==k: f=self.fault[1]; self.fault=None; return f
        return None
def reply_for(net, line, data=None):
    t=line.split()
    v=t[0]
    nr = t[-1]==b"noreply"
    if v in (b"set",b"add",b"replace",b"append",b"prepend",b"cas"):
        net.store[t[1]]=data; return None if nr else b"STORED\r\n"
    if v in (b"get",b"gets",b"gat",b"gats"):
        keys=t[1:] if v in (b"get",b"gets") else t[2:]
        out=b""
        for k in keys:
            if k in net.store: out+=b"VALUE "+k+b" 0 %d"%len(net.store[k])+(b" 7" if v in (b"gets",b"gats") else b"")+b"\r\n"+net.store[k]+b"\r\n"
        return out+b"END\r\n"
    if v==b"delete": return None if nr else (b"DELETED\r\n" if net.store.pop(t[1],None) is not None else b"NOT_FOUND\r\n")
    if v in (b"incr",b"decr"): return None if nr else b"5\r\n"
    if v==b"touch": return None if nr else b"TOUCHED\r\n"
    if v==b"flush_all": net.store.clear(); return None if nr else b"OK\r\n"
    if v==b"version": return b"VERSION 1.6\r\n"
    if v==b"stats": return b"STAT pid 1\r\nEND\r\n"
    return b"ERROR\r\n"
class Sock:
    def __init__(self,net): self.net=net; self.rx=collections.deque(); self.closed=False; self.inbuf=b""; self.eof=False
    def settimeout(self,t): pass
    def setsockopt(self,*a): pass
    def connect(self,a):
        f=self.net.step("connect")
        if f=="refuse": raise ConnectionRefusedError("refused")
        if isinstance(f,BaseException): raise f
    def sendall(self,b):
        f=self.net.step("send")
        if f=="reset_send": raise ConnectionResetError("reset")
        if isinstance(f,BaseException): raise f
        self.inbuf+=b
        while b"\r\n" in self.inbuf:
            line,_,rest=self.inbuf.partition(b"\r\n")
            t=line.split()
            if t and t[0] in (b"set",b"add",b"replace",b"append",b"prepend",b"cas"):
                n=int(t[4])
                if len(rest)<n+2: break
                data=rest[:n]; self.inbuf=rest[n+2:]
                r=reply_for(self.net,line,data)
            else:
                self.inbuf=rest; r=reply_for(self.net,line)
            if r:
                rf=self.net.reply_fault
                if rf: 
                    self.net.reply_fault=None; self.tampered=self.net.call
                    if rf=="garbage": r=b"GARBAGE\r\n"
                    elif rf=="error": r=b"SERVER_ERROR x\r\n"
                    elif rf=="trunc": r=r[:max(1,len(r)//2)]
                self.rx.append((r,self.net.call))
    def recv(self,n):
        f=self.net.step("recv")
        if f=="timeout": raise socket.timeout("timed out")      # reply stays queued
        if f=="reset": self.rx.clear(); raise ConnectionResetError("reset")
        if f=="eof": self.rx.clear(); self.eof=True
        if isinstance(f,BaseException): raise f
        if self.eof: return b""
        if not self.rx:
            if getattr(self,"tampered",None)==self.net.call: raise socket.timeout("timed out waiting after tampered reply")
            self.net.viol.append(("blocks forever", self.net.call)); raise socket.timeout("would block")
        d,tag=self.rx.popleft()
        if tag!=self.net.call: self.net.viol.append(("cross-call read", self.net.call, tag, d[:20]))
        sz=self.net.sizes[self.net.si%len(self.net.sizes)]; self.net.si+=1
        sz=min(sz,n)
        if len(d)>sz: self.rx.appendleft((d[sz:],tag)); d=d[:sz]
        return d
    def close(self): self.closed=True
OPS=[("set",("k","v"),{}),("set",("k","v"),{"noreply":False}),("set",("k","v"),{"noreply":True}),("add",("k","v"),{"noreply":False}),
 ("get",("k",),{}),("gets",("k",),{}),("get_many",(["k","j"],),{}),("set_many",({"k":"1","j":"2","i":"3"},),{"noreply":False}),("set_many",({"k":"1","j":"2"},),{"noreply":True}),
 ("delete",("k",),{"noreply":False}),("delete",("k",),{}),("delete_many",(["k","j"],),{"noreply":False}),("incr",("k",1),{}),("incr",("k",1),{"noreply":True}),
 ("touch",("k",5),{"noreply":False}),("flush_all",(),{"noreply":False}),("version",(),{}),("stats",(),{}),("cas",("k","v",b"7"),{}),("gat",("k",5),{})]
FAULTS=["refuse","reset_send","timeout","reset","eof","garbage","error","trunc"]
def trial(r, kind, base_exc):
    net=Net(); net.sizes=[r.choice([1,2,3,7,4096]) for _ in range(r.randint(1,4))]
    dn=r.choice([True,False]); ie=r.choice([True,False])
    if kind=="client": c=Client(("h",1),socket_module=net,default_noreply=dn,ignore_exc=ie)
    else: c=PooledClient(("h",1),socket_module=net,default_noreply=dn,ignore_exc=ie,max_pool_size=r.choice([1,2]))
    hist=[]
    for i in range(r.randint(2,8)):
        name,a,k=r.choice(OPS)
        fault=None
        if r.random()<0.4:
            f=r.choice(FAULTS+([base_exc] if base_exc else []))
            fault=(r.randint(0,4), f if isinstance(f,str) else f())
        hist.append((name,a,k,fault))
        net.begin(i,fault)
        try: getattr(c,name)(*a,**k)
        except Exception: pass
        except BaseException as e:
            if not base_exc: raise
        net.end(i)
        if kind=="pool" and c.client_pool.used: net.viol.append(("pool slot leaked",i))
    return net.viol,hist
seed=int(sys.argv[1]); N=int(sys.argv[2]); be = KeyboardInterrupt if len(sys.argv)>3 else None
r=random.Random(seed); cnt=collections.Counter(); first={}
for t in range(N):
    for kind in ("client","pool"):
        v,h=trial(r,kind,be)
        for x in v: cnt[(kind,x[0])]+=1; first.setdefault((kind,x[0]),(x,h))
print(B.__file__, dict(cnt))
for k,v in first.items(): print(k, str(v)[:500])

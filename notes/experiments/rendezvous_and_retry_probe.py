import itertools, random, collections
from pymemcache.client.rendezvous import RendezvousHash
from pymemcache.client.murmur3 import murmur3_32
from pymemcache.client.hash import HashClient
from pymemcache.client import retrying as R
random.seed(5)
def place(nodes,key,h=lambda s: murmur3_32(s,0)): return max(nodes,key=lambda n:(h(f"{n}-{key}"),n))
bad=collections.Counter()
for trial in range(300):
    n=random.randint(1,6); nodes=random.sample(["h%d:%d"%(i,p) for i in range(4) for p in (1,11,112)]+["/tmp/s%d"%i for i in range(3)], n)
    keys=["k%d"%random.randrange(10**6) for _ in range(200)]
    hf=random.choice([None, lambda s,seed: len(s)%3, lambda s,seed: 7, lambda s,seed: murmur3_32(s,seed)&3])
    def mk(order):
        r=RendezvousHash(hash_function=hf) if hf else RendezvousHash()
        for x in order: r.add_node(x)
        return r
    ref=mk(nodes); exp={k:ref.get_node(k) for k in keys}
    H=(lambda s: hf(s,0)) if hf else (lambda s: murmur3_32(s,0))
    for k in keys:
        if exp[k]!=place(nodes,k,H): bad["rule"]+=1
    for perm in itertools.permutations(nodes):
        r=mk(perm)
        if any(r.get_node(k)!=exp[k] for k in keys): bad["order"]+=1
    # history
    r=mk([]); cur=[]
    for _ in range(12):
        x=random.choice(nodes)
        if x in cur and random.random()<0.5: r.remove_node(x); cur.remove(x)
        else: r.add_node(x); (x in cur) or cur.append(x)
    if cur:
        f=mk(cur)
        if any(r.get_node(k)!=f.get_node(k) for k in keys): bad["history"]+=1
    # minimal disruption
    if n>=2:
        x=nodes[0]; r=mk(nodes); r.remove_node(x)
        for k in keys:
            a=exp[k]; b=r.get_node(k)
            if a!=x and a!=b: bad["moved though owner stayed"]+=1
            if a==x and b==x: bad["still on removed"]+=1
print("C11", dict(bad))
# spellings
a=HashClient(["127.0.0.1","[::1]","unix:/tmp/x"]); b=HashClient([("127.0.0.1",11211),("::1",11211),"/tmp/x"]); c=HashClient(["127.0.0.1:11211","[::1]:11211","/tmp/x", ("127.0.0.1","11211")])
print(a.hasher.nodes,b.hasher.nodes,c.hasher.nodes)
# C17 exhaustive small
class Base(Exception): pass
class SubA(Base): pass
class SubB(Base): pass
class Other(Exception): pass
CL=[Base,SubA,SubB,Other]
sleeps=[]; R.sleep=lambda d: sleeps.append(d)
class Inner:
    def __init__(self,seq): self.seq=list(seq); self.calls=0
    def op(self,*a,**k):
        self.calls+=1; o=self.seq[self.calls-1]
        if isinstance(o,type): self.last=o("x"); raise self.last
        return o
def subsets(xs): return itertools.chain.from_iterable(itertools.combinations(xs,r) for r in range(len(xs)+1))
n=0; bad=collections.Counter()
OKV=object()
for attempts in range(1,5):
    for seq in itertools.product(CL+[OKV],repeat=attempts):
        if OKV in seq: seq=seq[:seq.index(OKV)+1]
        elif False: pass
        for rf in subsets(CL):
            for dn in subsets(CL):
                if set(rf)&set(dn): continue
                for spell in (tuple,list,set):
                    n+=1
                    inner=Inner(seq); sleeps.clear()
                    rc=R.RetryingClient(inner,attempts=attempts,retry_delay=0.25,retry_for=spell(rf) if rf else None,do_not_retry_for=spell(dn) if dn else None)
                    # reference
                    exp_calls=0; outcome=None
                    for i in range(attempts):
                        o=seq[i]; exp_calls+=1
                        if o is OKV: outcome=("ok",); break
                        retry = i<attempts-1 and (not rf or issubclass(o,rf)) and not (dn and issubclass(o,dn))
                        if not retry: outcome=("exc",o); break
                    try: r=rc.op(1,b=2); got=("ok",) if r is OKV else ("wrongval",)
                    except Exception as e: got=("exc",type(e)) if e is inner.last else ("exc-other",type(e))
                    if got!=outcome: bad["outcome"]+=1
                    if inner.calls!=exp_calls: bad["calls"]+=1
                    if sleeps!=[0.25]*(exp_calls-1): bad["sleeps"]+=1
print("C17 cases",n,dict(bad))
for bad_cfg in [dict(attempts=0),dict(attempts=-1),dict(retry_for=[int]),dict(retry_for=[KeyboardInterrupt]),dict(retry_for=[Base],do_not_retry_for=[Base]),dict(retry_for=Base),dict(do_not_retry_for=[1])]:
    try: R.RetryingClient(Inner([]),**bad_cfg); print("ACCEPTED",bad_cfg)
    except Exception as e: print(type(e).__name__, bad_cfg)

"""C16 differential probe: Client vs PooledClient vs HashClient(1 server, pooled or not) vs RetryingClient."""
import itertools, collections, socket, sys
exec(open(__file__.replace("stack_differential_probe","reply_ownership_oracle_prototype")).read().split("OPS=[")[0])
from pymemcache.client.hash import HashClient
from pymemcache.client.retrying import RetryingClient
from pymemcache import serde
from pymemcache.client.base import KeepaliveOpts
class LNet(Net):
    def __init__(self): super().__init__(); self.sent=[]; self.opts=[]
class LSock(Sock):
    def sendall(self,b): self.net.sent.append(b); super().sendall(b)
    def settimeout(self,t): self.net.opts.append(("timeout",t))
    def setsockopt(self,*a): self.net.opts.append(("opt",)+a)
def mknet():
    n=LNet(); n.socket=lambda *a: (lambda s:(n.socks.append(s),s)[1])(LSock(n)); n.call=0; n.reply_fault=None
    return n
class TLS:
    def __init__(self): self.calls=[]
    def wrap_socket(self, sock, server_hostname=None): self.calls.append(server_hostname); return sock
def stacks(cfg):
    out={}
    def kw(n): d=dict(cfg); d["socket_module"]=n; return d
    n=mknet(); out["client"]=(Client(("h",1),**kw(n)),n)
    n=mknet(); out["pooled"]=(PooledClient(("h",1),**kw(n)),n)
    n=mknet(); out["hash"]=(HashClient([("h",1)],**kw(n)),n)
    n=mknet(); out["hashpool"]=(HashClient([("h",1)],use_pooling=True,**kw(n)),n)
    n=mknet(); out["retry"]=(RetryingClient(Client(("h",1),**kw(n)),attempts=1),n)
    return out
CFGS=[{}, {"key_prefix":b"p:"}, {"key_prefix":"p:"}, {"default_noreply":False}, {"encoding":"utf8"}, {"allow_unicode_keys":True}, {"serde":serde.pickle_serde},
      {"serde":serde.compressed_serde}, {"connect_timeout":1.5,"timeout":2.5}, {"no_delay":True}, {"socket_keepalive":KeepaliveOpts(2,3,4)}, {"tls_context":TLS()},
      {"serializer":lambda k,v:(repr(v).encode(),3), "deserializer":lambda k,v,f:(v,f)}]
OPS=[("set",("k","v"),{}),("set",("k","é"),{"noreply":False}),("set",("ké","v"),{"noreply":False}),("set",("k",5),{"expire":7,"flags":9,"noreply":False}),
 ("add",("k","v"),{"expire":3}),("replace",("k","v"),{"noreply":False}),("append",("k","v"),{"noreply":False,"flags":1}),("prepend",("k","v"),{"expire":2}),
 ("cas",("k","v",b"7"),{"expire":4,"flags":2}),("cas",("k","v","7"),{"noreply":True}),
 ("get",("k",),{}),("get",("k","D"),{}),("get",("k",),{"default":"D"}),("gets",("k",),{}),("gets",("k",),{"default":"D","cas_default":"C"}),
 ("gat",("k",),{"expire":5}),("gat",("k",),{"expire":5,"default":"D"}),("gats",("k",),{"expire":5}),("gats",("k",),{"expire":5,"default":"D","cas_default":"C"}),
 ("get_many",(["k","j"],),{}),("gets_many",(["k","j"],),{}),("get_many",([],),{}),
 ("set_many",({"k":"1","j":"2"},),{"noreply":False,"expire":3,"flags":4}),("set_many",({"k":"1"},),{}),
 ("delete",("k",),{}),("delete",("k",),{"noreply":False}),("delete_many",(["k","j"],),{"noreply":False}),("delete_many",([],),{}),
 ("incr",("k",3),{}),("incr",("k",3),{"noreply":True}),("decr",("k",3),{}),("touch",("k",),{"expire":9,"noreply":False}),("touch",("k",),{}),
 ("get",("bad key",),{}),("set",("bad key","v"),{}),("incr",("k","x"),{}),("set",("k","v"),{"expire":"x"})]
def run(c,name,a,k):
    try: return ("ok",getattr(c,name)(*a,**k))
    except Exception as e: return ("exc",type(e).__name__)
diffs=collections.Counter(); first={}
for ci,cfg in enumerate(CFGS):
    for pre in (None, ("set",("k","10"),{"noreply":False})):
        for op in OPS:
            st=stacks(cfg); res={}
            for nm,(c,n) in st.items():
                if pre: run(c,*pre)
                n.sent.clear()
                r=run(c,*op)
                res[nm]=(r, b"".join(n.sent), tuple(map(str,n.opts)))
            base=res["client"]
            for nm,v in res.items():
                for idx,what in enumerate(("result","wire","sockopts")):
                    if repr(v[idx])!=repr(base[idx]):
                        key=(nm,what,tuple(sorted(cfg)) ,op[0], tuple(sorted(op[2])))
                        diffs[(nm,what,tuple(sorted(cfg)))]+=1; first.setdefault((nm,what,tuple(sorted(cfg))),(op,pre is not None,base[idx],v[idx]))
print(B.__file__)
for k,v in sorted(diffs.items()): print(k,v, str(first[k])[:260])

"""C07 prototype: every read method x class x fault position/kind, compared with the miss result."""
import inspect, collections, socket, sys
exec(open(__file__.replace("ignore_exc_miss_shape_prototype","reply_ownership_oracle_prototype")).read().split("OPS=[")[0])
from pymemcache.client.hash import HashClient
from pymemcache.client import hash as H
class Clock:
    t=1000.0
    def time(self): return Clock.t
H.time=Clock()
D=object(); C=object()
def mk(cls, net, **kw):
    if cls=="hash": return HashClient([("h",1)],socket_module=net,ignore_exc=True,**kw)
    if cls=="hashpool": return HashClient([("h",1)],socket_module=net,ignore_exc=True,use_pooling=True,**kw)
    if cls=="hashnone": return HashClient([],socket_module=net,ignore_exc=True,**kw)
    return {"client":Client,"pooled":PooledClient}[cls](("h",1),socket_module=net,ignore_exc=True,**kw)
CALLS=[("get",("k",),{}),("get",("k",D),{}),("get",("k",),{"default":D}),("gets",("k",),{}),("gets",("k",),{"default":D,"cas_default":C}),("gets",("k",),{"default":D}),
       ("gat",("k",),{"expire":3}),("gat",("k",),{"expire":3,"default":D}),("gats",("k",),{"expire":3}),("gats",("k",),{"expire":3,"default":D,"cas_default":C}),("gats",("k",),{"default":D}),
       ("get_many",(["k","j"],),{}),("gets_many",(["k","j"],),{})]
def same(a,b):
    if isinstance(a,tuple) and isinstance(b,tuple): return len(a)==len(b) and all(x is y for x,y in zip(a,b))
    if isinstance(a,dict) and isinstance(b,dict): return a==b
    return a is b
viol=collections.Counter(); first={}; n=0
class BadSerde:
    def serialize(self,k,v): return v,0
    def deserialize(self,k,v,f): raise ValueError("cannot deserialize")
for cls in ("client","pooled","hash","hashpool","hashnone"):
    for name,a,k in CALLS:
        net=Net(); net.reply_fault=None; c=mk(cls,net)
        try: sig=inspect.signature(getattr(type(c),name)); sig.bind(c,*a,**k)
        except TypeError: continue
        net.begin(0,None)
        try: miss=getattr(c,name)(*a,**k)
        except Exception as e: viol[("miss raised",cls,name)]+=1; continue
        for kind in ["refuse","reset_send","timeout","reset","eof","garbage","error","trunc","baddeser"]:
            for pos in range(0,5):
                net=Net(); net.reply_fault=None; Clock.t=1000.0
                c=mk(cls,net,**({"serde":BadSerde()} if kind=="baddeser" else {}))
                net.store[b"k"]=b"val"; net.store[b"j"]=b"w"
                net.begin(0,None if kind=="baddeser" else (pos,kind)); n+=1
                try: r=getattr(c,name)(*a,**k)
                except Exception as e:
                    viol[("raised",cls,name)]+=1; first.setdefault(("raised",cls,name),(kind,pos,repr(e))); continue
                fired = kind=="baddeser" or (net.fault is None and net.reply_fault is None)
                if not fired: continue
                hit_ok = False
                # a fault that did not prevent a correct answer (e.g. garbage applied to nothing) -> accept real value too
                if not same(r,miss):
                    # allowed: the real hit value when the fault was harmless
                    real={"get":b"val","gat":b"val"}.get(name)
                    if r==real or (isinstance(r,tuple) and r[0]==b"val") or (isinstance(r,dict) and r and all(v in (b"val",b"w") or (isinstance(v,tuple) and v[0] in (b"val",b"w")) for v in r.values())): continue
                    viol[("shape",cls,name)]+=1; first.setdefault(("shape",cls,name),(kind,pos,a,k,"got",r,"miss",miss))
                # usable afterwards
                Clock.t+=200; net.begin(1,None)
                for _ in range(3):
                    Clock.t+=100
                    try: c.set("z","1",noreply=False)
                    except Exception as e: viol[("unusable",cls)]+=1; first.setdefault(("unusable",cls),(kind,pos,name,repr(e))); break
print(B.__file__,"cases",n,dict(viol))
for k,v in first.items(): print(k,str(v)[:300])

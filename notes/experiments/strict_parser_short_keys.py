"""Draft of the strict request parser (memcached 1.6 tokenizer semantics) + C02 oracle on exhaustive short keys."""
import itertools, sys, time, socket, collections
from pymemcache.client.base import Client
from pymemcache.exceptions import MemcacheIllegalInputError
STORE={b"set",b"add",b"replace",b"append",b"prepend",b"cas"}
def isnum(t, signed=False, bits=64):
    s=t[1:] if signed and t[:1]==b"-" else t
    if not s or not s.isdigit() or len(s)>20: return False
    v=int(t)
    return (-(2**63)<=v<2**63) if signed else (0<=v<2**bits)
def parse(stream):
    """-> (commands, errors, leftover). Mirrors memcached: line ends at \\n, optional \\r stripped, tokens on ' '."""
    cmds=[]; errs=[]; buf=stream
    while buf:
        i=buf.find(b"\n")
        if i<0: return cmds,errs,buf
        line=buf[:i]; buf=buf[i+1:]
        if line.endswith(b"\r"): line=line[:-1]
        t=[x for x in line.split(b" ") if x]
        if not t: errs.append(("empty line",)); continue
        v=t[0]
        if v in STORE:
            need=6 if v==b"cas" else 5
            a=t[1:]; nr=False
            if len(a)==need and a[-1]==b"noreply": nr=True; a=a[:-1]
            if len(a)!=need-1 or len(a[0])>250 or not isnum(a[1],bits=32) or not isnum(a[2],signed=True) or not isnum(a[3]) or (v==b"cas" and not isnum(a[4])):
                errs.append(("bad store line",line)); continue
            n=int(a[3])
            if len(buf)<n+2: return cmds,errs,line+b"\n"+buf
            data=buf[:n]
            if buf[n:n+2]!=b"\r\n": errs.append(("bad data chunk",line)); buf=buf[n:]; continue
            buf=buf[n+2:]
            cmds.append((v,a[0],int(a[1]),int(a[2]),data,int(a[4]) if v==b"cas" else None,nr))
        elif v in (b"get",b"gets"):
            if len(t)<2 or any(len(k)>250 for k in t[1:]): errs.append(("bad get",line)); continue
            cmds.append((v,tuple(t[1:])))
        elif v in (b"gat",b"gats"):
            if len(t)<3 or not isnum(t[1],signed=True) or any(len(k)>250 for k in t[2:]): errs.append(("bad gat",line)); continue
            cmds.append((v,int(t[1]),tuple(t[2:])))
        elif v==b"delete":
            a=t[1:]; nr=a[-1:]==[b"noreply"] and len(a)==2
            if nr: a=a[:-1]
            if len(a)!=1 or len(a[0])>250: errs.append(("bad delete",line)); continue
            cmds.append((v,a[0],nr))
        elif v in (b"incr",b"decr",b"touch"):
            a=t[1:]; nr=a[-1:]==[b"noreply"] and len(a)==3
            if nr: a=a[:-1]
            if len(a)!=2 or len(a[0])>250 or not isnum(a[1],signed=(v==b"touch")): errs.append(("bad "+v.decode(),line)); continue
            cmds.append((v,a[0],int(a[1]),nr))
        else: errs.append(("unknown",line))
    return cmds,errs,b""
class S:
    def __init__(self): self.sent=b""
    def sendall(self,b): self.sent+=b
    def recv(self,n): raise socket.timeout()
    def close(self): pass
def check(opname, key, prefix=b"", au=False):
    c=Client(("h",1), key_prefix=prefix, allow_unicode_keys=au); s=S(); c.sock=s
    enc=None
    try: enc=key if isinstance(key,bytes) else key.encode("utf8" if au else "ascii")
    except UnicodeEncodeError: pass
    want_key=None if enc is None else prefix+enc
    if opname=="set": call=lambda: c.set(key,b"flush_all",noreply=True); want=[(b"set",want_key,0,0,b"flush_all",None,True)]
    elif opname=="get": call=lambda: c.get(key); want=[(b"get",(want_key,))]
    elif opname=="incr": call=lambda: c.incr(key,1,noreply=True); want=[(b"incr",want_key,1,True)]
    try: call(); raised=None
    except MemcacheIllegalInputError: raised="illegal"
    except socket.timeout: raised=None
    except Exception as e: raised=repr(e)
    if raised=="illegal": return None if not s.sent else ("raised but sent",s.sent)
    if raised: return ("unexpected exception",raised)
    cmds,errs,left=parse(s.sent)
    if errs or left or cmds!=want: return ("malformed/injected", s.sent, cmds, errs, left)
    return None
t=time.time(); bad=collections.Counter(); first={}; n=0
for L in (0,1,2):
    for key in itertools.product(range(256),repeat=L):
        kb=bytes(key)
        for op in ("set","get","incr"):
            n+=1
            r=check(op,kb)
            if r: bad[(op,r[0])]+=1; first.setdefault((op,r[0]),(kb,r))
print("cases",n,"time",round(time.time()-t,1)); print(dict(bad))
for k,v in first.items(): print(k,str(v)[:300])
# a few str / prefix / long cases
for key,pfx,au in [("",b"p",False),("",b"",True)," \t".join(["",""]) and (" \t",b"",False),("é",b"",True),("é",b"",False),(b"a"*250,b"",False),(b"a"*251,b"",False),(b"a"*249,b"pp",False),("é"*125,b"",True),("é"*126,b"",True)]:
    print(repr(key)[:20],pfx,au,"->",check("set",key,pfx,au))

import sys, threading, time, collections, random
from pymemcache import pool as P

class Sched:
    """Baton-passing deterministic scheduler; one thread runs at a time."""
    def __init__(self, choices):
        self.choices=list(choices); self.ci=0
        self.threads=[]; self.sem={}; self.state={}  # tid -> 'ready'|'blocked'|'done'
        self.current=None; self.trace=[]; self.deadlock=False; self.waiting_lock={}
        self.main_sem=threading.Semaphore(0)
        self.steps=0
    def pick(self, runnable):
        if self.ci < len(self.choices): c=self.choices[self.ci]; self.ci+=1
        else: c=0
        # c==0: keep current if runnable else first
        if self.current in runnable:
            if c==0: return self.current
            others=[t for t in runnable if t!=self.current]
            return others[(c-1)%len(others)] if others else self.current
        return runnable[c%len(runnable)]
    def yield_point(self, tid, blocked_on=None):
        self.steps+=1
        if blocked_on is not None: self.state[tid]='blocked'; self.waiting_lock[tid]=blocked_on
        self._switch(tid)
    def _switch(self, tid):
        runnable=[t for t in self.threads if self.state[t]=='ready']
        if not runnable:
            if all(self.state[t]=='done' for t in self.threads): self.main_sem.release(); return
            self.deadlock=True; self.main_sem.release()
            if self.state.get(tid)!='done': self.sem[tid].acquire()  # park forever
            return
        nxt=self.pick(runnable)
        self.trace.append(nxt)
        if nxt!=tid:
            self.current=nxt
            self.sem[nxt].release()
            if self.state[tid]!='done': self.sem[tid].acquire()
        else: self.current=tid
    def unblock(self, lock):
        for t,l in list(self.waiting_lock.items()):
            if l is lock: self.state[t]='ready'; del self.waiting_lock[t]
    def run(self, funcs):
        for i,f in enumerate(funcs):
            self.threads.append(i); self.sem[i]=threading.Semaphore(0); self.state[i]='ready'
        errs={}
        def body(i,f):
            self.sem[i].acquire()
            sys.settrace(self.make_tracer(i))
            try: f()
            except BaseException as e: errs[i]=e
            finally:
                sys.settrace(None)
                self.state[i]='done'; self._switch(i)
        ths=[threading.Thread(target=body,args=(i,f),daemon=True) for i,f in enumerate(funcs)]
        for t in ths: t.start()
        first=self.pick(self.threads); self.current=first; self.sem[first].release()
        self.main_sem.acquire()
        return errs
    def make_tracer(self, tid):
        files=(P.__file__,)
        def local(frame, event, arg):
            if event=='opcode': self.yield_point(tid)
            return local
        def tracer(frame, event, arg):
            if event=='call' and frame.f_code.co_filename in files:
                frame.f_trace_opcodes=True; frame.f_trace_lines=False
                return local
            return None
        return tracer
SCHED=None
class SLock:
    def __init__(self): self.owner=None
    def acquire(self):
        tid=SCHED.current
        while self.owner is not None:
            SCHED.yield_point(tid, blocked_on=self)
        self.owner=tid
    def release(self):
        self.owner=None; SCHED.unblock(self)
    def __enter__(self): self.acquire(); return self
    def __exit__(self,*a): self.release()

def trial(seed, n=60):
    global SCHED
    r=random.Random(seed)
    choices=[r.choice([0,0,0,0,1]) for _ in range(400)]
    SCHED=Sched(choices)
    created=[]
    class Obj: pass
    def mk(): o=Obj(); created.append(o); return o
    closed=[]
    p=P.ObjectPool(mk, after_remove=closed.append, max_size=2, lock_generator=SLock)
    holders={}
    def worker():
        o=p.get()
        assert o not in holders.values(), "double handout"
        holders[SCHED.current]=o
        del holders[SCHED.current]
        p.release(o)
    errs=SCHED.run([worker,worker])
    return errs, SCHED.deadlock, SCHED.steps, len(created), len(p.free), len(p.used)
t=time.time()
for s in range(300):
    r=trial(s)
    if r[0] or r[1] or r[5]!=0: print(s, r)
print("time", time.time()-t, r)

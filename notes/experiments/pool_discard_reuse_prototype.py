"""C09 oracle prototype: pooled connection discard/reuse/idle expiry over faulted histories."""
import random, collections, socket, sys
exec(open(__file__.replace("pool_discard_reuse_prototype","reply_ownership_oracle_prototype")).read().split("OPS=[")[0])
from pymemcache import pool as P
class Clock:
    t=5000.0
    def time(self): return Clock.t
P.time=Clock()
OPS=[("set",("k","v"),{"noreply":False}),("set",("k","v"),{"noreply":True}),("get",("k",),{}),("gets",("k",),{}),("get_many",(["k","j"],),{}),
     ("delete",("k",),{"noreply":False}),("incr",("k",1),{}),("touch",("k",5),{"noreply":False}),("version",(),{}),("quit",(),{}),("set_many",({"k":"1","j":"2"},),{"noreply":False})]
FAULTS=["refuse","reset_send","timeout","reset","eof","garbage","error","trunc"]
random.seed(int(sys.argv[1])); viol=collections.Counter(); first={}
for trial in range(int(sys.argv[2])):
    net=Net(); net.reply_fault=None; net.sizes=[random.choice([1,3,4096])]
    idle=random.choice([0,5]); mx=random.choice([1,2,None]); ie=random.choice([False,True])
    Clock.t=5000.0
    pc=PooledClient(("h",1),socket_module=net,max_pool_size=mx,pool_idle_timeout=idle,ignore_exc=ie)
    hist=[]; live=None  # socket expected to be reused
    last_use=None
    for i in range(random.randint(2,12)):
        if random.random()<0.3:
            gap=random.choice([1,5,6,20]); Clock.t+=gap; hist.append(("adv",gap)); continue
        name,a,k=random.choice(OPS); fault=None
        if random.random()<0.35: fault=(random.randint(0,3),random.choice(FAULTS))
        hist.append((name,fault)); nsock=len(net.socks)
        net.begin(i,fault); failed=False
        try: getattr(pc,name)(*a,**k)
        except Exception as e:
            failed=True
            if isinstance(e,RuntimeError): viol["too many objects"]+=1
        fired = (net.fault is None and net.reply_fault is None) and fault is not None
        net.end(i)
        if pc.client_pool.used: viol["used not zero"]+=1; first.setdefault("used",hist[:])
        new=net.socks[nsock:]
        opened=[s for s in net.socks if not s.closed]
        if len(opened)>1: viol["more than one open socket (sequential)"]+=1; first.setdefault("open",hist[:])
        expired = idle and live is not None and (Clock.t-last_use)>idle
        if live is not None:
            if expired:
                if not live.closed: viol["idle-expired socket not closed"]+=1; first.setdefault("exp",hist[:])
                if not new and name!="quit": pass
            else:
                if new: viol["healthy socket not reused"]+=1; first.setdefault("reuse",(hist[:],idle,Clock.t,last_use))
        bad_call = failed or (fired and fault[1] not in ()) 
        if failed or name=="quit":
            if opened: viol["socket open after failed call/quit"]+=1; first.setdefault("f",hist[:])
            live=None
        else:
            if fired and ie and name in ("get","gets","get_many"):
                # swallowed failure: socket must be closed
                if opened: viol["socket open after swallowed failure"]+=1; first.setdefault("sw",hist[:])
                live=None
            elif fired:
                # fault consumed but call succeeded? (e.g. fault index beyond events) treat by state
                live=opened[0] if opened else None
            else:
                live=opened[0] if opened else None
        last_use=Clock.t
    pc.close()
    if any(not s.closed for s in net.socks): viol["leak after close"]+=1
print(B.__file__, dict(viol))
for k,v in first.items(): print(k,str(v)[:400])

import itertools, collections, errno
from pymemcache.client.base import Client
class S:
    def __init__(self, pieces): self.p=collections.deque(pieces); self.sent=[]
    def sendall(self,b): self.sent.append(b)
    def recv(self,n):
        if not self.p: raise BlockingIOError("would block")
        v=self.p.popleft()
        if isinstance(v,Exception): raise v
        assert len(v)<=n
        return v
    def close(self): pass
def run(call, stream, cuts, eintr=False):
    pieces=[]; prev=0
    for c in cuts: pieces.append(stream[prev:c]); prev=c
    pieces.append(stream[prev:])
    if eintr:
        pp=[]
        for x in pieces: pp.append(OSError(errno.EINTR,"eintr")); pp.append(x)
        pieces=pp
    c=Client(("h",1), default_noreply=False); c.sock=S(pieces)
    try: r=("ok", call(c))
    except Exception as e: r=("exc", type(e).__name__, str(e))
    return r, len(c.sock.p)
scen = {
 "get": (lambda c: c.get("k"), b"VALUE k 0 6\r\na\r\nEND\r\nEND\r\n"),
 "gets_many": (lambda c: c.gets_many(["k","j"]), b"VALUE k 1 2 10\r\n\r\n\r\nVALUE j 0 0 11\r\n\r\nEND\r\n"),
 "set": (lambda c: c.set("k","v"), b"STORED\r\n"),
 "set_many": (lambda c: c.set_many({"a":"1","b":"2"}), b"STORED\r\nNOT_STORED\r\n"),
 "incr": (lambda c: c.incr("k",1), b"12\r\n"),
 "stats": (lambda c: c.stats(), b"STAT pid 1\r\nSTAT v \r\nEND\r\n"),
 "version": (lambda c: c.version(), b"VERSION 1.6.9\r\n"),
 "delete_many": (lambda c: c.delete_many(["a","b"]), b"DELETED\r\nNOT_FOUND\r\n"),
 "raw": (lambda c: c.raw_command(b"config get cluster", b"\n\r\nEND\r\n"), b"CONFIG cluster 0 20\r\n1\nh|1.1.1.1|11\n\r\nEND\r\n"),
 "raw2": (lambda c: c.raw_command(b"version"), b"VERSION 1\r\n"),
}
for name,(call,stream) in scen.items():
    base,_=run(call,stream,[])
    n=len(stream); bad=0; tot=0; ex=None
    rng = range(1,n)
    subsets = itertools.chain.from_iterable(itertools.combinations(rng,k) for k in (range(0,n) if n<=16 else range(0,4)))
    for cuts in subsets:
        for e in (False,True):
            tot+=1
            r,left=run(call,stream,cuts,e)
            if r!=base or left: 
                bad+=1
                if ex is None: ex=(cuts,e,r,left)
    print(name, "base", base, "tot", tot, "bad", bad, ex)

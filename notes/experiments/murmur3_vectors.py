import struct, time
from pymemcache.client.murmur3 import murmur3_32
M=0xFFFFFFFF
def rotl(x,r): return ((x<<r)|(x>>(32-r)))&M
def ref(data: bytes, seed=0):
    c1=0xcc9e2d51; c2=0x1b873593; h=seed&M; n=len(data); nb=n//4
    for i in range(nb):
        k=struct.unpack_from('<I',data,4*i)[0]
        k=(k*c1)&M; k=rotl(k,15); k=(k*c2)&M
        h^=k; h=rotl(h,13); h=(h*5+0xe6546b64)&M
    tail=data[4*nb:]; k=0
    if len(tail)>=3: k^=tail[2]<<16
    if len(tail)>=2: k^=tail[1]<<8
    if len(tail)>=1:
        k^=tail[0]; k=(k*c1)&M; k=rotl(k,15); k=(k*c2)&M; h^=k
    h^=n; h^=h>>16; h=(h*0x85ebca6b)&M; h^=h>>13; h=(h*0xc2b2ae35)&M; h^=h>>16
    return h
vec=[(b"",0,0),(b"",1,0x514E28B7),(b"",0xffffffff,0x81F16F39),(b"\xff\xff\xff\xff",0,0x76293B50),
 (b"\x21\x43\x65\x87",0,0xF55B516B),(b"\x21\x43\x65\x87",0x5082EDEE,0x2362F9DE),(b"\x21\x43\x65",0,0x7E4A8634),
 (b"\x21\x43",0,0xA0F7B07A),(b"\x21",0,0x72661CF4),(b"\0\0\0\0",0,0x2362F9DE),(b"\0\0\0",0,0x85F0B427),(b"\0\0",0,0x30F4C306),(b"\0",0,0x514E28B7),
 (b"Hello, world!",1234,0xFAF6CDB3),(b"Hello, world!",4321,0xBF505788),(b"The quick brown fox jumps over the lazy dog",0x9747b28c,0x2FA826CD),
 (b"aaaa",0x9747b28c,0x5A97808A),(b"aaa",0x9747b28c,0x283E0130),(b"aa",0x9747b28c,0x5D211726),(b"a",0x9747b28c,0x7FA09EA6),
 (b"abcd",0x9747b28c,0xF0478627),(b"abc",0x9747b28c,0xC84A62DD),(b"ab",0x9747b28c,0x74875592),(b"Hello, world!",0x9747b28c,0x24884CBA)]
for d,s,e in vec:
    r=ref(d,s); m=murmur3_32(d.decode('latin1'),s)
    print(d[:12],hex(s),hex(e), "ref ok" if r==e else "REF MISMATCH %x"%r, "repo ok" if m==e else "REPO MISMATCH %x"%m)
import random
random.seed(0); bad=0
t=time.time()
for i in range(20000):
    n=random.randint(0,64); d=bytes(random.randrange(256) for _ in range(n)); s=random.choice([0,1,2**31,2**32-1,random.randrange(2**32)])
    if ref(d,s)!=murmur3_32(d.decode('latin1'),s): bad+=1
print("bad",bad,time.time()-t)
print(murmur3_32("€€€€",0), murmur3_32("€",0))

import random, collections, sys
from pymemcache.client import hash as H
from pymemcache.client.hash import HashClient
from pymemcache.exceptions import MemcacheError
print(H.__file__)
class Clock:
    t=1000.0
    def time(self): return Clock.t
H.time = Clock()
contacts=[]
class FakeClient:
    failing={}
    def __init__(self, server, **kw): self.server=server
    def _do(self, name):
        f=FakeClient.failing.get(self.server)
        contacts.append((Clock.t, self.server, name, f is not None))
        if f: raise f
    def get(self,key,default=None): self._do("get"); return "v"
    def set(self,key,value,*a,**k): self._do("set"); return True
    def get_many(self,keys): self._do("get_many"); return {k:"v" for k in keys}
    def set_many(self,values,*a,**k): self._do("set_many"); return []
    def delete(self,key,*a,**k): self._do("delete"); return True
    def incr(self,key,v,*a,**k): self._do("incr"); return 1
    def close(self): pass
from pymemcache.client.rendezvous import RendezvousHash
routes=[]
class LogHash(RendezvousHash):
    def get_node(self,key):
        r=super().get_node(key); routes.append((tuple(self.nodes),key,r)); return r
class HC(HashClient): client_class=FakeClient
def place(nodes,key): 
    from pymemcache.client.murmur3 import murmur3_32
    return max(nodes, key=lambda n:(murmur3_32(f"{n}-{key}",0),n)) if nodes else None
def name(s): return "%s:%s"%s
viol=collections.Counter(); ex={}
def V(kind, info):
    viol[kind]+=1; ex.setdefault(kind, info)
random.seed(int(sys.argv[1]) if len(sys.argv)>1 else 3)
RT,DT=1,60
for trial in range(int(sys.argv[2]) if len(sys.argv)>2 else 20000):
    ns=random.choice([2,3]); ra=random.choice([0,1,2]); ie=random.choice([False,True])
    servers=[("s%d"%i,11211) for i in range(ns)]; names=[name(s) for s in servers]
    Clock.t=1000.0; FakeClient.failing={}; contacts.clear()
    hc=HC(servers, hasher=LogHash, retry_attempts=ra, retry_timeout=RT, dead_timeout=DT, ignore_exc=ie)
    ok={}; i=0
    while len(ok)<ns:
        k="k%d"%i; i+=1; ok.setdefault(place(names,k),k)
    owner={k:n for n,k in ok.items()}
    first_fail={}; routes.clear(); hist=[]; ever_failed=set(); fail_since={}  # server -> time since continuously failing
    intervals=collections.defaultdict(list) # server -> list of contact-times lists per failing interval
    for step in range(random.randint(1,18)):
        ev=random.choice(["op"]*4+["adv","adv","fail","heal"])
        if ev=="adv":
            d=random.choice([0.5,1.0,1.5,30,60,61,121]); Clock.t+=d; hist.append(("adv",d))
        elif ev=="fail":
            s=random.choice(servers)
            if s not in FakeClient.failing:
                FakeClient.failing[s]=random.choice([ConnectionRefusedError("x"),TimeoutError("t"),ConnectionResetError("r"),OSError("o")]); intervals[s].append([])
            hist.append(("fail",s))
        elif ev=="heal":
            s=random.choice(servers); FakeClient.failing.pop(s,None); hist.append(("heal",s))
        else:
            opn=random.choice(["get","set","delete","incr","get_many","set_many"])
            key=random.choice(list(owner))
            hist.append((opn,key)); n0=len(contacts); r0=len(routes)
            rot_before=list(hc.hasher.nodes)
            exc=None
            try:
                if opn=="get": hc.get(key)
                elif opn=="set": hc.set(key,"v")
                elif opn=="delete": hc.delete(key)
                elif opn=="incr": hc.incr(key,1)
                elif opn=="get_many": hc.get_many(list(owner))
                elif opn=="set_many": hc.set_many({k:"v" for k in owner})
            except BaseException as e: exc=e
            new=contacts[n0:]
            for (t,s,nm,failed) in new:
                if failed: ever_failed.add(s); intervals[s][-1].append(t)
            # exceptions
            if exc is not None:
                if ie: V("escape with ignore_exc", (ra,ie,hist[:],repr(exc)))
                elif not (exc in FakeClient.failing.values() or (isinstance(exc,MemcacheError) and "All servers" in str(exc))):
                    V("internal error", (ra,ie,hist[:],repr(exc)))
            # routing: single-key
            if opn in ("get","set","delete","incr"):
                if len(new)>1: V("multi contact", (ra,ie,hist[:],new))
                # rotation at time of routing: _retry_dead may have revived; recompute allowed set
                rt=routes[r0:]
                if len(rt)!=1 or rt[0][2]!=place(list(rt[0][0]),key): V("routing != place", (ra,ie,hist[:],rt))
                if new and name(new[0][1])!=rt[0][2]: V("contact != routed", (ra,ie,hist[:],new,rt))
                o=owner[key]; osrv=servers[names.index(o)]
                if osrv not in ever_failed and not any(True for s in servers if False):
                    if not new or name(new[0][1])!=o: V("clean owner bypassed", (ra,ie,hist[:],new))
            else:
                for k,o in owner.items():
                    osrv=servers[names.index(o)]
                    if exc is None and osrv not in ever_failed and not any(c[1]==osrv for c in new): V("clean owner bypassed multi", (ra,ie,hist[:],new))
                cs=[c[1] for c in new]
                if len(cs)!=len(set(cs)): V("server contacted twice in one multi call",(ra,ie,hist[:],new))
            # first failure keeps in rotation
            for (t,s,nm,failed) in new:
                if failed and ra>=1 and first_fail.setdefault(s,t)==t and len([c for c in contacts if c[1]==s and c[3]])==1 and name(s) not in hc.hasher.nodes: V("removed on first failure",(ra,ie,hist[:]))
            for s_ in servers:
                if s_ not in ever_failed and name(s_) not in hc.hasher.nodes: V("never-failed server out of rotation",(ra,ie,hist[:]))
    # window bounds per failing interval
    for s,ivs in intervals.items():
        for ts in ivs:
            for i,t in enumerate(ts):
                if len([u for u in ts[i:] if u-t<=RT])>2: V("rt bound",(ra,ie,hist,ts))
                if len([u for u in ts[i:] if u-t<=DT])>ra+2: V("dt bound",(ra,ie,hist,ts))
    # recovery
    FakeClient.failing={}
    for _ in range(int((2*DT+2)/0.9)+2):
        Clock.t+=0.9
        try: hc.get(random.choice(list(owner)))
        except Exception as e:
            if ie or not (isinstance(e,MemcacheError) and "All servers" in str(e)): V("exception during recovery",(ra,ie,hist,repr(e)))
    if sorted(hc.hasher.nodes)!=sorted(names): V("not recovered",(ra,ie,hist,hc.hasher.nodes))
    else:
        for k,o in owner.items():
            n0=len(contacts); hc.get(k)
            if [name(c[1]) for c in contacts[n0:]]!=[o]: V("post-recovery placement",(ra,ie,hist,k))
print(dict(viol))
for k,v in ex.items(): print(k, v)

import sys, threading, time, collections, random, socket
exec(open(__file__.replace("sched_pooledclient_prototype","sched_objectpool_prototype")).read().split("SCHED=None")[0].replace("files=(P.__file__,)", "files=FILES"))
from pymemcache.client import base as B
FILES=(P.__file__, B.__file__)
# restrict base.py tracing to PooledClient.* methods
_orig_make=Sched.make_tracer
def make_tracer(self, tid):
    def local(frame, event, arg):
        if event=='opcode': self.yield_point(tid)
        return local
    def tracer(frame, event, arg):
        if event=='call':
            co=frame.f_code
            if co.co_filename==P.__file__ or (co.co_filename==B.__file__ and co.co_qualname.startswith("PooledClient.")):
                frame.f_trace_opcodes=True; frame.f_trace_lines=False
                self.traced.add(co.co_qualname)
                return local
        return None
    return tracer
Sched.make_tracer=make_tracer
SCHED=None
class SLock:
    def __init__(self): self.owner=None
    def acquire(self):
        tid=SCHED.current
        while self.owner is not None: SCHED.yield_point(tid, blocked_on=self)
        self.owner=tid
    def release(self): self.owner=None; SCHED.unblock(self)
    def __enter__(self): self.acquire(); return self
    def __exit__(self,*a): self.release()
class FSock:
    n=0
    def __init__(self,net): FSock.n+=1; self.id=FSock.n; self.net=net; self.rx=collections.deque(); self.closed=0; self.user=None
    def _y(self, op):
        tid=SCHED.current
        if self.user is not None and self.user!=tid: self.net.bad.append(("concurrent io", self.id, self.user, tid, op))
        self.user=tid
        SCHED.yield_point(tid)
        self.user=None
    def settimeout(self,t): pass
    def setsockopt(self,*a): pass
    def connect(self,a): self._y("connect")
    def sendall(self,b):
        self._y("send")
        if b.startswith(b"set"): self.rx.append(b"STORED\r\n")
        elif b.startswith(b"get"): self.rx.append(b"END\r\n")
    def recv(self,n):
        self._y("recv")
        if self.net.fail_recv and self.net.fail_recv.pop(): raise ConnectionResetError("x")
        return self.rx.popleft()
    def close(self): self.closed+=1
class Net:
    AF_UNIX=socket.AF_UNIX; AF_UNSPEC=0; SOCK_STREAM=1; IPPROTO_TCP=6; TCP_NODELAY=1
    def __init__(self): self.socks=[]; self.bad=[]; self.fail_recv=[]
    def getaddrinfo(self,h,p,*a): return [(2,1,6,"",(h,p))]
    def socket(self,*a): s=FSock(self); self.socks.append(s); return s
def trial(seed, maxsize=1):
    global SCHED
    r=random.Random(seed)
    SCHED=Sched([r.choice([0]*9+[1]) for _ in range(3000)]); SCHED.traced=set()
    net=Net(); net.fail_recv=[r.random()<0.3 for _ in range(6)]
    pc=B.PooledClient(("h",1), socket_module=net, max_pool_size=maxsize, lock_generator=SLock, default_noreply=False)
    pool=pc.client_pool; holder={}; bad=net.bad
    og,orl,od=pool.get,pool.release,pool.destroy
    def g():
        o=og()
        if holder.get(id(o)) is not None: bad.append("double handout")
        holder[id(o)]=SCHED.current; return o
    def rl(o,*a,**k): holder[id(o)]=None; return orl(o,*a,**k)
    def d(o,*a,**k): holder[id(o)]=None; return od(o,*a,**k)
    pool.get,pool.release,pool.destroy=g,rl,d
    def worker():
        for _ in range(2):
            try: pc.set("k","v")
            except RuntimeError as e:
                if "Too many" not in str(e): bad.append(repr(e))
            except ConnectionResetError: pass
    errs=SCHED.run([worker,worker])
    allobjs=list(pool.free)+list(pool.used)
    if pool.used: bad.append("used nonempty")
    if len(allobjs)>maxsize: bad.append("over max")
    idle={id(o.sock) for o in pool.free if o.sock is not None}
    for s in net.socks:
        if s.closed!=1 and id(s) not in idle: bad.append(("sock close count",s.id,s.closed))
    return errs, SCHED.deadlock, bad, SCHED.steps, sorted(SCHED.traced)
t=time.time(); n=0
for s in range(int(sys.argv[1]) if len(sys.argv)>1 else 500):
    r=trial(s)
    if r[0] or r[1] or r[2]:
        n+=1
        if n<4: print(s, r[:3])
print("time", time.time()-t, "bad", n, "steps", r[3], r[4])

"""C06 lifecycle oracle prototype: systematic single/double socket-level faults over connect+exchange."""
import socket, collections, itertools, sys
from pymemcache.client import base as B
from pymemcache.client.base import Client, KeepaliveOpts
from pymemcache.exceptions import *
class Inject(OSError): pass
class Net:
    AF_UNIX=socket.AF_UNIX; AF_UNSPEC=0; SOCK_STREAM=1; IPPROTO_TCP=6; TCP_NODELAY=1
    def __init__(self, fams): self.fams=fams; self.log=[]; self.socks=[]; self.faults={}; self.n=0; self.viol=[]
    def ev(self, kind, sock=None):
        i=self.n; self.n+=1; self.log.append((i,kind,sock.id if sock else None))
        opened=[s for s in self.socks if not s.closed]
        if len(opened)>1: self.viol.append(("two open sockets",i,kind))
        if i in self.faults: f=self.faults.pop(i); raise f
    def getaddrinfo(self,h,p,*a):
        self.ev("getaddrinfo"); return [(f,1,6,"",("%s#%d"%(h,i),p)) for i,f in enumerate(self.fams)]
    def socket(self,f,t,p=0):
        self.ev("socket"); s=Sock(self,f); self.socks.append(s); return s
class Sock:
    c=0
    def __init__(self,net,fam,raw=None): Sock.c+=1; self.id=Sock.c; self.net=net; self.fam=fam; self.closed=False; self.timeout="unset"; self.rx=collections.deque(); self.addr=None; self.wrapped_by=None; self.raw=raw; self.closes=0
    def settimeout(self,t): self.net.ev("settimeout",self); self.timeout=t
    def setsockopt(self,*a): self.net.ev("setsockopt",self)
    def connect(self,a):
        self.net.ev("connect",self)
        if self.timeout!=self.net.cfg.get("connect_timeout"): self.net.viol.append(("connect under wrong timeout",self.timeout))
        self.addr=a
    def _io(self,kind):
        self.net.ev(kind,self)
        if self.wrapped_by is not None: self.net.viol.append(("io on raw socket after TLS wrap",kind))
        if self.timeout!=self.net.cfg.get("timeout"): self.net.viol.append((kind+" under wrong timeout",self.timeout))
        if self.closed: self.net.viol.append(("io on closed socket",kind))
    def sendall(self,b):
        self._io("sendall")
        if b.startswith(b"get"): self.rx.append(b"END\r\n")
        else: self.rx.append(b"STORED\r\n")
    def recv(self,n): self._io("recv"); return self.rx.popleft() if self.rx else b""
    def close(self):
        self.closes+=1; self.closed=True
        if self.raw: self.raw.closed=True
        self.net.ev("close",self)
class TLS:
    def __init__(self,net): self.net=net
    def wrap_socket(self,sock,server_hostname=None):
        self.net.ev("wrap_socket",sock); w=Sock(self.net,sock.fam,raw=sock); w.timeout=sock.timeout; sock.wrapped_by=w; sock.closed=True; self.net.socks.append(w); return w
def scenario(cfg, fams, server, faults):
    net=Net(fams); net.cfg=cfg; kw=dict(cfg)
    if kw.pop("tls",False): kw["tls_context"]=TLS(net)
    net.faults={i:Inject("fault@%d"%i) for i in faults}
    c=Client(server, socket_module=net, default_noreply=False, **kw)
    outcomes=[]
    for call in (lambda: c.set("k","v"), lambda: c.get("k"), lambda: c.get("k")):
        n0=net.n
        try: call(); outcomes.append("ok")
        except Inject as e: outcomes.append("inject")
        except MemcacheUnexpectedCloseError: outcomes.append("eof")
        except Exception as e: outcomes.append(repr(e)); net.viol.append(("unexpected exception",repr(e)))
        opened=[s for s in net.socks if not s.closed]
        if outcomes[-1]!="ok" and opened: net.viol.append(("socket left open after failed call",outcomes[-1],[s.id for s in opened]))
        if outcomes[-1]=="ok" and (len(opened)!=1 or opened[0] is not c.sock): net.viol.append(("after ok call open!=client.sock",))
    net.faults.clear()
    try:
        if c.get("k") is not None: net.viol.append(("wrong answer after recovery",))
    except Exception as e: net.viol.append(("no recovery after faults",repr(e)))
    c.close()
    for s in net.socks:
        if not s.closed: net.viol.append(("leaked socket",s.id))
    return net, outcomes
CFGS=[({},[2],("h",1)),({"connect_timeout":1.0,"timeout":2.0},[2],("h",1)),({"no_delay":True},[10,2],("h",1)),({"tls":True,"timeout":3},[2,10,2],("h",1)),
      ({"socket_keepalive":KeepaliveOpts(),"connect_timeout":0.5},[2],("h",1)),({"timeout":1},[],"/tmp/sock"),({"no_delay":True,"tls":True,"connect_timeout":2,"timeout":1},[10,2],("h",1))]
viol=collections.Counter(); first={}; cases=0
for cfg,fams,server in CFGS:
    base,_=scenario(cfg,fams,server,[])
    N=base.n
    for v in base.viol: viol[("nofault",)+v[:1]]+=1; first.setdefault(("nofault",)+v[:1],(cfg,v))
    for k in (1,2):
        for faults in itertools.combinations(range(N+4),k):
            cases+=1
            net,out=scenario(cfg,fams,server,list(faults))
            for v in net.viol:
                viol[v[:1]]+=1; first.setdefault(v[:1],(cfg,fams,faults,v,out,[e[1] for e in net.log]))
print(B.__file__,"cases",cases); print(dict(viol))
for k,v in first.items(): print(k,str(v)[:700])
